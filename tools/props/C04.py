"""C04 — rank/select answers match the bit sequence definition in every implementation.

spec/RankSelect.tla holds the definitions (Rank1/Rank0/Select1/Select0/Get/Len/CountOnes over a bit
sequence) and the contract actions for batch events; MC_RankSelect model-checks, for EVERY bit string of
length <= 10, that the tables the contract evaluates agree with the definitions, the laws
Rank1(Select1(k)) = k and Rank1(p) + Rank0(p) = p, and that the batch actions reject every single-answer
corruption.  Harness bin c04 runs every rank/select implementation of zipora on generated bit vectors
and logs, per (vector, subject, operation), the answer for EVERY position 0..=len / every k in 0..=len;
Trace_RankSelect validates: the oracle is the TLA+ definition evaluated by TLC.
"""
import glob
import json
import os

import vlib

LEVEL = "exploration"
BIN = "c04"
TRACE = "Trace_RankSelect"


# ---- binding self-tests: a corrupted answer must be rejected

def corrupt_rank(run):
    """one rank answer (the one for p = len div 2) changed by +1"""
    if run[0].get("len", 0) < 40:
        return None
    for e in run:
        if e.get("op") == "rank" and e.get("all") and e.get("which") == "rank1" and len(e["r"]) > 2:
            r = list(e["r"])
            r[len(r) // 2] += 1
            e["r"] = r
            return run
    return None


def corrupt_select(run):
    """one select1 answer moved to the neighbouring position"""
    if run[0].get("len", 0) < 40:
        return None
    for e in run:
        if e.get("op") == "select" and e.get("all") and e.get("which") == "select1":
            r = list(e["r"])
            ks = [i for i, x in enumerate(r) if x >= 0]
            if not ks:
                continue
            k = ks[len(ks) // 2]
            r[k] += 1
            e["r"] = r
            return run
    return None


def corrupt_select_refusal(run):
    """select1(k = ones) answered with a position instead of being refused"""
    if run[0].get("len", 0) < 40:
        return None
    for e in run:
        if e.get("op") == "select" and e.get("all") and e.get("which") == "select1":
            r = list(e["r"])
            ks = [i for i, x in enumerate(r) if x < 0]
            if not ks:
                continue
            r[ks[0]] = 0
            e["r"] = r
            return run
    return None


def corrupt_count(run):
    for e in run:
        if e.get("op") == "counts":
            e["ones"] = e["ones"] + 1
            return run
    return None


def corrupt_get(run):
    if run[0].get("len", 0) < 40:
        return None
    for e in run:
        if e.get("op") == "get":
            r = list(e["r"])
            r[len(r) // 3] = 1 - r[len(r) // 3]
            e["r"] = r
            return run
    return None


def corrupt_bits(run):
    """the recorded bit vector itself changed (one 16-bit word): the recorded answers no longer fit"""
    if run[0].get("len", 0) < 40:
        return None
    w = list(run[0]["w16"])
    w[1] ^= 0x0010
    run[0]["w16"] = w
    return run


def _clean_history(run):
    """a history run that does not contain the C04-KF9 mutator"""
    return run[0].get("route") == "hist" and not any(e.get("m") == "bitwise" or e.get("op") == "panic" for e in run)


def corrupt_pop(run):
    """one popped bit reported with the wrong value"""
    if not _clean_history(run):
        return None
    for e in run:
        if e.get("op") == "mut" and e.get("m") == "pop" and e.get("r") and e["r"][0] >= 0:
            r = list(e["r"])
            r[0] = 1 - r[0]
            e["r"] = r
            return run
    return None


def corrupt_mut_ones(run):
    """count_ones observed after a mutator call changed by +1"""
    if not _clean_history(run):
        return None
    for e in run:
        if e.get("op") == "mut" and e.get("m") in ("pop", "ensure_set1", "resize", "set", "insert"):
            e["ones"] = e["ones"] + 1
            return run
    return None


def drop_mutation(run):
    """a mutator call removed from the history: the structure built afterwards no longer fits the bit string"""
    if not _clean_history(run):
        return None
    for i, e in enumerate(run):
        if e.get("op") == "mut" and e.get("m") == "pop" and any(x == 1 for x in e.get("r", [])):
            return run[:i] + run[i + 1:]
    return None


def corrupt_cnt(run):
    for e in run:
        if e.get("op") == "cnt" and e.get("what") in ("ones", "zeros", "len"):
            e["r"] = e["r"] + 1
            return run
    return None


def corrupt_wrange(run):
    for e in run:
        if e.get("op") == "wrange":
            r = list(e["r"])
            r[7] += 1
            e["r"] = r
            return run
    return None


def corrupt_wedge(run):
    for e in run:
        if e.get("op") == "wedge" and e.get("tz", 64) < 63:
            e["tz"] = e["tz"] + 1
            return run
    return None


def corrupt_bulk_order(run):
    """a bulk rank call asked in descending order answered as if the list had been ascending"""
    for e in run:
        if e.get("op") == "rank" and not e.get("all") and "<desc>" in e.get("api", "") and len(set(e["r"])) > 2:
            e["r"] = sorted(e["r"])
            return run
    return None


def corrupt_bulk_select_order(run):
    for e in run:
        if e.get("op") == "select_batch" and e.get("ok") and "<shuffled>" in e.get("api", "") and len(set(e["r"])) > 2:
            e["r"] = sorted(e["r"])
            return run
    return None


def corrupt_wselect_batch(run):
    for e in run:
        if e.get("op") == "wselect_batch" and e.get("ok") and len(e["r"]) > 2:
            r = list(e["r"])
            r[0], r[1] = r[1], r[0]
            if r == e["r"]:
                continue
            e["r"] = r
            return run
    return None


def _files(s):
    return sorted(glob.glob(os.path.join(s["_out"], "*.ndjson")))


def _first_file_of(files, subject):
    """the first trace file holding a run of the subject (small subjects share files)"""
    needle = '"subject":"%s"' % subject
    for p in files:
        with open(p) as f:
            for line in f:
                if line.startswith('{"big"') or '"op":"reset"' in line[:600]:
                    if needle in line:
                        return p
    return files[0]


def run(ctx):
    ctx.build(BIN)
    # --- the definitions and the contract, exhaustively for every bit string of length <= 10
    ctx.tlc_mc("MC_RankSelect", workers=4, timeout=600,
               note="every bit string of length <= 10: tables = definitions, Rank1(Select1(k)) = k, "
                    "Rank1(p)+Rank0(p) = p, batch actions accept the defined answers and reject every "
                    "single-answer corruption")
    # --- the real implementations on generated vectors
    # C04_SUBJECTS=a,b restricts the subjects (debugging aid; the evidence then covers only those)
    s = ctx.harness(BIN, "drive", "b1", timeout=3000, subject=os.environ.get("C04_SUBJECTS") or None)
    files = _files(s)
    if not files:
        raise vlib.ToolError("c04 produced no traces")
    ctx.validate(TRACE, files, what="rank/select batch answers", max_reject_per_file=40,
                 timeout=1500 if ctx.thorough else 400)
    # --- binding self-tests on a clean subject
    f0 = _first_file_of(files, "simple:new")
    ctx.selftest_corrupt(TRACE, f0, corrupt_rank, "one rank1 answer changed by +1")
    ctx.selftest_corrupt(TRACE, f0, corrupt_select, "one select1 answer moved by one position")
    ctx.selftest_corrupt(TRACE, f0, corrupt_select_refusal, "select1(k = ones) answered instead of refused")
    ctx.selftest_corrupt(TRACE, f0, corrupt_count, "count_ones changed by +1")
    ctx.selftest_corrupt(TRACE, f0, corrupt_get, "one get(i) answer flipped")
    ctx.selftest_corrupt(TRACE, f0, corrupt_bits, "one bit of the recorded vector flipped")
    ctx.selftest_corrupt(TRACE, f0, corrupt_cnt, "max_rank0/max_rank1 twin of a count changed by +1")
    fh = _first_file_of(files, "simple:new@hist")
    ctx.selftest_corrupt(TRACE, fh, corrupt_pop, "a popped bit reported with the wrong value")
    ctx.selftest_corrupt(TRACE, fh, corrupt_mut_ones, "count_ones observed after a mutator call changed by +1")
    ctx.selftest_corrupt(TRACE, fh, drop_mutation, "a pop() of a one bit removed from the logged history")
    fw = _first_file_of(files, "bmi2a:words")
    ctx.selftest_corrupt(TRACE, fw, corrupt_wrange, "ones of one bit range of a word changed by +1")
    ctx.selftest_corrupt(TRACE, fw, corrupt_wedge, "trailing zero count of a word changed by +1")
    ctx.selftest_corrupt(TRACE, fw, corrupt_bulk_order, "bulk rank asked in descending order answered in ascending order")
    ctx.selftest_corrupt(TRACE, fw, corrupt_bulk_select_order, "bulk select asked in shuffled order answered in ascending order")
    ctx.selftest_corrupt(TRACE, fw, corrupt_wselect_batch, "two answers of a multi-index word select swapped")
    # --- evidence
    cov = ctx.cov
    cov["evaluations"] = s.get("answers", 0)
    cov["batch_events"] = s.get("events", 0)
    cov["runs"] = s.get("runs", 0)
    cov["vectors"] = s.get("vectors", 0)
    cov["lengths"] = s.get("lengths", 0)
    cov["max_len"] = s.get("max_len", 0)
    cov["histories"] = s.get("histories", 0)
    cov["history_runs"] = s.get("history_runs", 0)
    cov["subjects"] = s.get("subjects", {})
    nontrivial = 0
    vacuous = []
    sel0_missing = []
    for name, d in s.get("subjects", {}).items():
        nontrivial += d.get("nontrivial_runs", 0)
        if d.get("nontrivial_runs", 0) == 0:
            vacuous.append(name)
        # every run that reached select0 was answered "not implemented"
        reached = d.get("runs", 0) - d.get("panics", 0) - d.get("build_refused", 0)
        if d.get("select0_not_offered", 0) and d.get("select0_not_offered", 0) >= reached > 0:
            sel0_missing.append(name)
    cov["distinct_nontrivial"] = nontrivial
    cov["vacuous_subjects"] = vacuous
    cov["select0_not_offered_subjects"] = sel0_missing
    cov["exhaustive"] = False
    cov["rule"] = ("a case = one (subject, bit vector) pair: subject = rank/select implementation x construction option x "
                   "construction route of the BitVector; bit vectors are distinct by content (length 0..130, every multiple of "
                   "64 up to 1088 +-1, 2046..2050, 4094..4098%s; patterns all-zero, all-one, one 1, one 0, alternating, runs of "
                   "63/64/65, random p = 0.01/0.5/0.99), or the product of a logged BitVector MUTATION HISTORY (route hist: new/with_size/"
                   "from_raw_bits, push, pop, set/set_unchecked/get_mut, insert, ensure_set1/fast_ensure_set1, resize, clear, "
                   "set_range_simd, bulk_bitwise_op_simd, reserve/clone/== ; TLC computes the bit string from the logged calls, "
                   "len and count_ones are judged after every call, the BitVector-only subject is probed in full after every "
                   "call, and every rank/select family is then built from the resulting vector).  Counted when at least one batch of answers was recorded and judged; "
                   "every case carries the answers for EVERY position 0..=len and EVERY k in 0..=len (k >= count must be refused); "
                   "every bulk / batch / multi-range entry point is additionally asked descending, shuffled, duplicated, far-apart, "
                   "same-block, end-point and empty lists and lists with one invalid k, judged element by element in the order asked"
                   "%s.  evaluations = individual (position, answer) pairs judged by TLC against the TLA+ definition."
                   % ((", all lengths 0..1100, 65534..65538" if ctx.thorough else ""),
                      ("; for the 65536-bit vectors positions are all multiples of 64 +-1 plus 2000 random ones" if ctx.thorough else "")))
    ctx.sample_from_trace(f0, 3)
    for p in files[:1]:
        evs = vlib.read_ndjson(p)
        small = [e for e in evs if e.get("op") == "reset" and 60 <= e.get("len", 0) <= 70][:1]
        if small:
            i = evs.index(small[0])
            ctx.sample({"trace_file": os.path.relpath(p, vlib.VERIF), "run": evs[i:i + 7]})
    ctx.assumptions += [
        "the oracle is the TLA+ definition (RankSelect.tla) evaluated by TLC over the recorded answers; the harness generates the "
        "input bits, logs them as 16-bit words and projects answers (Err/None -> -1); it computes no rank or select itself",
        "MC_RankSelect ties the prefix-sum / position tables used by the contract to the set-cardinality definitions for every "
        "bit string of length <= 10; for longer vectors the same table construction is used",
        "hardware paths: whatever the host CPU selects at run time (POPCNT/BMI2/AVX2 present here); scalar fall-backs behind "
        "is_x86_feature_detected! are not forced",
        "route hist: the abstract bit string is computed by TLC from the logged mutator calls (history machine in RankSelect.tla); "
        "C04-KF9 input region excluded in the driver: bulk_bitwise_op_simd OR/XOR with an operand longer than the vector",
        "select0 is judged where offered: an implementation refusing every select0 is recorded under select0_not_offered_subjects",
    ]


def replay(ctx, path):
    """re-execute the (subject, vector) of a replay file against the current tree and validate again"""
    rep = json.load(open(path))
    ctx.build(BIN)
    reset = rep.get("reset", {})
    ctx.tier = rep.get("tier", ctx.tier)
    ctx.seed = reset.get("seed", rep.get("seed", ctx.seed))
    extra = {}
    if "len" in reset:
        extra["len"] = reset["len"]
    if "pat" in reset:
        extra["pat"] = reset["pat"]
    s = ctx.harness(BIN, "drive", "rp", subject=rep.get("subject"), extra=extra)
    files = _files(s)
    ctx.validate(TRACE, files, what="replay of " + os.path.basename(path), max_reject_per_file=40)
    ctx.cov["evaluations"] = s.get("answers", 0)
    ctx.cov["distinct_nontrivial"] = s.get("runs", 0)
    ctx.cov["rule"] = "replay of one (subject, vector) pair"
    ctx.sample({"replayed": path})
