"""C20 — string views, orderings and iterators agree with byte-wise semantics.

spec/Strings.tla, spec/NumericCmp.tla: the definitions (oracle) in TLA+; spec/LexIter.tla: the cursor
contract.  MC_Strings / MC_NumericCmp / MC_LexIter model-check the definitions' own coherence on small
domains (executable form = definitional form, total orders, agreement with integer arithmetic, the
visiting property of the cursor).  harness bin c20 runs the real zipora functions on exhaustive small
inputs and on the families of the quantifier text and logs whole answer batches (comparison matrices,
all words / lines of a text, cursor scans); Trace_Strings validates every entry.
"""
import concurrent.futures as cf
import copy
import glob
import json
import os
import re

import vlib

LEVEL = "exploration"
BIN = "c20"
TRACE = "Trace_Strings"


# ----------------------------------------------------------------------------- binding self-tests

def corrupt_cmp_cell(run):
    """flip one entry of a FastStr comparison matrix (a pair of different strings)"""
    if run[0].get("subject") != "faststr:cmp":
        return None
    for e in run:
        if e.get("op") == "cmp_matrix" and len(e["a"]) <= 64:
            m = e["m"]
            for i in range(len(m)):
                for j in range(len(m[i])):
                    if m[i][j] != 0:
                        m[i][j] = -m[i][j]
                        return [run[0], e]
    return None


def corrupt_skip_element(run):
    """a forward scan of a cursor from which one next() (and the element it delivered) is cut out:
    the following current() shows an element although the contract's cursor has not moved"""
    if run[0].get("subject") != "lexiter:sortedvec" or run[0].get("script") != "forward":
        return None
    s = run[1].get("S", []) if len(run) > 1 else []
    if len(s) < 3 or s[0] == s[1]:
        return None
    for k, e in enumerate(run):
        if e.get("op") == "li_next" and e.get("r") is True:
            return run[:k] + run[k + 1:]
    return None


def corrupt_hash(run):
    """one copy of one string hashes differently"""
    for e in run:
        if e.get("op") == "hash" and e["h"] and len(e["h"][0]) > 1:
            e["h"][0][1] = e["h"][0][1] + "1"
            return [run[0], e]
    return None


def corrupt_lines(run):
    """one delivered line dropped from a process_lines result"""
    if run[0].get("subject") != "lines:line_processor":
        return None
    for e in run:
        if e.get("op") == "lines":
            for x in e["res"]:
                if x["via"] == "process_lines" and not x["s"] and len(x["r"]) >= 2:
                    x["r"] = x["r"][1:]
                    x["n"] = x["n"] - 1
                    return [run[0], e]
    return None


def _first(run, op):
    for e in run:
        if e.get("op") == op:
            return e
    return None


def corrupt_find_cell(run):
    """haystack x needle family: one found position moved by one"""
    if run[0].get("fam") != "findfam":
        return None
    e = _first(run, "find_matrix")
    if e is None:
        return None
    for row in e["m"]:
        for j, v in enumerate(row):
            if v > 0:
                row[j] = v - 1
                return [run[0], e]
    return None


def corrupt_boundary_cmp(run):
    """chunk-boundary family: the order of two strings whose first difference is at byte >= 16 flipped"""
    if run[0].get("subject") != "faststr:cmp" or not str(run[0].get("variant", "")).startswith("bound"):
        return None
    e = _first(run, "cmp_matrix")
    if e is None:
        return None
    a = e["a"]
    for i in range(len(a)):
        for j in range(len(a)):
            if len(a[i]) > 17 and len(a[j]) > 17 and a[i][:16] == a[j][:16] and a[i] != a[j] and e["m"][i][j] != 0:
                e["m"][i][j] = -e["m"][i][j]
                return [run[0], e]
    return None


def corrupt_fs_conv(run):
    for e in run:
        if e.get("op") == "fs_conv" and e["s"] and e["valid"]:
            e["str"] = e["str"][:-1]
            return [run[0], e]
    return None


def corrupt_fs_split(run):
    for e in run:
        if e.get("op") != "fs_split":
            continue
        for c in e["cases"]:
            if len(c["r"]) >= 2:
                c["r"] = c["r"][:-1] + [c["r"][-1] + [120]]
                return [run[0], e]
    return None


def corrupt_multi_search(run):
    e = _first(run, "multi_search")
    if e is None:
        return None
    for c in e["cases"]:
        if len(c["pos"]) >= 2:
            del c["pos"][1]
            del c["ch"][1]
            return [run[0], e]
    return None


def corrupt_li_utils(run):
    e = _first(run, "li_utils")
    if e is None or not e["collect"]["ok"] or len(e["S"]) < 2:
        return None
    for c in e["counts"]:
        if c["ok"] and c["n"] >= 2:
            c["n"] -= 1
            return [run[0], e]
    return None


def corrupt_bsearch(run):
    e = _first(run, "bsearch")
    if e is None or not e.get("ok"):
        return None
    for c in e["cases"]:
        if not c["found"] and len(e["v"]) >= 3:
            c["i"] = c["i"] + 1 if c["i"] < len(e["v"]) else c["i"] - 1
            return [run[0], e]
    return None


def corrupt_charclass(run):
    e = _first(run, "charclass")
    if e is None:
        return None
    e["w"][ord("_")] = False
    return [run[0], e]


def corrupt_line_utils(run):
    for e in run:
        if e.get("op") == "line_utils" and e["an"]["ok"] and e["an"]["lines"] >= 2:
            e["an"]["lines"] -= 1
            return [run[0], e]
    return None


def corrupt_utf8(run):
    e = _first(run, "utf8")
    if e is None:
        return None
    for c in e["cases"]:
        if c["iter"] and len(c["fwd"]) >= 2 and c["fwd"][0] != c["fwd"][1]:
            c["bwd"] = c["bwd"][1:] + c["bwd"][:1]
            return [run[0], e]
    return None


def corrupt_sorted_ids(run):
    """get_by_id after sorting: two insertion-order entries swapped"""
    e = _first(run, "sorted_enum")
    if e is None or "ids" not in e or len(e["ids"]) < 2 or e["ids"][0] == e["ids"][1]:
        return None
    e["ids"][0], e["ids"][1] = e["ids"][1], e["ids"][0]
    return [run[0], e]


CANON = re.compile(rb"^[1-9][0-9]*(\.[0-9]*[1-9])?$")


def canonical_submatrix(run):
    """from a recorded realnum_strcmp matrix keep the rows/columns of canonical positive numbers
    (forms the implementation is recorded to order correctly): a real, strictly acceptable event"""
    if run[0].get("subject") != "numcmp:realnum_strcmp":
        return None
    for e in run:
        if e.get("op") == "numcmp" and e.get("sq"):
            idx = [i for i, s in enumerate(e["a"]) if CANON.match(bytes(s))]
            if len(idx) < 6:
                continue
            a = [e["a"][i] for i in idx]
            m = [[e["m"][i][j] for j in idx] for i in idx]
            return [run[0], {"op": "numcmp", "kind": "real", "a": a, "b": a, "m": m, "sq": True}]
    return None


def corrupt_numeric_cell(run):
    r = canonical_submatrix(run)
    if r is None:
        return None
    m = r[1]["m"]
    for i in range(len(m)):
        for j in range(len(m)):
            if m[i][j] in (-1, 1):
                m[i][j] = -m[i][j]
                return r
    return None


def first_file_with(files, subject):
    for p in files:
        for e in vlib.read_ndjson(p):
            if e.get("op") == "reset" and e.get("subject") == subject:
                return p
    raise vlib.ToolError("no trace file holds a run of " + subject)


def pick(files, mutate, what):
    """the first trace file holding a run the corruption applies to"""
    for p in files:
        for run_ in vlib.split_runs(vlib.read_ndjson(p)):
            if mutate(copy.deepcopy(run_)) is not None:
                return p
    raise vlib.ToolError("binding self-test: no run suitable for corruption (%s)" % what)


# ----------------------------------------------------------------------------- the check

def mc_strings(ctx):
    ctx.tlc_mc("MC_Strings", workers=4, note="definitions of Strings.tla over all byte strings over {0x00,'a',0xff} up to length 3: "
               "executable = definitional forms, Cmp total order by unsigned byte, find/slice/join/split laws")
    ctx.tlc_mc("MC_Strings", cfg="MC_Strings_order4.cfg", workers=4, note="Cmp total order / find on all strings up to length 4 (121 strings, all triples)")
    ctx.tlc_mc("MC_Strings", cfg="MC_Strings_text.cfg", workers=4, note="line / word / case definitions over {LF,CR,SP,'A','a','_'} up to length 4")
    ctx.tlc_mc("MC_Strings", cfg="MC_Strings_utf8.cfg", workers=4, note="UTF-8 decoding over {a, C3, A9, E2, 82, F0, 9F, 80} up to length 4")
    ctx.tlc_mc("MC_LexIter", workers=4, required_actions=("DoNext", "DoPrev", "DoSeek"),
               note="cursor contract: every sorted sequence (duplicates, empty strings) up to 4 elements: visit-exactly-once, bounds")


def mc_numeric(ctx):
    ctx.tlc_mc("MC_NumericCmp", workers=6, timeout=1500,
               note="NumericCmp over ALL strings over {-,0,1,9,.} up to length 4: classification, total preorder on all triples of the "
                    "333 valid reals, agreement with scaled integer arithmetic, equal values written differently")


def selftests(ctx, files):
    """binding self-tests: corrupted answers must be rejected"""
    for mutate, what in ((corrupt_cmp_cell, "one entry of a FastStr comparison matrix flipped"),
                         (corrupt_skip_element, "one element skipped in a forward cursor scan (a next() cut out)"),
                         (corrupt_hash, "hash of one differently aligned copy changed"),
                         (corrupt_lines, "one delivered line dropped"),
                         (corrupt_boundary_cmp, "order of two strings that first differ beyond byte 16 flipped"),
                         (corrupt_find_cell, "one found position of a haystack x needle matrix moved by one"),
                         (corrupt_fs_conv, "as_str() of a well-formed string shortened"),
                         (corrupt_fs_split, "one field of FastStr::split changed"),
                         (corrupt_multi_search, "one position dropped from a multi_search result"),
                         (corrupt_li_utils, "count_with_prefix answer lowered by one"),
                         (corrupt_bsearch, "insertion point of a binary search moved"),
                         (corrupt_sorted_ids, "get_by_id order changed after a sort"),
                         (corrupt_charclass, "is_word_char('_') answered false"),
                         (corrupt_line_utils, "analyze_text line count lowered"),
                         (corrupt_utf8, "backward code point sequence rotated")):
        ctx.selftest_corrupt(TRACE, pick(files, mutate, what), mutate, what)
    # numeric: the recorded sub-matrix of canonical numbers is accepted as it is and rejected with one entry flipped
    nf = first_file_with(files, "numcmp:realnum_strcmp")
    for run_ in vlib.split_runs(vlib.read_ndjson(nf)):
        sub = canonical_submatrix(copy.deepcopy(run_))
        if sub is not None:
            p = os.path.join(ctx.work, "selftest-numeric-plain.ndjson")
            vlib.write_ndjson(p, sub)
            r = vlib.validate_one(TRACE, p)
            if not r["accepted"]:
                raise vlib.ToolError("numeric self-test: the uncorrupted canonical sub-matrix was not accepted: %s" % r)
            break
    ctx.selftest_corrupt(TRACE, nf, corrupt_numeric_cell, "one entry of a realnum_strcmp matrix (canonical numbers) flipped")


def run(ctx):
    ctx.build(BIN)
    with cf.ThreadPoolExecutor(max_workers=2) as ex:
        # the bounded models run beside the conformance run
        futs = [ex.submit(mc_numeric, ctx), ex.submit(mc_strings, ctx)]
        s = ctx.harness(BIN, "drive", "b1")
        files = sorted(glob.glob(os.path.join(s["_out"], "*.ndjson")))
        if not files:
            raise vlib.ToolError("c20 produced no trace")
        ctx.validate(TRACE, files, what="string function answers vs TLA+ definitions", timeout=900)
        selftests(ctx, files)
        for f in futs:
            f.result()
    # the two model-checking threads both add to these sums: recompute them from the per-model entries
    ctx.cov["states"] = sum(m.get("distinct_states", 0) for m in ctx.cov["models"])
    ctx.cov["transitions"] = sum(m.get("states_generated", 0) for m in ctx.cov["models"])
    # --- evidence
    cov = ctx.cov
    cov["evaluations"] = s.get("evaluations", 0)
    cov["distinct_nontrivial"] = s.get("cases", 0)
    cov["events"] = s.get("events", 0)
    cov["runs"] = s.get("runs", 0)
    cov["subjects"] = s.get("subjects", {})
    cov["vacuous_subjects"] = [k for k, v in s.get("subjects", {}).items() if v.get("cases", 0) == 0]
    cov["exhaustive"] = False
    cov["rule"] = (
        "evaluations = answers of the real functions logged and checked by TLC (one per matrix cell / sliced view / cursor step / text x "
        "configuration ...).  Inputs: (a) exhaustive: every byte string over {0x00,'a',0xff} up to length 5 (364 strings, all pairs) for "
        "FastStr eq/cmp/hash/starts/ends/find/common_prefix; every text over {a,_,SP,-,0xe9} up to length 4 for words; every text over "
        "{a,SP,LF,CR} up to length 4 under the 8 LineProcessor configurations x 5 entry points; every string over {-,0,1,9,.} up to length 3 "
        "(all pairs) for the numeric comparators; every sorted list of up to 4 strings over {'', a, a\\u00e9, b} for the cursors; (b) the families "
        "of the quantifier: bytes >= 0x80, common prefixes of 7..130 bytes (around 8/16/32/64), duplicates, different lengths, leading zeros / "
        "signs / fractions / equal values written differently / 20-45 digit numbers, invalid numerals, every separator, every line-ending mix; "
        "(c) seeded random pools (VERIF_SEED).  distinct_nontrivial = distinct (subject, input) fingerprints counted by the harness where the "
        "input is non-trivial: a pair of DIFFERENT strings for binary operations, a non-empty string / text / list for unary ones, a list of "
        ">= 2 parts for join, a line containing the delimiter for split, a scan of a non-empty list for cursors.  'exhaustive' is false because "
        "(b),(c) are samples; the (a) spaces are enumerated completely (thorough: one length more).")
    for subj in ("faststr:cmp", "numcmp:realnum_strcmp", "lexiter:sortedvec", "lines:line_processor"):
        try:
            p = first_file_with(files, subj)
            evs = vlib.read_ndjson(p)
            small = [e for e in evs if len(json.dumps(e)) < 1500][:4]
            ctx.sample({"subject": subj, "trace_file": os.path.relpath(p, vlib.VERIF), "events": small})
        except vlib.ToolError:
            pass
    ctx.assumptions += [
        "the oracle is the TLA+ text of spec/Strings.tla, NumericCmp.tla, LexIter.tla evaluated by TLC; the harness only enumerates inputs and projects results",
        "line semantics follow the API: LF and CRLF terminate a line, a lone CR is line content (nothing in line_processor.rs documents it as a terminator)",
        "numeric strings without any digit ('.', '+.', '', '+') are outside the documented grammar: any answer accepted for them; everything else invalid must be None",
        "Unicode case helpers are checked on ASCII letters and caseless characters only (the byte-wise definition says nothing about non-ASCII case mappings)",
        "hash law only (a = b => hash equal) over 11 differently aligned copies; hash_fast and the std Hash impl (DefaultHasher) checked separately",
        "strings containing NUL are not fed to ZoSortedStrVec here (recorded by C10-KF6)",
        "bounded: inputs as listed in rule; SIMD tiers as selected by the host CPU (AVX2 here, avx512 feature off)",
    ]


def replay(ctx, path):
    """re-execute the subject of a replay file against the current tree and validate again"""
    rep = json.load(open(path))
    ctx.build(BIN)
    ctx.tier = rep.get("tier", ctx.tier)
    ctx.seed = rep.get("seed", ctx.seed)
    subj = rep.get("subject")
    s = ctx.harness(BIN, "drive", "rp", subject=subj)
    files = sorted(glob.glob(os.path.join(s["_out"], "*.ndjson")))
    ctx.validate(TRACE, files, what="replay of " + os.path.basename(path), timeout=900)
    ctx.cov["evaluations"] = s.get("evaluations", 0)
    ctx.cov["distinct_nontrivial"] = s.get("cases", 0)
    ctx.cov["rule"] = "replay of one subject (all its inputs of the recorded tier and seed)"
    ctx.sample({"replayed": path})
