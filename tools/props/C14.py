"""C14 — accelerated code paths compute the same function as the scalar definition.

spec/Kernels.tla holds the DEFINITIONS (copy, fill, unsigned compare, byte / substring / set search, UTF-8
as the table 3-7 state machine, bitwise CRC-32C on 16-bit limbs, RFC 4648 Base64, hex, popcount / select /
pdep / pext / bit reversal on 64-bit words as limbs, the portable string hash) and the contract predicates
of the batch events; MC_Kernels model-checks the coherence theorems on tiny domains (state machine = code
point definition of UTF-8, Dec(Enc(x)) = x, CRC(a.b) = update(update(init, a), b), pdep/pext/select laws,
contract accepts the defined answers and rejects corrupted ones).  Harness bin c14 runs every accelerated
entry point of zipora (memory::simd_ops, io::simd_memory::{copy,search}, string::{simd_search,bmi2_string_ops,unicode,hex},
io::simd_validation::{utf8,checksum}, io::simd_encoding::base64, system::base64, entropy::bit_ops,
hash_map::simd_string_ops, fsa::fast_search; since the coverage round also the ASCII text kernels of bmi2_string_ops (case
conversion, glob matching, character classes / filters, runs, dictionary scan, substrings, bulk twins, byte hash), the
string::unicode iterator / analysis / lead-byte table, hex nibble helpers, the bit-field and dispatcher functions of
entropy::bit_ops, prefetch, the CacheLayoutConfig and FastSearchConfig presets and the global accessors) at sampled alignments and at page ends in front of PROT_NONE guard
pages, in child processes; Trace_Kernels validates: the oracle is the TLA+ definition evaluated by TLC.
"""
import glob
import json
import os

import vlib

LEVEL = "exploration"
BIN = "c14"
TRACE = "Trace_Kernels"


# ---- binding self-tests: a corrupted answer must be rejected

def _first(run, op, pred=lambda e: True):
    """the first suitable event of the run; the run is cut behind it (the self-test needs no more)"""
    for i, e in enumerate(run):
        if e.get("op") == op and pred(e):
            del run[i + 1:]
            return e
    return None


def corrupt_compare_sign(run):
    """the sign of one compare answer flipped (the byte that differs is >= 0x80 on one side)"""
    e = _first(run, "compare_mut", lambda e: len(e["r"]) >= 17 and e["r"][16] != 0)
    if e is None:
        return None
    r = list(e["r"])
    r[16] = -r[16]
    e["r"] = r
    return run


def corrupt_compare_single(run):
    e = _first(run, "compare", lambda e: e["r"] != 0)
    if e is None:
        return None
    e["r"] = -e["r"]
    return run


def corrupt_crc(run):
    """one bit of a CRC-32C value changed"""
    e = _first(run, "crc_hash", lambda e: len(e["data"]) >= 9)
    if e is None:
        return None
    e["r"] = [e["r"][0], e["r"][1] ^ 1]
    return run


def corrupt_crc_inc(run):
    e = _first(run, "crc_inc", lambda e: sum(len(p) for p in e["parts"]) >= 9)
    if e is None:
        return None
    e["r"] = [e["r"][0] ^ 0x8000, e["r"][1]]
    return run


def corrupt_crc_fold(run):
    """a stream passing through register 0 at a cut: one bit of the register behind the zero register changed"""
    e = _first(run, "crc_fold", lambda e: len(e["regs"]) >= 2 and e["regs"][0] == [0, 0])
    if e is None:
        return None
    regs = [list(x) for x in e["regs"]]
    regs[1][1] ^= 1
    e["regs"] = regs
    return run


def corrupt_find_tail(run):
    """a byte found in the tail reported one position early"""
    e = _first(run, "findbyte_mut", lambda e: len(e["h"]) in (33, 65, 66, 97))
    if e is None:
        return None
    r = list(e["r"])
    r[len(e["h"]) - 1] -= 1
    e["r"] = r
    return run


def corrupt_findsub(run):
    e = _first(run, "findsub_mut", lambda e: len(e["r"]) >= 4)
    if e is None:
        return None
    r = list(e["r"])
    r[-2] = -1            # the occurrence at the last possible position reported absent
    e["r"] = r
    return run


def corrupt_utf8(run):
    """a surrogate (ED A0/BF xx) reported valid"""
    def pred(e):
        return e["k"] == 3 and len(e["frame"]) == 70
    e = _first(run, "utf8_batch", pred)
    if e is None:
        return None
    a = e["alpha"]
    idx = a.index(0xED) * 144 + a.index(0xBF) * 12 + a.index(0x80)
    r = list(e["r"])
    if r[idx]:
        return None
    r[idx] = True
    e["r"] = r
    return run


def corrupt_copy(run):
    e = _first(run, "copy", lambda e: e["ok"] and len(e["out"]) >= 65)
    if e is None:
        return None
    o = list(e["out"])
    o[64] = (o[64] + 1) % 256
    e["out"] = o
    return run


def corrupt_copy_overrun(run):
    """one byte written behind the destination"""
    e = _first(run, "copy", lambda e: e["ok"] and e["post"] == [e["can"]])
    if e is None:
        return None
    e["post"] = [e["src"][-1] if e["src"] else 0, e["can"]]
    return run


def corrupt_b64_padding(run):
    """a text with its padding removed reported as decoded"""
    e = _first(run, "b64dec", lambda e: e["pad"] and e["ok"] and e["s"][-1:] == [61])
    if e is None:
        return None
    e["s"] = e["s"][:-1]
    return run


def corrupt_select(run):
    """select-in-word off by one"""
    e = _first(run, "select_all", lambda e: len(e["r"]) >= 3)
    if e is None:
        return None
    r = list(e["r"])
    r[1] += 1
    e["r"] = r
    return run


def _bump_seq(field="r", idx=-1):
    """change one element of a sequence-valued result (numbers +1, booleans flipped, nested sequences in their last element)"""
    def go(v):
        if isinstance(v, bool):
            return not v
        if isinstance(v, int):
            return v + 1
        if isinstance(v, list) and v:
            w = list(v)
            w[-1] = go(w[-1])
            return w
        return None
    return go


def corrupt_kind(op, field="r", pred=lambda e: True):
    """corruptor for one event kind: the first event of that kind whose result can be changed"""
    def fn(run):
        bump = _bump_seq()
        def ok(e):
            v = e.get(field)
            if not pred(e):
                return False
            if isinstance(v, list):
                return len(v) > 0 and bump(v) is not None
            return isinstance(v, (bool, int))
        e = _first(run, op, ok)
        if e is None:
            return None
        e[field] = bump(e[field])
        return run
    fn.__name__ = "corrupt_" + op + "_" + field
    return fn


def corrupt_refusal(op):
    """an accepted call turned into a refusal (ok -> false)"""
    def fn(run):
        e = _first(run, op, lambda e: e.get("ok") is True)
        if e is None:
            return None
        e["ok"] = False
        return run
    fn.__name__ = "corrupt_" + op + "_refused"
    return fn


def _files(s, group=None):
    return sorted(glob.glob(os.path.join(s["_out"], (group or "*") + "-*.ndjson")))


def _file_with(files, subject):
    for p in files:
        with open(p) as f:
            for line in f:
                if line.startswith('{"domain"') or '"op":"reset"' in line:
                    try:
                        if json.loads(line).get("subject") == subject:
                            return p
                    except Exception:
                        pass
    return None


def _cut_subject(ctx, path, subject, name):
    """the runs of one subject of a trace file, as a file of its own (for the self-tests)"""
    evs = vlib.read_ndjson(path)
    runs = [r for r in vlib.split_runs(evs) if r[0].get("subject") == subject]
    p = os.path.join(ctx.work, name)
    vlib.write_ndjson(p, [e for r in runs for e in r])
    return p


def _negative_selftests(ctx, s, neg_tests):
    evs, whats = [], []
    for group, subject, fn, what in neg_tests:
        p = _file_with(_files(s, group), subject)
        if p is None:
            raise vlib.ToolError("self-test: no trace of subject %s" % subject)
        runs = [r for r in vlib.split_runs(vlib.read_ndjson(p)) if r[0].get("subject") == subject]
        done = False
        for run in runs:
            m = fn([dict(e) for e in run])
            if m is not None:
                evs.append(m[0])        # the reset event (not judged)
                evs.append(m[-1])       # the corrupted event (the run was cut behind it)
                whats.append(what)
                done = True
                break
        if not done:
            raise vlib.ToolError("self-test: no event suitable for corruption (%s)" % what)
    path = os.path.join(ctx.work, "selftest-negative.ndjson")
    vlib.write_ndjson(path, evs)
    r, out = vlib.tlc("Trace_KernelsNeg", env={"TRACE": path, "KF": "0"}, workers=1, timeout=600, jvm="-Xmx2g")
    ok = vlib.printed(out, "NEG_OK")
    bad = vlib.printed(out, "NEG_ACCEPTED")
    accepted = set()
    if bad:
        accepted = {int(x) for x in __import__("re").findall(r"\d+", bad[0])}
    elif not ok:
        raise vlib.ToolError("negative self-test gave no verdict:\n" + out[-1500:])
    for k, what in enumerate(whats):
        line = 2 * k + 2
        rejected = line not in accepted
        ctx.cov["selftests"].append({"what": what, "rejected_as_expected": rejected, "at": line, "via": "Trace_KernelsNeg"})
        if not rejected:
            raise vlib.ToolError("binding self-test failed: corrupted event (%s) was accepted" % what)
    vlib.log("negative self-tests ok: %d corrupted events, all rejected" % len(whats))


def run(ctx):
    ctx.build(BIN)
    # --- the definitions: coherence theorems on tiny domains
    ctx.tlc_mc("MC_Kernels", workers=4, timeout=900,
               note="every byte string of length <= 5 over {00,7F,80,FF}: compare antisymmetric / unsigned / prefix rule, search laws, "
                    "CRC-32C(a.b) = update(update(init,a),b) for every 2- and 3-way split, check value E3069283, histogram; the batch "
                    "contract accepts the defined answers and rejects sign flips, off-by-one positions, changed CRC bits, overruns")
    ctx.tlc_mc("MC_Kernels", cfg="MC_Kernels_utf8.cfg", workers=4, timeout=900,
               note="every string of length <= 4 over the 12 class representatives + the second-byte boundaries 8F/90/9F/A0: the "
                    "table 3-7 state machine = the code point definition (shortest form, no surrogates, <= U+10FFFF)")
    ctx.tlc_mc("MC_Kernels", cfg="MC_Kernels_codec.cfg", workers=4, timeout=900,
               note="Dec(Enc(x)) = x, length formulas, padding rules for Base64 (4 configurations) and hex, |x| <= 5")
    ctx.tlc_mc("MC_Kernels", cfg="MC_Kernels_text.cfg", workers=4, timeout=900,
               note="every text of length <= 5 over 8 characters: a valid Base64 / hex text is the encoding of its decoding")
    ctx.tlc_mc("MC_Kernels", cfg="MC_Kernels_ascii.cfg", workers=4, timeout=900,
               note="every text of length <= 5 over {* ? A Z a space 0}: case maps idempotent, runs re-assemble the text, keep/remove "
                    "filters partition it, glob laws (text matches itself, a star anywhere, prefix/suffix stars; a longer text does not "
                    "match), dictionary scan agrees with FindSub, byte hash composes over a split")
    ctx.tlc_mc("MC_Kernels", cfg="MC_Kernels_bits.cfg", workers=4, timeout=1500,
               note="81 words (all limb combinations of {0000, 8001, 5A5A}): pdep/pext inverse laws, select = k-th one / refuses k >= popcount, reversal involutive, bit fields = shifted BZHI, interleave = two deposits, lz(x) = tz(reverse x)")
    if ctx.thorough:
        ctx.tlc_mc("MC_Kernels", cfg="MC_Kernels_hash.cfg", workers=4, timeout=900, note="prefix word = first absorbed word")
    # --- the real kernels
    s = ctx.harness(BIN, "drive", "b1", timeout=3000, subject=os.environ.get("C14_SUBJECTS") or None,
                    extra=({"group": os.environ["C14_GROUP"]} if os.environ.get("C14_GROUP") else None))
    files = _files(s)
    if not files:
        raise vlib.ToolError("c14 produced no traces")
    # short files: the C1 compiler and two GC threads cost a third less CPU than the defaults
    jvm = "-Xmx2g" if ctx.thorough else "-Xmx2g -XX:TieredStopAtLevel=1 -XX:ParallelGCThreads=2"
    ctx.validate(TRACE, files, what="kernel answers", max_reject_per_file=40, timeout=1500 if ctx.thorough else 600, jvm=jvm)
    # --- binding self-tests on subjects the pinned tree gets right
    tests = [
        ("compare", "memops:compare", corrupt_compare_sign, "sign of one compare answer flipped (byte 16 of a mutation batch)"),
        ("compare", "memops:compare", corrupt_compare_single, "sign of a single compare answer flipped"),
        ("crc", "crc:crc32c", corrupt_crc, "one bit of a CRC-32C value changed"),
        ("crc", "crc:crc32c", corrupt_crc_inc, "one bit of an incrementally computed CRC-32C changed"),
        ("crc", "crc:crc32c", corrupt_crc_fold, "one bit of the register that follows a zero register at a cut changed"),
        ("findbyte", "memops:find_byte", corrupt_find_tail, "byte in the tail reported one position early"),
        ("findsub", "iosearch:scalar_strstr", corrupt_findsub, "occurrence at the last position reported absent"),
        ("utf8", "ioutf8:validate_utf8", corrupt_utf8, "surrogate ED BF 80 reported valid"),
        ("copy", "memops:copy_nonoverlapping", corrupt_copy, "one copied byte changed"),
        ("copy", "memops:copy_nonoverlapping", corrupt_copy_overrun, "one byte written behind the destination"),
        ("codec", "io64:encode_decode_base64", corrupt_b64_padding, "Base64 text without its padding reported as decoded"),
        ("bits", "bitops@hw", corrupt_select, "select-in-word answer off by one"),
    ]
    # one corruption per event kind added in the coverage round: judged together in ONE TLC run of
    # Trace_KernelsNeg (the contract is stateless: every corrupted event must be rejected by EventOK)
    neg_tests = [
        ("bmi2text", "bmi2text", corrupt_kind("lower"), "one byte of a lower-cased text changed"),
        ("bmi2text", "bmi2text", corrupt_kind("upper", pred=lambda e: len(e["s"]) >= 8), "one byte of an upper-cased text changed"),
        ("bmi2text", "bmi2text", corrupt_kind("runs"), "length of the last run changed"),
        ("bmi2text", "bmi2text", corrupt_kind("charclass"), "one class membership flipped"),
        ("bmi2text", "bmi2text", corrupt_kind("filter"), "one byte of a filtered text changed"),
        ("bmi2text", "bmi2text", corrupt_kind("dict"), "dictionary index of the last match changed"),
        ("bmi2text", "bmi2text", corrupt_kind("substrings"), "one byte of an extracted substring changed"),
        ("bmi2text", "bmi2text", corrupt_refusal("substrings"), "substring extraction inside the text reported as refused"),
        ("bmi2text", "bmi2text", corrupt_kind("wildcard", pred=lambda e: len(e["t"]) < 8), "glob verdict flipped"),
        ("bmi2text", "bmi2text", corrupt_kind("bytehash", pred=lambda e: 0 < len(e["s"]) < 8), "one limb of a string hash changed"),
        ("bmi2text", "bmi2text", corrupt_kind("valid_bulk"), "one bulk validity verdict flipped"),
        ("bmi2text", "bmi2text", corrupt_kind("equal_bulk"), "one bulk equality verdict flipped"),
        ("bmi2text", "bmi2text", corrupt_kind("bytehash_bulk", pred=lambda e: e["ss"] and all(len(x) < 8 for x in e["ss"])), "one limb of a bulk hash changed"),
        ("unicode", "unicode:utf8_byte_count", corrupt_kind("lead_len"), "sequence length of lead byte FF changed"),
        ("unicode", "unicode:Utf8ToUtf32Iterator", corrupt_kind("utf8_iter", "fwd"), "one code point of the forward iteration changed"),
        ("unicode", "unicode:Utf8ToUtf32Iterator", corrupt_kind("utf8_iter", "bpos"), "one byte position of the backward iteration changed"),
        ("unicode", "unicode:analyze", corrupt_kind("utf8_analyze", "chars"), "character count changed by +1"),
        ("unicode", "unicode:analyze", corrupt_kind("utf8_analyze", "control"), "control character count changed by +1"),
        ("unicode", "unicode:extract_codepoints", corrupt_kind("printable"), "printable verdict flipped"),
        ("codec", "hex:nibbles", corrupt_kind("hexnibble"), "value of character FF changed"),
        ("codec", "hex:nibbles", corrupt_kind("hexdigit"), "digit of nibble 15 changed"),
        ("codec", "hex:nibbles", corrupt_kind("hexbyte"), "one parsed hex byte changed"),
        ("bits", "bitfields@hw", corrupt_kind("bitfield", pred=lambda e: e.get("ok") is True), "one limb of an extracted bit field changed"),
        ("bits", "bitfields@hw", corrupt_kind("encfield", pred=lambda e: e.get("ok") is True), "one limb of an encoded field changed"),
        ("bits", "bitfields@hw", corrupt_kind("interleave"), "one limb of an interleaved word changed"),
        ("bits", "bitfields@hw", corrupt_kind("pext_list"), "one limb of a parallel extract changed"),
        ("bits", "bitdispatch@hw", corrupt_kind("wordmap"), "one per-word answer changed"),
        ("fastsearch", "fastsearch@linear", corrupt_kind("positions"), "last reported position moved"),
        ("fastsearch", "fastsearch@linear", corrupt_kind("histogram"), "count of byte FF changed"),
        ("fastsearch", "fastsearch@linear", corrupt_kind("count_byte"), "count changed by +1"),
        ("fastsearch", "fastsearch@linear", corrupt_kind("find_last"), "last position moved"),
        ("fastsearch", "fastsearch:utils_popcount", corrupt_kind("popcount_bytes"), "bit count changed by +1"),
        ("utf8", "std:chars", corrupt_kind("utf8_decode"), "last code point changed"),
        ("utf8", "std:encode_utf16", corrupt_kind("utf16"), "last UTF-16 unit changed"),
        ("hash", "hashmap:extract_prefix_simd", corrupt_kind("prefix8"), "one limb of the prefix word changed"),
    ]
    only = os.environ.get("C14_GROUP")
    if not only and not os.environ.get("C14_SUBJECTS"):
        _negative_selftests(ctx, s, neg_tests)
    for group, subject, fn, what in tests:
        if only and only != group:
            continue
        if os.environ.get("C14_SUBJECTS"):
            continue
        p = _file_with(_files(s, group), subject)
        if p is None:
            raise vlib.ToolError("self-test: no trace of subject %s" % subject)
        ctx.selftest_corrupt(TRACE, _cut_subject(ctx, p, subject, "st-%s.ndjson" % fn.__name__), fn, what)
    # --- evidence
    cov = ctx.cov
    cov["evaluations"] = s.get("calls", 0)            # executions of the real kernels (every case at every placement)
    cov["answers_judged"] = s.get("answers", 0)       # individual answers TLC compared with the definition
    cov["batch_events"] = s.get("events", 0)
    cov["runs"] = s.get("runs", 0)
    cov["refused"] = s.get("refused", 0)
    cov["crashes"] = s.get("signals", 0)
    cov["child_reruns_after_crash"] = s.get("reruns", 0)
    cov["groups"] = s.get("groups", {})
    cov["subjects"] = s.get("subjects", {})
    cov["host_tier"] = s.get("tier", "")
    cov["distinct_nontrivial"] = s.get("cases", 0)
    cov["vacuous_subjects"] = [k for k, v in s.get("subjects", {}).items() if v.get("cases", 0) == 0]
    cov["exhaustive"] = False
    cov["rule"] = (
        "a case = one (subject, input) pair whose answer was logged and judged by TLC; subject = accelerated entry point x "
        "configuration (forced tier where the API allows: SearchConfig sse42 / scalar, BitOpsConfig software, prefetch off); inputs "
        "are distinct by construction: lengths %s x content class {zeros, ramp, all >= 0x80, random} x ONE MUTATION AT EVERY "
        "POSITION incl. the last byte (compare / equal / find_byte), the needle or a set member planted at every position incl. the "
        "last and absent (substring / set search, needle lengths %s / sets of 1..33 bytes), every byte string of length <= 4 over "
        "the 12 UTF-8 class representatives bare and of length <= 3 written at offsets %s of a 70-byte ASCII frame, CRC-32C of every "
        "length 0..130 plus incremental splits, Base64 / hex of lengths 0..36, 47..50, 63..66, 95..97, 127..130 plus damaged texts, "
        "bit words (single bits, runs, random) x masks, UTF-8 decoding / UTF-16 transcoding of random well-formed and damaged text, byte "
        "search engine strategies (linear / SIMD / SSE4.2 / rank-select / adaptive, presets) incl. a 256-value histogram of one buffer, ASCII "
        "text over the bytes next to every class boundary (@A Z[ `a z{ /0 9: VT DEL) and text mixed with 2-byte characters for case "
        "conversion / classes / filters / runs / dictionary scan / substrings, glob patterns derived from the text (prefix, suffix, "
        "holes, false starts behind a star), bit fields at starts 0..63 x widths 0..33, mask lists of 0, 1 and several masks, buffers "
        "around the code's thresholds (8, 16, 32, 35/36, 64, 128, 256, 1000, 1024, 4096 bytes; 4 words; 4 strings).  Non-trivial = non-empty input.  Every case is executed at %s placements "
        "(source / destination alignment sampled on {0,1,7,8,15,16,31,32,33,63}, and ending exactly at / starting exactly after a "
        "PROT_NONE guard page); placements with the same answer share one event (np, pl); evaluations counts the calls of the real code, answers_judged the answers TLC recomputed."
        % (("0..130" if ctx.thorough else "{0-3,7-9,15-17,31-33,47-49,63-66,95-97,127-130}"),
           ("1..65" if ctx.thorough else "1..33"),
           ("0,13-15,29-32,45,61-64,66,67" if ctx.thorough else "0,30,62,67-69"),
           ("135 (all sampled pairs + guard combinations)" if ctx.thorough else "5-6")))
    for g in ("compare", "findsub", "utf8", "crc"):
        fs = _files(s, g)
        if fs:
            evs = vlib.read_ndjson(fs[0])
            small = [e for e in evs if e.get("op") not in ("reset",) and 160 < len(json.dumps(e)) < 900][:2]
            ctx.sample({"trace_file": os.path.relpath(fs[0], vlib.VERIF), "reset": evs[0], "events": small}, limit=8)
    ctx.assumptions += [
        "the oracle is the TLA+ definition (Kernels.tla) evaluated by TLC over the logged inputs; the harness generates inputs, places "
        "them (alignment / guard pages), calls the real code and projects answers (Ordering -> -1/0/1, Option -> []/[v], margins -> "
        "the distinct byte values found there); it computes no kernel itself",
        "answers obtained at several placements are compared for EQUALITY by the harness and logged once with the list of placements; "
        "unequal answers are logged separately and each is judged by TLC",
        "std::str::from_utf8 and chars().count() are logged as subjects std:* and judged by the same definition (they validate the "
        "definition, they are not the oracle)",
        "CPU tiers: whatever the host selects (AVX-512 here) plus the configurations the public API lets a caller force; the 119 direct "
        "is_x86_feature_detected! sites cannot be masked (DESIGN.md section 9)",
        "an over-read that stays inside mapped memory is only observable at the guard-page placements",
    ]


def replay(ctx, path):
    """re-execute the subject of a replay file against the current tree and validate again"""
    rep = json.load(open(path))
    ctx.build(BIN)
    ctx.tier = rep.get("tier", ctx.tier)
    ctx.seed = rep.get("reset", {}).get("seed", rep.get("seed", ctx.seed))
    s = ctx.harness(BIN, "drive", "rp", subject=rep.get("subject"), timeout=3000)
    files = _files(s)
    ctx.validate(TRACE, files, what="replay of " + os.path.basename(path), max_reject_per_file=40, timeout=600)
    ctx.cov["evaluations"] = s.get("answers", 0)
    ctx.cov["distinct_nontrivial"] = s.get("cases", 0)
    ctx.cov["rule"] = "replay of one subject (all its cases of the tier and seed of the replay file)"
    ctx.sample({"replayed": path})
