"""C01 — entropy codecs are lossless for every input and variant.

spec/CodecSession.tla is the contract (train / encode / decode session; a matching decode must succeed
and return the stored (len, digest)); spec/FreqNorm.tla and spec/PrefixCode.tla are the two mechanisms
(frequency normalisation, Huffman code table) with their invariants.  MC_CodecSession checks the laws of
the protocol; MC_FreqNorm / MC_PrefixCode model-check a normaliser / code builder written like the code
over all frequency vectors of 2-4 symbols with counts <= 6 (the FSE normaliser as coded is expected to
starve a present symbol).  harness bin c01 drives 51 subjects (codec x variant x stream count x preset)
through the input families, logs every session and the REAL tables (Rans64Encoder::get_symbol,
FseTable::dec_symbols, HuffmanTree::get_code); Trace_Codec validates every event.
"""
import glob
import json
import os

import vlib

LEVEL = "exploration"
BIN = "c01"
TRACE = "Trace_Codec"


def corrupt_decode_digest(run):
    """the digest of a decoded payload changed (same length)"""
    for e in run:
        if e.get("op") == "decode" and e.get("ok") and e["y"]["len"] >= 1:
            e["y"] = {"len": e["y"]["len"], "h": [e["y"]["h"][0], (e["y"]["h"][1] + 1) % (1 << 30)]}
            return run
    return None


def corrupt_decode_len(run):
    """a decode that returned one byte less"""
    for e in run:
        if e.get("op") == "decode" and e.get("ok") and e["y"]["len"] >= 2:
            e["y"] = {"len": e["y"]["len"] - 1, "h": e["y"]["h"]}
            return run
    return None


def corrupt_decode_error(run):
    """a successful decode turned into an error"""
    for e in run:
        if e.get("op") == "decode" and e.get("ok") and e["y"]["len"] >= 1:
            e["ok"] = False
            return run
    return None


def corrupt_table_zero_slot(run):
    """a normalised table in which a present symbol has 0 slots (given to its neighbour, the sum stays)"""
    for e in run:
        if e.get("op") == "table" and len(e.get("sym", [])) >= 2:
            nz = [i for i in range(len(e["sym"])) if e["freq"][i] > 0 and e["norm"][i] > 0]
            if len(nz) < 2:
                continue
            i, j = nz[-1], nz[0]
            e["norm"] = list(e["norm"])
            e["norm"][j] += e["norm"][i]
            e["norm"][i] = 0
            # keep the start column consistent with the corrupted slots: only the zero slot is wrong
            st, acc = [], 0
            for n in e["norm"]:
                st.append(acc)
                acc += n
            e["start"] = st
            return run
    return None


def corrupt_table_sum(run):
    """a normalised table whose slots exceed the table size (ranges would leave the table)"""
    for e in run:
        if e.get("op") == "table" and len(e.get("sym", [])) >= 1 and e["total"] > 1:
            e["total"] = e["total"] - 1
            return run
    return None


def corrupt_table_start(run):
    """a normalised table in which two slot ranges overlap (start of the second symbol moved down by one)"""
    for e in run:
        if e.get("op") == "table" and len(e.get("sym", [])) >= 2 and e["norm"][0] > 0 and e["norm"][1] > 0:
            e["start"] = list(e["start"])
            e["start"][1] -= 1
            return run
    return None


def corrupt_codes_prefix(run):
    """a code table in which one code is a prefix of another"""
    for e in run:
        if e.get("op") == "codes" and len(e.get("codes", [])) >= 2:
            codes = [list(c) for c in e["codes"]]
            longest = max(range(len(codes)), key=lambda k: len(codes[k]))
            other = 0 if longest != 0 else 1
            if len(codes[longest]) < 2:
                continue
            codes[other] = codes[longest][:-1]
            e["codes"] = codes
            e["maxlen"] = max(len(c) for c in codes)
            return run
    return None


def corrupt_codes_missing(run):
    """a code table that lacks a symbol which must be codable"""
    for e in run:
        if e.get("op") == "codes" and len(e.get("sym", [])) >= 2 and e["sym"][-1] in e.get("must", []):
            e["sym"] = e["sym"][:-1]
            e["codes"] = e["codes"][:-1]
            e["maxlen"] = max(len(c) for c in e["codes"])
            return run
    return None


def corrupt_norm_zero(run):
    """result of the public normaliser: a present symbol set to 0 slots"""
    for e in run:
        if e.get("op") == "norm" and len(e.get("freq", [])) >= 2:
            nz = [i for i in range(len(e["freq"])) if e["freq"][i] > 0 and e["norm"][i] > 0]
            if len(nz) < 2:
                continue
            e["norm"] = list(e["norm"])
            e["norm"][nz[0]] += e["norm"][nz[-1]]
            e["norm"][nz[-1]] = 0
            return run
    return None


def corrupt_symstep(run):
    """symbol-step law: the state read back after decode_symbol differs from the one encoded from"""
    for e in run:
        if e.get("op") == "symsteps":
            items = [dict(i) for i in e["items"]]
            for i in items:
                if i["ok"] and i["ds"] == i["s"] and i["dx"] == i["x"]:
                    i["dx"] = i["dx"] + "1"
                    e["items"] = items
                    return run
    return None


def corrupt_symstep_symbol(run):
    """symbol-step law: decode_symbol returned another symbol"""
    for e in run:
        if e.get("op") == "symsteps":
            items = [dict(i) for i in e["items"]]
            for i in items:
                if i["ok"] and i["ds"] == i["s"] and i["dx"] == i["x"]:
                    i["ds"] = (i["ds"] + 1) % 256
                    e["items"] = items
                    return run
    return None


def corrupt_batch_item(run):
    """batch of round trips: the digest of one decoded payload changed"""
    for e in run:
        if e.get("op") == "roundtrips":
            items = [dict(i) for i in e["items"]]
            for i in items:
                if i["eok"] and i["dok"] and i["n"] >= 1:
                    i["y"] = {"len": i["y"]["len"], "h": [i["y"]["h"][0], (i["y"]["h"][1] + 1) % (1 << 30)]}
                    e["items"] = items
                    return run
    return None


def corrupt_batch_blob_id(run):
    """batch of round trips: two successful encodes report the same blob id"""
    for e in run:
        if e.get("op") == "roundtrips":
            items = [dict(i) for i in e["items"]]
            ok = [i for i in items if i["eok"]]
            if len(ok) >= 2:
                ok[1]["b"] = ok[0]["b"]
                e["items"] = items
                return run
    return None


def _first(files, pattern):
    for p in files:
        if pattern in os.path.basename(p):
            return p
    return None


def _models(ctx):
    ctx.tlc_mc("MC_CodecSession", cfg="MC_CodecSession3.cfg" if ctx.thorough else "MC_CodecSession.cfg", workers=4,
               required_actions=("DoDecode", "DoEncode", "Train"),
               note="laws of the session contract: exactly one accepted answer for a matching decode, silent otherwise")
    ctx.tlc_mc("MC_FreqNorm", cfg="MC_FreqNorm.cfg", workers=4, required_actions=("P1", "P2", "P3"),
               note="rans.rs normaliser as a state machine, TOT=8, all count vectors of 2-4 symbols <= 6: present => slot, sum = TOT")
    ctx.tlc_mc("MC_FreqNorm", cfg="MC_FreqNorm16.cfg", workers=4, note="same, TOT=16")
    ctx.tlc_mc("MC_FreqNorm", cfg="MC_FreqNorm_clamp.cfg", workers=4, expect="DonePresentHasSlot",
               note="fse.rs normalize_frequencies_simple AS CODED (max(1, share) clamped to what remains): a present symbol ends with 0 slots - "
                    "the model of finding C01-KF1 must stay violated")
    ctx.tlc_mc("MC_PrefixCode", cfg="MC_PrefixCode.cfg", workers=4, required_actions=("Merge", "Finish"),
               note="code builder, ANY merge order: prefix-free, Kraft equality, every present symbol coded")
    ctx.tlc_mc("MC_PrefixCode", cfg="MC_PrefixCode_min.cfg", workers=4, note="textbook rule (two lightest), counts <= 6")
    ctx.tlc_mc("MC_PrefixCode", cfg="MC_PrefixCode_max.cfg", workers=4, note="huffman.rs as coded (two heaviest), counts <= 6")


def _models_thorough(ctx):
    ctx.tlc_mc("MC_FreqNorm", cfg="MC_FreqNorm5.cfg", workers=4, note="rans.rs normaliser, 2-5 symbols, counts <= 6, TOT=16")
    ctx.tlc_mc("MC_PrefixCode", cfg="MC_PrefixCode5_min.cfg", workers=4, note="textbook rule, 2-5 symbols, counts <= 4")
    ctx.tlc_mc("MC_PrefixCode", cfg="MC_PrefixCode5_max.cfg", workers=4, note="huffman.rs as coded, 2-5 symbols, counts <= 4")


def run(ctx):
    ctx.build(BIN)
    _models(ctx)
    if ctx.thorough:
        _models_thorough(ctx)
    s1 = ctx.harness(BIN, "drive", "b1", timeout=3300 if ctx.thorough else 900, extra={"threads": min(ctx.jobs, 12)})
    files = sorted(glob.glob(os.path.join(s1["_out"], "*.ndjson")), key=lambda p: -os.path.getsize(p))
    if not files:
        raise vlib.ToolError("c01 produced no traces")
    ctx.validate(TRACE, files, what="codec session: train, real tables, encode, decode", max_reject_per_file=3,
                 timeout=1500 if ctx.thorough else 600, jvm="-Xmx3g -XX:ParallelGCThreads=2")
    # --- binding self-tests on subjects without findings: corrupted results / tables must be rejected
    by_name = sorted(files)
    huff = _first(by_name, "c01-huff0-")
    rans = _first(by_name, "c01-rans_x4-")
    ctxo1 = _first(by_name, "c01-ctx_o1-")
    if not (huff and rans):
        raise vlib.ToolError("self-test subjects missing")
    ctx.selftest_corrupt(TRACE, huff, corrupt_decode_digest, "digest of a decoded payload changed")
    ctx.selftest_corrupt(TRACE, rans, corrupt_decode_len, "decoded payload one byte shorter")
    ctx.selftest_corrupt(TRACE, rans, corrupt_decode_error, "successful matching decode turned into an error")
    ctx.selftest_corrupt(TRACE, rans, corrupt_table_zero_slot, "normalised table: a present symbol set to 0 slots")
    ctx.selftest_corrupt(TRACE, rans, corrupt_table_sum, "normalised table: more slots than the table holds")
    ctx.selftest_corrupt(TRACE, rans, corrupt_table_start, "normalised table: two slot ranges overlap")
    ctx.selftest_corrupt(TRACE, huff, corrupt_codes_prefix, "code table: one code made a prefix of another")
    ctx.selftest_corrupt(TRACE, ctxo1 or huff, corrupt_codes_missing, "code table: a symbol that must be codable removed")
    fsefn = _first(by_name, "c01-fse_fn_fast-")
    ranssym = _first(by_name, "c01-rans_symenc-")
    bitf = _first(by_name, "c01-bitfield-")
    if not (fsefn and ranssym and bitf):
        raise vlib.ToolError("self-test subjects of the coverage round missing")
    ctx.selftest_corrupt(TRACE, fsefn, corrupt_norm_zero, "public normaliser result: a present symbol set to 0 slots")
    ctx.selftest_corrupt(TRACE, ranssym, corrupt_symstep, "symbol-step law: state not restored")
    ctx.selftest_corrupt(TRACE, ranssym, corrupt_symstep_symbol, "symbol-step law: other symbol decoded")
    # the batch events may sit in a later file of the subject (thorough tier: files rotate): pick a file that has one
    def _with_op(prefix, op, fallback):
        for f in by_name:
            if os.path.basename(f).startswith(prefix):
                try:
                    if ('"op": "%s"' % op) in open(f).read() or ('"op":"%s"' % op) in open(f).read():
                        return f
                except OSError:
                    pass
        if prefix != "c01-":
            return _with_op("c01-", op, fallback)     # any subject (no subject of C01 carries a finding any more)
        return fallback
    ctx.selftest_corrupt(TRACE, _with_op("c01-huff0-", "roundtrips", huff), corrupt_batch_item, "batch of round trips: one decoded digest changed")
    ctx.selftest_corrupt(TRACE, _with_op("c01-bitfield-", "roundtrips", bitf), corrupt_batch_blob_id, "batch of round trips: blob id reused")
    # --- evidence
    cov = ctx.cov
    subs = s1.get("subjects", {})
    cov["subjects"] = subs
    tot = lambda k: sum(int(d.get(k, 0)) for d in subs.values())
    cov["evaluations"] = tot("encodes_ok") + tot("encodes_refused")
    cov["distinct_nontrivial"] = tot("roundtrips_nontrivial")
    cov["sessions"] = tot("sessions")
    cov["decodes_judged"] = tot("decodes")
    cov["encodes_refused"] = tot("encodes_refused")
    cov["trains_refused"] = tot("trains_refused")
    cov["panics"] = tot("panics")
    cov["real_frequency_tables_judged"] = tot("tables")
    cov["real_code_tables_judged"] = tot("code_tables")
    cov["payload_bytes"] = tot("payload_bytes")
    cov["skipped_payloads"] = tot("skipped_payloads")
    cov["skipped_sessions"] = tot("skipped_sessions")
    cov["crashes"] = s1.get("crashes", [])
    # mechanism observation (never a verdict): real tables that leave slots unused - FreqNorm!SumIsTotal is what the
    # design promises (MC_FreqNorm: DoneSumIsTotal), losslessness only needs FreqNorm!SlotsFit
    under = {}
    for p in files:
        for e in vlib.read_ndjson(p):
            if e.get("op") == "table" and sum(e["norm"]) < e["total"]:
                under[e["c"]] = under.get(e["c"], 0) + 1
    cov["real_tables_underfull_by_subject"] = under
    cov["events"] = s1.get("events", 0)
    cov["vacuous_subjects"] = sorted(n for n, d in subs.items() if int(d.get("roundtrips_nontrivial", 0)) == 0)
    if not subs or cov["decodes_judged"] == 0:
        raise vlib.ToolError("vacuity: no decode after a successful encode was exercised")
    cov["exhaustive"] = False
    cov["rule"] = ("one case = (subject, training data, payload) whose encode succeeded on a non-empty payload and whose decode with the matching "
                   "model and the original length was executed and judged by TLC against CodecSession.tla (refused encodes, empty payloads and "
                   "skipped oversize payloads are not counted); subjects = 51: Huffman order 0 (new / from_frequencies); contextual order 0/1/2; "
                   "order-1 x1/x2/x4/x8 through encode_xN and through encode_with_interleaving; 6 SIMD tiers; ParallelHuffman x2/x4/x8 (+ "
                   "high_throughput config); rANS x1/x2/x4/x8, adaptive, symbol-level encode_symbol / decode_symbol crossed with the bulk API; FSE "
                   "default/fast/high/realtime/balanced, fse_zip, fse_compress(+_with_config), block-parallel (16 KiB and 1 KiB blocks), with_dictionary, "
                   "table_log 5 / 15, analyze_frequencies training, symbol-level FseTable API; AdaptiveParallelEncoder; DictionaryCompressor and "
                   "OptimizedDictionaryCompressor (default and with_config / builder setters); BitOps variable-length field pair.  Cases are "
                   "distinct by construction (different subject, training mode same/other/superset, or generated payload).  Input families: all "
                   "strings over {0x00,'a',0xFF} up to length 6 (superset model: all 1093; own model: all up to length 3 and a third of length 4 per "
                   "subject, all in thorough), lengths 0..17 / 23..25 / 31..33 / 63..65 / 99..101 / 127..129 / 255..257 over 2 and 16 symbols, alphabet "
                   "sizes 1,2,3,13..20,64..67,128,255,256 uniform and geometric, Fibonacci counts over 14..22 symbols (thorough ..27), one rare symbol "
                   "in 9000 / 65533 (thorough 10^5, 10^6), all-zero, single symbol, length 0 and 1, text, 64 KiB random and compressible (thorough 1 "
                   "and 4 MiB); one symbol occurring 255/256/4095/4096/65535/65536 times next to rarer symbols that keep slots; total lengths "
                   "72/73, 1023..1025, 5328/5329, 8191..8193, 32767..32769, 65535..65537 and 200 000 (70/30 split; thorough 2*10^6 and 2^17..2^19 +-1); "
                   "LZ match lengths 9..12, 19..21, 257..259, 600 and distances 511..513, 32767..32769 in random bytes; a 301-byte block repeated to 32767 / "
                   "32768 / 32769 / 40000 / 70000 bytes (a match at every position, also beyond the 32 KiB window), a unique 40-byte marker twice at "
                   "distance 511..513 / 32767..32769 with the second copy beyond position 32768, markers of length 9..12 / 19..21 / 257..259 / 300 beyond "
                   "position 32768; bit fields of every width 0..33.  After "
                   "every training the real normalised table / code tables are judged by TLC against FreqNorm.tla / PrefixCode.tla; the symbol-step "
                   "law decode_symbol(encode_symbol(s, x)) = (s, x) is judged on boundary and random states.")
    for s in s1.get("samples", [])[:3]:
        ctx.sample(s)
    if huff:
        ctx.sample_from_trace(huff, 6)
    if rans:
        evs = vlib.read_ndjson(rans)
        runs = [r for r in vlib.split_runs(evs) if r[0].get("klass", "").startswith("alpha")]
        if runs:
            ctx.sample({"trace_file": os.path.relpath(rans, vlib.VERIF), "run": runs[0][:5]})
    ctx.assumptions += [
        "TLC evaluates CodecSession.tla / FreqNorm.tla / PrefixCode.tla over the recorded events; the harness only generates inputs, calls through and projects",
        "payload equality is decided on (length, 60-bit digest): a collision has probability 2^-60 per comparison",
        "the matching decoder is built the way the API requires: from the encoder object (rANS, order-1 xN), from its tree (Huffman, SIMD), from an "
        "encoder trained on the same data (ContextualHuffmanDecoder, ParallelHuffmanDecoder), from the same FseConfig (FSE), from the counts and "
        "select_variant(len) of the payload (AdaptiveRans64Encoder)",
        "contextual code tables are read through ContextualHuffmanEncoder::serialize + HuffmanTree::deserialize (the trees are private); quick judges "
        "the baseline tree and one sampled context tree on half of the trainings, thorough four trees on every training",
        "a panic or Err inside train / encode is an allowed refusal and is counted; a panic, Err, crash or timeout of a matching decode is rejected",
        "DictionaryCompressor is driven with payloads <= 8 KiB in quick (its matcher is quadratic; the window sessions of random bytes up to 40 KB), OptimizedDictionaryCompressor <= 64 KiB (with_config variant 210 KB)",
        "AdaptiveParallelEncoder: the matching decoder is the one of the algorithm select_optimal_encoding names (Huffman tree of the payload / the uniform rANS table of the adaptive encoder / default FSE)",
        "symbol-level subjects drive encode_symbol / decode_symbol / renormalize_* in the order the library's own bulk functions use them",
        "bounded: seeded input families (VERIF_SEED); SIMD tiers are the ones this CPU selects; no claim for inputs outside the families",
    ]


def replay(ctx, path):
    """re-execute the session of a replay file against the current tree and validate again"""
    rep = json.load(open(path))
    ctx.build(BIN)
    subj = rep.get("subject")
    reset = rep.get("reset", {})
    ctx.tier = rep.get("tier", ctx.tier)
    ctx.seed = rep.get("seed", ctx.seed)
    extra = {"threads": 1}
    if "sess" in reset:
        extra["only"] = reset["sess"]
    s = ctx.harness(BIN, "drive", "rp", subject=subj, extra=extra, timeout=3300)
    files = sorted(glob.glob(os.path.join(s["_out"], "*.ndjson")))
    ctx.validate(TRACE, files, what="replay of " + os.path.basename(path), timeout=1500, jvm="-Xmx3g -XX:ParallelGCThreads=2")
    subs = s.get("subjects", {})
    ctx.cov["evaluations"] = sum(int(d.get("encodes_ok", 0)) + int(d.get("encodes_refused", 0)) for d in subs.values())
    ctx.cov["distinct_nontrivial"] = sum(int(d.get("roundtrips_nontrivial", 0)) for d in subs.values())
    ctx.cov["rule"] = "replay of one session of one subject"
    ctx.sample({"replayed": path})
