"""C13 — serialised values decode to themselves and consume exactly their own bytes.

spec/Wire.tla is the contract.  Part 1 (records): state = the list of records written so far
([value, bytes produced], values opaque) and a read cursor; Write / Read(v, consumed) / ReadVal /
ReadRefused (only when nothing is left) / EncodedLen / BatchEqualsScalar / ReadField (versioned
fields) / Total.  Part 2 (views): reader back ends are views of one byte sequence (ReadN, ReadExact,
Peek, Skip, SeekTo, Pos, Remaining, Extend) and writer back ends deliver exactly the accepted bytes
(Accept, Sink).  MC_Wire checks the contract exhaustively for small constants (all write/read
interleavings over 3 values with sizes 1..3; all byte sequences over {0,1} up to length 3 with all
ranges and read sizes).  Harness bin c13 runs the real zipora::io code (VarInt, VarIntEncoder x 7
strategies x {u64,i64} x {single, sequence}, SIMD batch varint, EndianIO, DataInput/DataOutput over
slice / Vec / std::io / file / mmap / range / buffered / zero-copy back ends, ComplexSerialize, smart
pointers, versioned fields, RangeReader/Writer, MultiRangeReader, StreamBufferedReader/Writer,
ZeroCopyReader/Writer/Buffer, MmapZeroCopyReader, MemoryMappedInput, VectoredIO) and logs every call;
Trace_Wire validates every event.
"""
import glob
import json
import os

import vlib

LEVEL = "exploration"
BIN = "c13"
TRACE = "Trace_Wire"


# ---- binding self-tests: corrupted results must be rejected

def corrupt_decoded_value(run):
    """a decoded value changed"""
    for e in run:
        if e.get("op") == "read" and e.get("v"):
            e["v"] = list(e["v"])
            e["v"][0] = e["v"][0] + "1"
            return run
    return None


def corrupt_consumed(run):
    """a consumed byte count off by one"""
    for e in run:
        if e.get("op") == "read" and "consumed" in e:
            e["consumed"] = e["consumed"] + 1
            return run
    return None


def corrupt_encoded_len(run):
    for e in run:
        if e.get("op") == "encoded_len":
            e["r"] = e["r"] + 1
            return run
    return None


def refuse_valid_record(run):
    """a read of a validly written record turned into a refusal"""
    for i, e in enumerate(run):
        if e.get("op") == "read":
            run[i] = {"op": "read_refused", "codec": e.get("codec"), "at": e.get("at"), "msg": "injected"}
            return run
    return None


def corrupt_view_byte(run):
    """one byte returned by a reader back end changed"""
    for e in run:
        if e.get("op") in ("readn", "read_exact") and len(e.get("got", [])) >= 2:
            e["got"] = list(e["got"])
            e["got"][1] = (e["got"][1] + 1) % 256
            return run
    return None


def lose_view_byte(run):
    """a reader back end loses one byte (the following bytes shift)"""
    for e in run:
        if e.get("op") == "readn" and len(e.get("got", [])) >= 3:
            e["got"] = list(e["got"])[1:]
            return run
    return None


def early_eof(run):
    """end of stream reported before the end of the range"""
    seen = False
    for i, e in enumerate(run):
        if e.get("op") == "open":
            seen = True
        elif seen and e.get("op") in ("readn", "read_exact") and len(e.get("got", [])) >= 1:
            run[i] = {"op": "readn", "api": "read", "k": max(1, e.get("k", 1)), "got": []}
            return run
    return None


def corrupt_sink(run):
    """the sink of a writer differs from the accepted bytes"""
    for e in run:
        if e.get("op") == "sink" and len(e.get("got", [])) >= 1:
            e["got"] = list(e["got"])
            e["got"][-1] = (e["got"][-1] + 1) % 256
            return run
    return None


def _flip(op, field):
    def f(run):
        for e in run:
            if e.get("op") == op and isinstance(e.get(field), bool):
                e[field] = not e[field]
                return run
        return None
    return f


def _bump(op, field):
    def f(run):
        for e in run:
            if e.get("op") == op and isinstance(e.get(field), int) and not isinstance(e.get(field), bool):
                e[field] = e[field] + 1
                return run
        return None
    return f


def refuse_total_read(run):
    """an exact read that fits, on a back end where it cannot fail, turned into a refusal"""
    for i, e in enumerate(run):
        if e.get("op") == "read_exact" and e.get("api") == "exact" and len(e.get("got", [])) >= 1:
            run[i] = {"op": "readn_refused", "api": "exact", "k": e["k"], "need": e["k"], "msg": "injected"}
            return run
    return None


def corrupt_overwrite(run):
    """a repositioned write lands one byte off: the sink differs inside the overwritten window"""
    seen = False
    for e in run:
        if e.get("op") == "seekw":
            seen = True
        if seen and e.get("op") == "sink" and len(e.get("got", [])) >= 2:
            e["got"] = list(e["got"])
            e["got"][0], e["got"][1] = e["got"][1], (e["got"][0] + 1) % 256
            return run
    return None


def torn_claimed_ok(run):
    """a write through a short sink that lost its tail is reported as Ok with the full length"""
    for e in run:
        if e.get("op") == "write_through" and e.get("ok") and e.get("enc_len", 0) >= 2 and isinstance(e.get("sink"), list):
            e["sink"] = list(e["sink"])[:-1]
            e["encp"] = list(e["encp"])[:-1]
            e["sink_len"] = e["sink_len"] - 1
            return run
    return None


def sink_not_prefix(run):
    """the bytes that reached a short sink are not a prefix of the encoding"""
    for e in run:
        if e.get("op") == "write_through" and isinstance(e.get("sink"), list) and len(e["sink"]) >= 1:
            e["sink"] = list(e["sink"])
            e["sink"][-1] = (e["sink"][-1] + 1) % 256
            return run
    return None


def err_claims_more(run):
    """a failed write claims more bytes than the sink accepted"""
    for e in run:
        if e.get("op") == "write_through" and not e.get("ok"):
            e["n"] = e["sink_len"] + 1
            return run
    return None


def _pick_with(files, key, needle):
    """first trace file of a family that contains an event of the given kind"""
    for p in sorted(f for f in files if key in os.path.basename(f)):
        try:
            with open(p) as fh:
                if needle in fh.read():
                    return p
        except OSError:
            pass
    return None


def _short(e, k=10):
    e = dict(e)
    for f in ("got", "data", "v", "batch", "scalar", "ob", "oa"):
        if isinstance(e.get(f), list) and len(e[f]) > k:
            e[f] = e[f][:k] + ["... %d in all" % len(e[f])]
    if isinstance(e.get("src"), dict) and isinstance(e["src"].get("arr"), list) and len(e["src"]["arr"]) > k:
        s = dict(e["src"])
        s["arr"] = s["arr"][:k] + ["... %d in all" % len(e["src"]["arr"])]
        e["src"] = s
    return e


def _sample(ctx, path, n=8):
    try:
        evs = vlib.read_ndjson(path)
    except Exception:
        return
    runs = vlib.split_runs(evs)
    if runs:
        run = max(runs[:6], key=len)
        ctx.sample({"trace_file": os.path.relpath(path, vlib.VERIF), "run": [_short(e) for e in run[:n]]}, limit=8)


def _pick(files, key):
    """first trace file (in name order, i.e. the first one the harness wrote) of a family"""
    hit = sorted(p for p in files if key in os.path.basename(p))
    return hit[0] if hit else None


def run(ctx):
    ctx.build(BIN)
    # --- the contract itself, exhaustively for small constants
    ctx.tlc_mc("MC_Wire", workers=4, required_actions=("NextWire", "NextView", "NextSink"),
               note="Wire contract: all write/read interleavings over 3 values x sizes 1..3 (<= 4 records): reads return writes in "
                    "order, exactly one accepted answer per read, refusal only at the end; all byte sequences over {0,1} up to "
                    "length 3 + one generated pattern, all single/double ranges, reads of 0..2, skips, peeks, seeks: what was "
                    "delivered equals the view; sinks equal the accepted prefixes")
    # --- the real code
    s = ctx.harness(BIN, "drive", "b1", timeout=900)
    files = sorted(glob.glob(os.path.join(s["_out"], "*.ndjson")), key=lambda p: -os.path.getsize(p))
    ctx.validate(TRACE, files, what="serialiser round trips / reader and writer back ends", timeout=900 if ctx.thorough else 400)
    # --- binding self-tests on subjects without findings
    rec = _pick(files, "wire-varint-") or files[0]
    ctx.selftest_corrupt(TRACE, rec, corrupt_decoded_value, "a decoded value changed")
    ctx.selftest_corrupt(TRACE, rec, corrupt_consumed, "a consumed byte count off by one")
    if ctx.thorough:
        ctx.selftest_corrupt(TRACE, rec, corrupt_encoded_len, "a predicted / reported encoded length off by one")
    ctx.selftest_corrupt(TRACE, rec, refuse_valid_record, "a validly written record refused by the decoder")
    view = _pick(files, "wire-rd-range")
    if view:
        ctx.selftest_corrupt(TRACE, view, corrupt_view_byte, "one byte returned by a range reader changed")
        ctx.selftest_corrupt(TRACE, view, lose_view_byte, "a range reader loses one byte")
        if ctx.thorough:
            ctx.selftest_corrupt(TRACE, view, early_eof, "end of stream reported before the end of the range")
    # one self-test per event kind of the coverage round
    for key, needle, mut, what in (
        ("wire-varint", '"op":"fits_in"', _flip("fits_in", "r"), "a fits-in-k-bytes predicate flipped"),
        ("wire-ver", '"op":"ver_pred"', _flip("ver_pred", "r"), "a version predicate (supports / compatible / proxy range) flipped"),
        ("wire-rd-range", '"op":"vlen"', _bump("vlen", "r"), "the reported length of a range off by one"),
        ("wire-rd-range", '"op":"at_end"', _flip("at_end", "r"), "an is-at-end observer flipped"),
        ("wire-rd-misc", '"api":"exact"', refuse_total_read, "a slice / mmap reader refuses an exact read that fits"),
        ("wire-dio-short", '"op":"write_through"', torn_claimed_ok, "a write that lost its tail in a short sink reported as Ok(full length)"),
        ("wire-dio-short", '"op":"write_through"', sink_not_prefix, "the bytes in a short sink are not a prefix of the encoding"),
        ("wire-dio-short", '"ok":false', err_claims_more, "a failed write claims more bytes than the sink accepted"),
        ("wire-wr-", '"op":"seekw"', _bump("seekw", "r"), "the position reported by a repositioned writer off by one"),
        ("wire-wr-", '"op":"seekw"', corrupt_overwrite, "a repositioned write lands at the wrong place in the sink"),
        ("wire-wr-", '"op":"sink_pos"', _bump("sink_pos", "r"), "the position observer of a writer off by one"),
        ("wire-wr-", '"op":"sink_remaining"', _bump("sink_remaining", "r"), "the remaining-room observer of a writer off by one"),
    ):
        f = _pick_with(files, key, needle)
        if f is None:
            raise vlib.ToolError("no trace file with %s for the self-test '%s'" % (needle, what))
        ctx.selftest_corrupt(TRACE, f, mut, what)
    wr = _pick(files, "wire-wr-buffered") or _pick(files, "wire-wr-")
    if wr:
        ctx.selftest_corrupt(TRACE, wr, corrupt_sink, "the sink of a buffered writer differs from the accepted bytes")
    # --- evidence
    cov = ctx.cov
    cov["evaluations"] = s.get("events", 0)
    cov["runs"] = s.get("runs", 0)
    cov["subjects"] = s.get("subjects", {})
    vac = []
    refused_reads = 0
    refused_writes = 0
    panics = 0
    for name, d in sorted(s.get("subjects", {}).items()):
        refused_reads += d.get("r_refused", 0)
        refused_writes += d.get("w_refused", 0)
        panics += d.get("panics", 0)
        if d.get("reads", 0) == 0:
            vac.append(name)
    cov["distinct_nontrivial"] = s.get("cases", 0)
    cov["vacuous_subjects"] = vac
    cov["refused_reads"] = refused_reads
    cov["refused_writes"] = refused_writes
    cov["panics_logged"] = panics
    cov["exhaustive"] = False
    cov["rule"] = ("one case = (subject, codec, value) whose encoding succeeded and was decoded again inside a stream of concatenated "
                   "records under a seeded interleaved write/read schedule (value AND consumed byte count judged by TLC against "
                   "Wire.tla), or (reader/writer subject, source bytes, range, operation program) that moved at least one byte "
                   "(every returned byte judged by TLC against the view).  Subjects = API x strategy x integer type x single/sequence, "
                   "DataOutput back end x DataInput back end, serialiser configuration, reader x buffer size x inner reader (full / "
                   "short reads).  Values: 0, 2^(7k)-1, 2^(7k), 2^(7k)+1 (k=1..9), 2^(7k-1) boundaries for zigzag, u64::MAX, "
                   "i64::MIN/MAX, +-1, seeded random widths; sequences of length 0..9 x 8 profiles (boundary, ascending, descending, "
                   "< 2^32, alternating 0/MAX, random, small); strings: empty, non-ASCII, 127/128/129/16383/16384/16385 bytes; "
                   "read programs: every sequence of 3 (buffer sizes 1,2,7,8; thorough 4) resp. 2 (4096) read sizes from "
                   "{1,2,3,b,b+1,2b+1} followed by a drain, plus seeded random programs over read / exact read / peek / skip / "
                   "seek / position / at-end / length observers, each ending with the end-of-view probes (one byte too many must be "
                   "refused without moving, an exact fit must succeed on slice / mmap / range readers, every observer one byte before "
                   "and at the end).  Coverage round: size-class predicates (fits_in_one/two_bytes), named strategy / endianness "
                   "constructors against ::new on the decoding side, byte-width boundaries 2^(8k) (prefix-free, group-varint selector "
                   "widths), both sides of every threshold of choose_optimal_strategy(_signed), 2^21 length prefix, version predicates "
                   "(supports / compatible / proxy range, judged by TLC), migrations (1 and 2 steps), context clear(), "
                   "MemoryMappedInput x 5 constructors x 4 access patterns x sizes around 4 KiB and 1 MiB, SliceDataInput / "
                   "MmapDataInput as views, stock ZeroCopyReader / StreamBufferedWriter / ZeroCopyWriter, repositioned writers "
                   "(RangeWriter, StreamBufferedWriter, MemoryMappedOutput: overwrite inside the written image).  "
                   "Distinct = distinct (subject, fingerprint of value or program); refused encodes (e.g. zigzag "
                   "of an unsigned value) and runs that moved no byte are not counted; vacuous subjects are listed.")
    for key in ("wire-varint-", "wire-encseq-0", "wire-dio-file", "wire-complex-", "wire-rd-buffered-7", "wire-rd-zerocopy_over", "wire-wr-range", "wire-ver-0"):
        p = _pick(files, key)
        if p:
            _sample(ctx, p)
    ctx.assumptions += [
        "TLC evaluates Wire.tla over the recorded events; the harness only generates inputs, calls through and projects "
        "(decimal strings, 60-bit digests of strings / byte arrays, byte arrays of reads); equality of payloads is decided on (len, digest)",
        "after every read the driver continues at the record boundary the ENCODER produced, so one wrong consumed count is one rejected event",
        "Weak pointers: the pointee cannot be observed after deserialisation (no strong owner survives), only decodability and the consumed count are judged",
        "HashMap / HashSet values are compared as sets of entries",
        "sequence decoders and whole-buffer serialisers report no consumed count: sequence decoders get the record plus all following "
        "records as trailing bytes and must still return the value; whole-buffer APIs get exactly their record",
        "large generated streams are described to TLC by their generator (byte i = (i*a + i div 251) mod 256); TLC evaluates the same definition",
        "release profile without overflow checks (the behaviour users get); CPU with AVX2+BMI2, lower SIMD tiers cannot be forced",
        "an exact read or skip that fits may be refused by buffering readers (capacity, short inner reads, unsupported look-ahead) but not by slice / mmap / range readers",
        "inconsistencies between two observers of the same quantity that the harness sees directly (e.g. ensure_buffered vs buffer_usage) are logged as panic events, which the contract never accepts",
        "bounded: seeded value families, schedules and read programs (VERIF_SEED); no claim for inputs outside them",
    ]


def replay(ctx, path):
    """re-execute the subject of a replay file against the current tree and validate again"""
    rep = json.load(open(path))
    ctx.build(BIN)
    subj = rep.get("subject")
    ctx.tier = rep.get("tier", ctx.tier)
    ctx.seed = rep.get("seed", ctx.seed)
    s = ctx.harness(BIN, "drive", "rp", subject=subj, timeout=900)
    files = sorted(glob.glob(os.path.join(s["_out"], "*.ndjson")))
    ctx.validate(TRACE, files, what="replay of " + os.path.basename(path), timeout=900)
    ctx.cov["evaluations"] = s.get("events", 0)
    ctx.cov["distinct_nontrivial"] = s.get("cases", 0)
    ctx.cov["rule"] = "replay of one subject"
    ctx.sample({"replayed": path})
