"""C03 — blob stores return exactly what was stored, under stable ids.

spec/BlobStore.tla is the contract (live: id -> digest, issued); MC_BlobStore checks its laws
exhaustively (GetReturnsPut, NoLiveIdReissued, AbsentIsAbsent, LenAgrees, the keyed extension);
MC_BlobStoreGen generates every history of put / put_batch / remove(i-th issued id) of length L over
3 abstract records with the abstract state after every step (B2); harness bin c03 drives ~80
subjects (store type x config preset x wrapper stack, builder-made stores at block-boundary sizes,
save->load) with seeded random histories (B1) and executes the TLC histories under several
concretisations of the records; Trace_BlobStore validates every recorded event.
"""
import glob
import json
import os

import vlib

LEVEL = "model_checking"
BIN = "c03"
TRACE = "Trace_BlobStore"
# subjects recorded to deviate (known_findings.json): the harness writes their runs to files of their own, so that
# TLC never has to re-validate the other subjects of a file because of them (purely a cost matter: any subject
# that is rejected is cut out and re-judged on its own by ctx.validate)
ISOLATE = "zipoffset:,triekey:,mem:from_data_top"


def _flip_digest(d):
    d = dict(d)
    d["h"] = [d["h"][0], (d["h"][1] + 1) % (1 << 30)]
    return d


def corrupt_get_digest(run):
    """one bit of what a successful get returned is changed (digest h0 + 1)"""
    for e in run:
        if e.get("op") == "get" and e.get("ok"):
            e["d"] = _flip_digest(e["d"])
            return run
        if e.get("op") == "probe":
            for g in e["get"]:
                if g["ok"]:
                    g["d"] = _flip_digest(g["d"])
                    return run
    return None


def corrupt_len(run):
    for e in run:
        if e.get("op") == "len":
            e["r"] = e["r"] + 1
            return run
        if e.get("op") == "probe":
            e["len"] = e["len"] + 1
            return run
    return None


def corrupt_contains(run):
    """a contains() answer is negated"""
    for e in run:
        if e.get("op") == "contains":
            e["r"] = not e["r"]
            return run
        if e.get("op") == "probe" and e["contains"]:
            e["contains"][0] = not e["contains"][0]
            return run
    return None


def corrupt_get_batch(run):
    """get_batch reports a record that is there as absent"""
    for e in run:
        if e.get("op") == "get_batch" and e.get("ok"):
            for g in e["r"]:
                if g["some"]:
                    g["some"] = False
                    return run
    return None


def corrupt_remove_batch_count(run):
    for e in run:
        if e.get("op") == "remove_batch" and e.get("ok"):
            e["n"] = e["n"] + 1
            return run
    return None


def corrupt_iter_ids(run):
    """iter_ids lists an id that was never handed out"""
    for e in run:
        if e.get("op") == "iter_ids":
            e["r"] = e["r"] + [123456]
            return run
    return None


def corrupt_keys(run):
    """keys() / keys_with_prefix() lists a key that was never stored"""
    for e in run:
        if e.get("op") == "keys" and e.get("ok"):
            e["r"] = e["r"] + [[122, 122, 122, 122]]
            return run
    return None


def corrupt_iter_blobs(run):
    """iter_blobs yields other bytes for a record"""
    for e in run:
        if e.get("op") == "iter_blobs" and e.get("ok") and e["r"]:
            e["r"][0]["d"] = _flip_digest(e["r"][0]["d"])
            return run
    return None


def corrupt_put_batch_keys(run):
    """put_batch_with_keys reports the same id for two entries"""
    for e in run:
        if e.get("op") == "put_batch_keys" and e.get("ok") and len(e["ids"]) >= 2:
            e["ids"][1] = e["ids"][0]
            return run
    return None


def corrupt_build_keyed(run):
    """after a keyed build get_by_key of a stored key returns other bytes"""
    if not any(e.get("op") == "build_keyed" and e.get("ok") for e in run):
        return None
    return corrupt_key_answer(run)


def corrupt_build_at(run):
    """a store built from an id -> record map reports one record less"""
    for e in run:
        if e.get("op") == "build_at" and e.get("ok") and e["ds"]:
            e["len_after"] = e["len_after"] - 1
            return run
    return None


def corrupt_mixed_shape(run):
    for e in run:
        if e.get("op") == "mixed_shape":
            e["nf"] = e["nf"] + 1
            return run
    return None


def corrupt_after_maintenance(run):
    """a maintenance call (reserve / optimize / flush / finalize ...) is followed by a changed record"""
    seen = False
    for e in run:
        if e.get("op") == "maintenance":
            seen = True
        elif seen:
            if e.get("op") == "get" and e.get("ok"):
                e["d"] = _flip_digest(e["d"])
                return run
            if e.get("op") == "probe":
                for g in e["get"]:
                    if g["ok"]:
                        g["d"] = _flip_digest(g["d"])
                        return run
    return None


def corrupt_wrapped_contains(run):
    """a wrapper over an already populated store denies a record it did not write itself"""
    if run[0].get("regime") != "wrapped":
        return None
    for e in run:
        if e.get("op") == "probe":
            for i, x in enumerate(e["contains"]):
                if x:
                    e["contains"][i] = False
                    return run
    return None


def _selftest_any(ctx, files, mutate, what):
    """the first file holding a run the mutation applies to"""
    for p in files:
        try:
            ctx.selftest_corrupt(TRACE, p, mutate, what)
            return
        except vlib.ToolError as ex:
            if "no run suitable" not in str(ex):
                raise
    raise vlib.ToolError("binding self-test: no run suitable for corruption (%s)" % what)


def corrupt_put_id(run):
    """a put reports the id of a record that is still live (id handed out twice)"""
    live = []
    for e in run:
        if e.get("op") == "put" and e.get("ok"):
            if live:
                e["id"] = live[0]
                return run
            live.append(e["id"])
        elif e.get("op") in ("remove", "clear", "put_batch", "saveload"):
            return None
    return None


def corrupt_key_answer(run):
    """get_by_key returns another record's content"""
    for e in run:
        if e.get("op") == "get_key" and e.get("ok"):
            e["d"] = _flip_digest(e["d"])
            return run
    return None


def _first_file_with(files, pred):
    for p in files:
        try:
            with open(p) as f:
                head = f.readline()
            if pred(json.loads(head)):
                return p
        except Exception:
            pass
    return None


def _reissued_ids(files):
    """evidence only: how often a put handed out an id that an earlier put of the same run had handed out"""
    n = 0
    for p in files:
        seen = set()
        for e in vlib.read_ndjson(p):
            op = e.get("op")
            if op == "reset":
                seen = set()
            elif op in ("put", "put_key") and e.get("ok"):
                if e["id"] in seen:
                    n += 1
                seen.add(e["id"])
            elif op == "put_batch" and e.get("ok"):
                for i in e["ids"]:
                    if i in seen:
                        n += 1
                    seen.add(i)
    return n


def _one_file_per_isolated_subject(ctx, files):
    """the B1 and B2 trace files of an isolated subject are concatenated (one JVM start instead of two)"""
    out, by_subject = [], {}
    for p in files:
        if "-s" in os.path.basename(p):
            with open(p) as f:
                subj = json.loads(f.readline()).get("subject", "")
            by_subject.setdefault(subj, []).append(p)
        else:
            out.append(p)
    d = os.path.join(ctx.work, "merged")
    os.makedirs(d, exist_ok=True)
    for i, (subj, ps) in enumerate(sorted(by_subject.items())):
        if len(ps) == 1:
            out.append(ps[0])
            continue
        q = os.path.join(d, "bs-m%03d.ndjson" % i)
        with open(q, "w") as w:
            for p in ps:
                with open(p) as f:
                    w.write(f.read())
        out.append(q)
    return out


def run(ctx):
    ctx.build(BIN)
    # --- the contract itself, exhaustively for small constants
    ctx.tlc_mc("MC_BlobStore", required_actions=(), note="laws of the BlobStore contract, 3 ids x 2 records x 2 keys")
    # --- B2: all mutating histories of length L, expected state after every step computed by TLC
    gen_cfg = "MC_BlobStoreGen4.cfg" if ctx.thorough else "MC_BlobStoreGen.cfg"
    beh, nbeh = ctx.tlc_generate("MC_BlobStoreGen", cfg=gen_cfg, timeout=1500, jvm="-Xmx8g")
    if nbeh == 0:
        raise vlib.ToolError("MC_BlobStoreGen produced no behaviours")
    s2 = ctx.harness(BIN, "replay", "b2", extra={"in": beh, "sample": 4000 if ctx.thorough else 250, "isolate": ISOLATE},
                     timeout=2400)
    # --- B1: seeded random histories + bulk builds
    s1 = ctx.harness(BIN, "drive", "b1", extra={"isolate": ISOLATE})
    b1files = sorted(glob.glob(os.path.join(s1["_out"], "*.ndjson")))
    b2files = sorted(glob.glob(os.path.join(s2["_out"], "*.ndjson")))
    # short linear runs: the C2 JIT costs more than it gains (measured 9 s -> 2 s CPU per 1 700-event file)
    ctx.validate(TRACE, _one_file_per_isolated_subject(ctx, b1files + b2files), what="blob store operation history",
                 jvm="-Xmx2g -XX:TieredStopAtLevel=1")
    # --- binding self-tests: corrupted results must be rejected
    plain = _first_file_with(b1files, lambda h: h.get("subject") == "mem:new") or b1files[0]
    ctx.selftest_corrupt(TRACE, plain, corrupt_get_digest, "digest returned by a successful get changed by one")
    ctx.selftest_corrupt(TRACE, plain, corrupt_len, "len() answer changed by +1")
    ctx.selftest_corrupt(TRACE, plain, corrupt_contains, "contains() answer negated")
    ctx.selftest_corrupt(TRACE, plain, corrupt_put_id, "put reports the id of a record that is still live")
    ctx.selftest_corrupt(TRACE, plain, corrupt_get_batch, "get_batch reports a live record as absent")
    ctx.selftest_corrupt(TRACE, plain, corrupt_remove_batch_count, "remove_batch count changed by +1")
    ctx.selftest_corrupt(TRACE, plain, corrupt_iter_ids, "iter_ids lists an id never handed out")
    _selftest_any(ctx, b1files, corrupt_iter_blobs, "iter_blobs yields other bytes for a record")
    _selftest_any(ctx, b1files, corrupt_after_maintenance, "a record read after a maintenance call changed")
    _selftest_any(ctx, b1files, corrupt_keys, "keys() lists a key never stored")
    _selftest_any(ctx, b1files, corrupt_put_batch_keys, "put_batch_with_keys reports one id twice")
    _selftest_any(ctx, b1files, corrupt_build_keyed, "get_by_key after a keyed build returns other bytes")
    _selftest_any(ctx, b1files, corrupt_build_at, "store built from an id map reports one record less")
    _selftest_any(ctx, b1files, corrupt_mixed_shape, "MixedLenBlobStore fixed_count changed by +1")
    _selftest_any(ctx, b1files, corrupt_wrapped_contains, "wrapper over a populated store denies a record it did not write")
    keyed = _first_file_with(b1files, lambda h: h.get("keyed") is True)
    if keyed:
        ctx.selftest_corrupt(TRACE, keyed, corrupt_key_answer, "digest returned by get_by_key changed by one")
    # --- evidence
    cov = ctx.cov
    cov["evaluations"] = s1.get("events", 0) + s2.get("events", 0) + s2.get("executions", 0)
    cov["b2_behaviours"] = nbeh
    cov["b2_executions"] = s2.get("executions", 0)
    cov["b1_events"] = s1.get("events", 0)
    cov["b1_runs"] = s1.get("runs", 0)
    cov["subjects"] = {}
    nontrivial = 0
    vacuous = []
    known, differs = 0, 0
    refusals = {"put": 0, "remove": 0, "build": 0, "remove_batch": 0}
    batch_ops = {"get_batch": 0, "remove_batch_ok": 0, "iter_ids": 0}
    for name, d in sorted(s1.get("subjects", {}).items()):
        b = s2.get("subjects", {}).get(name, {})
        cov["subjects"][name] = {"b1": d, "b2": b}
        for x in (d, b):
            known += x.get("stored_size_known", 0)
            differs += x.get("stored_size_differs", 0)
            refusals["put"] += x.get("put_refused", 0)
            refusals["remove"] += x.get("remove_refused", 0)
            refusals["build"] += x.get("build_refused", 0)
            refusals["remove_batch"] += x.get("remove_batch_refused", 0)
            for k in batch_ops:
                batch_ops[k] += x.get(k, 0)
        stored_something = d.get("put_ok", 0) + d.get("build_ok", 0) + b.get("put_ok", 0) > 0
        read_something = d.get("get_ok", 0) + b.get("get_ok", 0) > 0
        if stored_something and read_something:
            # distinct non-trivial cases: (subject, history) pairs executed with at least one successful store
            nontrivial += b.get("behaviours", 0) + d.get("runs", 0)
        else:
            vacuous.append(name)
    cov["distinct_nontrivial"] = nontrivial
    cov["vacuous_subjects"] = vacuous
    cov["refusals"] = refusals
    cov["batch_and_iteration_events"] = batch_ops
    cov["puts_with_observable_stored_size"] = known
    cov["puts_whose_stored_size_differs_from_payload"] = differs
    cov["fraction_stored_size_differs"] = round(differs / known, 4) if known else None
    cov["ids_reissued"] = _reissued_ids(b1files + b2files)
    cov["exhaustive"] = True
    cov["rule"] = ("B2: every history of put / put_batch(2 records) / remove(i-th id handed out, or a never issued id) of length %s "
                   "over 3 abstract records, generated by TLC from MC_BlobStoreGen with the abstract state after every step, executed "
                   "on every mutable subject (store type x config preset x wrapper stack) under 4 concretisations of the records "
                   "(empty/1 byte, equal-length, compressible text, 64 KiB compressible + 64 KiB random); B1: seeded random histories per "
                   "subject (put, put_batch, remove, remove_batch, get, get_batch, iter_ids, contains, size, len, clear, save->load / reopen, keyed "
                   "put/get/prefix; with deliberately placed read -> remove_batch -> read sequences; B2 removes go through remove_batch on every "
                   "other history; maintenance calls (reserve, shrink_to_fit, optimize, validate, flush, prefetch, cache on/off, write strategy, "
                   "finalize, offset cache), iter_blobs, load_dictionary; keyed runs with put_batch_with_keys, keys(), keys_with_prefix(), "
                   "finalize; record lengths t-1/t/t+1 around the thresholds 8..8192 of the code, 64 KiB-1/64 KiB/64 KiB+1, 200 KiB and "
                   "1 MiB; ids at the end of the id space), fills of "
                   "0..129 records, and bulk builds of 0,1,2,63..65,127..129,255..257,511..513 records x 6 record-length profiles for every "
                   "builder-made store and 17 wrappers created over an ALREADY POPULATED inner store (probed before any own write, changed through "
                   "inner_mut(), unwrapped and wrapped again) (builder twins add_records / add_batch / finish_with_progress / build_from_* incl. keyed builds with "
                   "repeated keys, from_data with ids up to u32::MAX, save_to_file -> load_from_file); every event validated by TLC against BlobStore.tla.  distinct = (subject, history, concretisation) executions of B2 plus "
                   "(subject, run) pairs of B1, for subjects with at least one successful store and one successful read; subjects that never stored anything readable are listed as "
                   "vacuous and not counted.  exhaustive refers to the B2 history space." % ("4" if ctx.thorough else "3"))
    if b1files:
        ctx.sample_from_trace(plain, 8)
    bulk = _first_file_with(b1files, lambda h: h.get("regime") == "bulk" and h.get("fam") == "mixedlen")
    if bulk:
        evs = vlib.read_ndjson(bulk)[:2]
        for e in evs:
            for k in ("ds",):
                if k in e and len(e[k]) > 4:
                    e[k] = e[k][:4] + ["... %d more" % (len(e[k]) - 4)]
        ctx.sample({"trace_file": os.path.relpath(bulk, vlib.VERIF), "first_events": evs})
    if b2files:
        ctx.sample_from_trace(b2files[0], 7)
    ctx.assumptions += [
        "payloads are projected to (length, 60-bit hash) by zv::digest; TLC decides equality on the digest (collision probability 2^-60 per comparison)",
        "TLC evaluates BlobStore.tla over the recorded events; the harness keeps no model of a store (the ids it was handed are used to select arguments only)",
        "B2 pre-filter compares with TLC-computed states for equality; every mismatching history (up to 60 per subject) and a seeded sample of matching ones is judged by TLC",
        "refusal rule: put / put_batch / remove / build / size may return Err provided nothing changes; get of a live id must succeed",
        "bounded: histories <= L for B2, seeded random for B1; record ids above i32::MAX cannot be represented for TLC and would be reported",
        "subjects with an expensive constructor (dictionary training) are reused across B2 histories after removing every record; each such trace starts with a validated len() = 0",
    ]


def replay(ctx, path):
    """re-execute the subject/seed of a replay file against the current tree and validate again"""
    rep = json.load(open(path))
    ctx.build(BIN)
    subj = rep.get("subject")
    reset = rep.get("reset", {})
    ctx.tier = rep.get("tier", ctx.tier)
    ctx.seed = rep.get("seed", ctx.seed)
    if reset.get("b2"):
        gen_cfg = "MC_BlobStoreGen4.cfg" if ctx.tier == "thorough" else "MC_BlobStoreGen.cfg"
        beh, _ = ctx.tlc_generate("MC_BlobStoreGen", cfg=gen_cfg, timeout=1500, jvm="-Xmx8g")
        s = ctx.harness(BIN, "replay", "rp", extra={"in": beh, "sample": 1000000}, subject=subj)
    else:
        s = ctx.harness(BIN, "drive", "rp", subject=subj)
    files = sorted(glob.glob(os.path.join(s["_out"], "*.ndjson")))
    ctx.validate(TRACE, files, what="replay of " + os.path.basename(path), jvm="-Xmx2g -XX:TieredStopAtLevel=1")
    ctx.cov["evaluations"] = s.get("events", 0)
    ctx.cov["distinct_nontrivial"] = s.get("runs", 0)
    ctx.cov["rule"] = "replay of one subject"
    ctx.sample({"replayed": path})
