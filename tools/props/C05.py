"""C05 — a trie is exactly the set of keys inserted and not removed.

spec/ByteSet.tla is the contract (state = a set of byte strings); MC_ByteSet checks its laws exhaustively
over 7 concrete prefix-structured keys; MC_ByteSetGen generates every insert/remove history of length L
(B2) with the TLC-computed result of every step and a TABLE of the expected observable projection of every
abstract state; harness bin c05 drives 38 subjects (ZiporaTrie presets, node-id API, legacy wrappers and their builders, DAWGs,
ParallelLoudsTrie, ParallelTrieBuilder); Trace_ByteSet validates every recorded execution.
"""
import glob
import json
import os

import vlib

LEVEL = "model_checking"
BIN = "c05"
TRACE = "Trace_ByteSet"
GEN_QUICK = ("MC_ByteSetGen.cfg", 7, 4)       # 14^4 = 38 416 histories
GEN_THOROUGH = [("MC_ByteSetGen.cfg", 7, 4), ("MC_ByteSetGen5.cfg", 5, 5), ("MC_ByteSetGen6.cfg", 4, 6)]


def corrupt_contains(run):
    """flip one contains() answer of the first probe that follows a successful insert"""
    seen_insert = False
    for e in run:
        if e.get("op") == "insert" and e.get("ok"):
            seen_insert = True
        if seen_insert and e.get("op") == "probe" and e.get("contains"):
            e["contains"] = list(e["contains"])
            e["contains"][0] = not e["contains"][0]
            return run
    return None


def corrupt_keys_listing(run):
    """drop one key from the first non-empty keys() listing"""
    for e in run:
        if e.get("op") == "probe_keys" and e.get("keys"):
            e["keys"] = list(e["keys"])[1:]
            return run
    return None


def corrupt_keys_duplicate(run):
    """list one key twice in keys()"""
    for e in run:
        if e.get("op") == "probe_keys" and e.get("keys"):
            e["keys"] = list(e["keys"]) + [e["keys"][0]]
            return run
    return None


def corrupt_longest_prefix(run):
    """change one longest_prefix() answer (None -> Some(0), Some(n) -> Some(n+1))"""
    for e in run:
        if e.get("op") == "probe_fsa" and e.get("longest"):
            lp = [list(x) for x in e["longest"]]
            lp[-1][1] = [0] if not lp[-1][1] else [lp[-1][1][0] + 1]
            e["longest"] = lp
            return run
    return None


def corrupt_remove_result(run):
    """flip the result of a remove()"""
    for e in run:
        if e.get("op") == "remove" and e.get("ok"):
            e["r"] = not e["r"]
            return run
    return None


def corrupt_prefix_listing(run):
    """add a key that does not start with the prefix to a keys_with_prefix() listing"""
    for e in run:
        if e.get("op") == "probe_keys" and e.get("prefix"):
            pf = [list(x) for x in e["prefix"]]
            for x in pf:
                if x[0]:
                    x[1] = list(x[1]) + [[(x[0][0] + 1) % 256]]
                    e["prefix"] = pf
                    return run
    return None


def corrupt_len_twin(run):
    """change one of the other size reports (stats().num_keys ...) of a probe"""
    for e in run:
        if e.get("op") == "probe" and e.get("len_twins"):
            e["len_twins"] = [e["len_twins"][0] + 1] + list(e["len_twins"][1:])
            return run
    return None


def corrupt_is_empty(run):
    """flip an is_empty() answer"""
    for e in run:
        if e.get("op") == "probe" and e.get("is_empty"):
            e["is_empty"] = [not e["is_empty"][0]] + list(e["is_empty"][1:])
            return run
    return None


def corrupt_restored(run):
    """restore_string(id) of a member gives another string"""
    for e in run:
        if e.get("op") == "probe_ids":
            ids = [list(x) for x in e["ids"]]
            for x in ids:
                if x[1] and x[2]:
                    x[2] = [list(x[2][0]) + [7]]
                    e["ids"] = ids
                    return run
    return None


def corrupt_node_id_found(run):
    """lookup_node_id of a member reported as None"""
    for e in run:
        if e.get("op") == "probe_ids":
            ids = [list(x) for x in e["ids"]]
            for x in ids:
                if x[1]:
                    x[1] = False
                    x[2] = []
                    e["ids"] = ids
                    return run
    return None


def corrupt_build_loses_key(run):
    """the probe after a chunked build misses one of the keys given to the builder (what a merge that skips a chunk
    looks like): contains = false, len one less"""
    uni = run[0].get("universe", [])
    for i, e in enumerate(run):
        if e.get("op") == "build" and e.get("ok") and e.get("keys") and i + 1 < len(run) and run[i + 1].get("op") == "probe":
            p = run[i + 1]
            for j, k in enumerate(uni):
                if k in e["keys"] and p["contains"][j]:
                    p["contains"] = list(p["contains"])
                    p["contains"][j] = False
                    p["len"] = p["len"] - 1
                    return run
    return None


def corrupt_maintenance_changes(run):
    """a maintenance call (shrink_to_fit / refresh_replicas) after which a member is gone"""
    for i, e in enumerate(run):
        if e.get("op") == "maintenance" and i + 1 < len(run) and run[i + 1].get("op") == "probe" and True in run[i + 1]["contains"]:
            p = run[i + 1]
            j = p["contains"].index(True)
            p["contains"] = list(p["contains"])
            p["contains"][j] = False
            return run
    return None


def corrupt_clear_keeps(run):
    """a clear() after which the trie still reports a member"""
    for i, e in enumerate(run):
        if e.get("op") == "clear" and i + 1 < len(run) and run[i + 1].get("op") == "probe":
            p = run[i + 1]
            p["contains"] = [True] + list(p["contains"][1:])
            return run
    return None


def corrupt_insert_after(run):
    """contains(k) right after a successful insert(k) reported false"""
    for e in run:
        if e.get("op") == "insert" and e.get("ok") and e.get("after"):
            e["after"] = False
            return run
    return None


def _file_of(files, subject):
    """the first B1 trace file of a subject"""
    for f in files:
        with open(f) as fh:
            first = fh.readline()
        try:
            if json.loads(first).get("subject") == subject:
                return f
        except ValueError:
            pass
    raise vlib.ToolError("no trace file for subject " + subject)


def _validate(ctx, files, what):
    """ctx.validate, plus one retry of the files whose JVM failed without a verdict (observed when the machine is
    heavily loaded: 'TLC threw an unexpected exception' before the first state).  A verdict (accepted / rejected) is
    never retried; a file that fails twice stays a tool error."""
    n0 = len(ctx.tool_errors)
    ctx.validate(TRACE, files, what=what)
    errs = ctx.tool_errors[n0:]
    if not errs:
        return
    again = [f for f in files if any(("trace validation of " + f) in e for e in errs)]
    if not again:
        return
    del ctx.tool_errors[n0:]
    ctx.tool_errors += [e for e in errs if not any(("trace validation of " + f) in e for f in again)]
    vlib.log("retrying %d trace files whose validation gave no verdict" % len(again))
    runs_before = ctx.cov["traces_validated_against_impl"]
    ctx.validate(TRACE, again, what=what)
    # the runs of the retried files were already counted by the first pass
    ctx.cov["traces_validated_against_impl"] = runs_before
    ctx.cov["retried_files"] = ctx.cov.get("retried_files", 0) + len(again)


def _generate(ctx, cfg, tag):
    return ctx.tlc_generate("MC_ByteSetGen", cfg=cfg, tag=tag, timeout=1500, jvm="-Xmx8g",
                            outfile=os.path.join(ctx.work, "%s.%s.ndjson" % (cfg.replace(".cfg", ""), tag.lower())))


def run(ctx):
    ctx.build(BIN)
    # --- the contract itself, exhaustively over the 7 concrete keys
    ctx.tlc_mc("MC_ByteSet", required_actions=("Insert",), note="laws of the ByteSet contract over 7 prefix-structured keys")
    # --- B2: all insert/remove histories of length L, results and expected projections computed by TLC
    gens = GEN_THOROUGH if ctx.thorough else [GEN_QUICK]
    s2s = []
    nbeh_total = 0
    for gi, (cfg, nk, L) in enumerate(gens):
        beh, nbeh = _generate(ctx, cfg, "REPLAY")
        if nbeh == 0:
            raise vlib.ToolError("MC_ByteSetGen/%s produced no behaviours" % cfg)
        # the TABLE is printed by every run of the module; take it from the cheap L = 0 configuration
        tab_cfg = "MC_ByteSetTab.cfg" if nk == 7 else "MC_ByteSetTab%d.cfg" % nk
        tab, ntab = _generate(ctx, tab_cfg, "TABLE")
        if ntab != 2 ** nk + 1:
            raise vlib.ToolError("MC_ByteSetGen TABLE has %d lines, expected %d" % (ntab, 2 ** nk + 1))
        nbeh_total += nbeh
        s2s.append(ctx.harness(BIN, "replay", "b2-%d" % gi, extra={"in": beh, "table": tab, "gen": gi, "sample": 4000 if ctx.thorough else 1000}))
    # --- B1: seeded random histories over a generated universe of ~40 byte-string keys
    s1 = ctx.harness(BIN, "drive", "b1")
    b1files = sorted(glob.glob(os.path.join(s1["_out"], "*.ndjson")))
    b2files = [p for s in s2s for p in sorted(glob.glob(os.path.join(s["_out"], "*.ndjson")))]
    _validate(ctx, b1files + b2files, "trie operation history")
    # --- binding self-tests: corrupted answers must be rejected (first file = a Patricia subject, clean)
    ctx.selftest_corrupt(TRACE, b1files[0], corrupt_contains, "one contains() answer of a probe flipped")
    ctx.selftest_corrupt(TRACE, b1files[0], corrupt_keys_listing, "one key dropped from a keys() listing")
    ctx.selftest_corrupt(TRACE, b1files[0], corrupt_keys_duplicate, "one key listed twice by keys()")
    ctx.selftest_corrupt(TRACE, b1files[0], corrupt_prefix_listing, "a key without the prefix added to a keys_with_prefix() listing")
    ctx.selftest_corrupt(TRACE, b1files[0], corrupt_longest_prefix, "one longest_prefix() answer changed")
    ctx.selftest_corrupt(TRACE, b1files[0], corrupt_remove_result, "result of a remove() flipped")
    ctx.selftest_corrupt(TRACE, b1files[0], corrupt_len_twin, "stats().num_keys of a probe changed by +1")
    ctx.selftest_corrupt(TRACE, b1files[0], corrupt_is_empty, "one is_empty() answer flipped")
    ctx.selftest_corrupt(TRACE, b1files[0], corrupt_insert_after, "contains(k) right after insert(k) -> Ok reported false")
    ctx.selftest_corrupt(TRACE, b1files[0], corrupt_maintenance_changes, "a member missing after shrink_to_fit()")
    ids_file = _file_of(b1files, "patricia:node_id_api")
    ctx.selftest_corrupt(TRACE, ids_file, corrupt_restored, "restore_string(node id) returns another string")
    ctx.selftest_corrupt(TRACE, ids_file, corrupt_node_id_found, "lookup_node_id of a member reported None")
    builder_file = _file_of(b1files, "par:builder")
    ctx.selftest_corrupt(TRACE, builder_file, corrupt_build_loses_key, "a key given to ParallelTrieBuilder missing from the built trie")
    ctx.selftest_corrupt(TRACE, _file_of(b1files, "dawg:nested_rooted"), corrupt_clear_keeps, "a member reported after clear()")
    # --- evidence
    cov = ctx.cov
    b2_exec = sum(s.get("executions", 0) for s in s2s)
    b2_events = sum(s.get("events", 0) for s in s2s)
    cov["evaluations"] = s1.get("events", 0) + b2_events + b2_exec
    cov["b2_behaviours"] = nbeh_total
    cov["b2_executions"] = b2_exec
    cov["b1_events"] = s1.get("events", 0)
    cov["b1_runs"] = s1.get("runs", 0)
    cov["subjects"] = {}
    nontrivial = 0
    vacuous = []
    refusals = {}
    for name, d in s1.get("subjects", {}).items():
        b = {}
        for s in s2s:
            for k, v in s.get("subjects", {}).get(name, {}).items():
                if isinstance(v, int):
                    b[k] = b.get(k, 0) + v
                elif isinstance(v, dict):
                    b.setdefault(k, {}).update(v)
        cov["subjects"][name] = {"b1": d, "b2": b}
        # a subject on which insert never succeeded, or never had an observable effect (no probe ever reported a
        # member: the CriticalBit stub), is vacuous: reported, not counted
        if d.get("inserts_ok", 0) == 0 or d.get("probes_with_members", 0) == 0:
            vacuous.append(name)
            continue
        nontrivial += b.get("behaviours", 0)
        if d.get("refused", 0) or b.get("refusals", 0):
            refusals[name] = d.get("refused", 0) + b.get("refusals", 0)
    nontrivial += s1.get("runs", 0)
    cov["distinct_nontrivial"] = nontrivial
    cov["vacuous_subjects"] = vacuous
    cov["refusals"] = refusals
    cov["exhaustive"] = True
    cov["rule"] = ("B2: every history of insert/remove calls of length L over concrete prefix-structured keys "
                   "(\"\", a, ab, abc, b, \\x00, \\xff\\xff; %s), generated by TLC from MC_ByteSetGen with the result of every step and, "
                   "per abstract state, the expected len / contains / keys() / keys_with_prefix(6 prefixes) / accepts / lookup / "
                   "longest_prefix(7 queries), executed on every subject (trie type x strategy preset x API path); distinct = "
                   "(subject, history) pairs executed (histories with remove only on subjects that offer remove), every one contains a "
                   "mutating call.  B1: seeded random histories per subject over generated universes of 8 and 40 keys (shared "
                   "prefixes, 0x00/0xFF bytes, the empty key, keys of 150-322 bytes), full probe after every mutating call, every event "
                   "validated by TLC against ByteSet.tla.  Builder sweep: every bulk builder (build_from_keys, build_from_sorted / _unsorted / "
                   "new_compact, NestedLoudsTrie::builder().build_from_iter, ParallelLoudsTrie::from_trie, ParallelTrieBuilder with chunk_size "
                   "1, 2, 3, n-1, n, n+1 and 1/2/4 workers; thorough: default chunk size with 10 000 and 10 001 keys) over key lists of 0..13 "
                   "keys, sorted and unsorted with a repeated key, followed by insert / shrink_to_fit / refresh_replicas / merge_tries / clear.  "
                   "exhaustive refers to the B2 history space." %
                   ", ".join("%d keys L=%d" % (nk, L) for _, nk, L in gens))
    if b1files:
        ctx.sample_from_trace(b1files[0], 8)
    if b2files:
        ctx.sample_from_trace(b2files[0], 8)
    ctx.assumptions += [
        "TLC evaluates ByteSet.tla over the recorded events; the harness only calls through and logs (keys are raw byte arrays)",
        "B2 pre-filter compares with TLC-computed values (REPLAY results, TABLE rows) for equality; mismatching histories (up to 4 per "
        "subject and signature = set of (operation, differing component) pairs of the behaviour) and a seeded sample of matching ones are judged by TLC",
        "known findings are consulted only for runs the strict contract rejected and only through the named deviation actions of Known_ByteSet.tla",
        "bounded: histories <= L for B2, seeded random for B1; concurrency of ParallelLoudsTrie is not exercised (one caller)",
    ]


def replay(ctx, path):
    """re-execute the calls stored in a replay file (same subject, same universe, same call sequence, full probe
    after every mutating call) against the current tree and let TLC judge the new trace.  A replay file without
    stored events falls back to re-driving the subject with the stored seed and tier."""
    rep = json.load(open(path))
    ctx.build(BIN)
    subj = rep.get("subject")
    ctx.tier = rep.get("tier", ctx.tier)
    ctx.seed = rep.get("seed", ctx.seed)
    if rep.get("events"):
        s = ctx.harness(BIN, "rerun", "rp", extra={"in": os.path.abspath(path)})
    else:
        s = ctx.harness(BIN, "drive", "rp", subject=subj)
    files = sorted(glob.glob(os.path.join(s["_out"], "*.ndjson")))
    _validate(ctx, files, "replay of " + os.path.basename(path))
    ctx.cov["evaluations"] = max(1, s.get("events", 0))
    ctx.cov["distinct_nontrivial"] = max(2, s.get("runs", 0))
    ctx.cov["rule"] = "replay of one stored run of one subject"
    ctx.sample({"replayed": path})
