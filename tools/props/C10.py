"""C10 — vectors, queues and string vectors match their standard-library models.

spec/Seq.tla (vectors; sequence of element ids + ownership accounting), spec/Deque.tla (FIFO rings,
fixed capacity refusal), spec/StrSeq.tla (string vectors) are the contracts.  MC_Seq / MC_Deque /
MC_StrSeq check their laws on small constants; MC_SeqGen / MC_DequeGen generate every history up to
length L with the content TLC expects after each step (B2); harness bin c10 drives 43 subjects
(type x configuration), one child process per subject; Trace_Seq / Trace_Deque / Trace_StrSeq validate.
"""
import glob
import json
import os
import threading
import concurrent.futures as cf

import vlib

LEVEL = "model_checking"
BIN = "c10"
T_SEQ, T_DQ, T_STR = "Trace_Seq", "Trace_Deque", "Trace_StrSeq"


# ----------------------------------------------------------------------------- corruptions (binding self-tests)

def corrupt_content(run):
    """one element of the content reported after a call is replaced by another value"""
    for i, e in enumerate(run):
        c = (e.get("post") or {}).get("c")
        if c and e.get("op") not in ("clone",) and isinstance(c[0], list) and len(c[0]) == 2:
            c[-1] = [c[-1][0] + 1000, c[-1][1]]
            return i
    return None


def corrupt_dropped_remove(run):
    """an element is taken out of a non-empty dropped list (a destructor call goes unreported = leak)"""
    for i, e in enumerate(run):
        if e.get("dropped") and e.get("op") != "panic":
            e["dropped"] = e["dropped"][1:]
            return i
    return None


def corrupt_dropped_add(run):
    """a live element of the container is added to the dropped list of a call (dropped although still inside)"""
    for i, e in enumerate(run):
        c = (e.get("post") or {}).get("c")
        if c and e.get("op") in ("push", "push_back") and e.get("ok") and isinstance(c[0], list) and len(c[0]) == 2 and c[0][1] > 0:
            e["dropped"] = list(e.get("dropped", [])) + [c[0]]
            return i
    return None


def corrupt_double_drop(run):
    """the element destroyed by one call is reported destroyed again by the next call with a drop log"""
    seen = None
    for i, e in enumerate(run):
        if e.get("op") in ("reset", "panic"):
            continue
        if seen is not None and "dropped" in e:
            e["dropped"] = list(e["dropped"]) + [seen]
            return i
        if seen is None and e.get("dropped"):
            seen = e["dropped"][0]
    return None


def corrupt_view(run):
    """one element of one twin view (as_mut_slice / raw pointer / get_unchecked / iter_mut ...) changed"""
    for i, e in enumerate(run):
        vs = (e.get("post") or {}).get("views") or []
        for v in vs:
            if v and isinstance(v[0], list) and len(v[0]) == 2:
                v[0] = [v[0][0] + 1000, v[0][1]]
                return i
    return None


def corrupt_alt_len(run):
    """a twin of len() (len_usize / is_empty / statistics) disagrees with the content"""
    for i, e in enumerate(run):
        a = (e.get("post") or {}).get("alt_len")
        if a:
            a[-1] = a[-1] + 1
            return i
    return None


def corrupt_field(op, field, fn, cond=None):
    def m(run):
        for i, e in enumerate(run):
            if e.get("op") == op and field in e and (cond is None or cond(e)):
                e[field] = fn(e[field])
                return i
        return None
    return m


def corrupt_post_content_of(op):
    def m(run):
        for i, e in enumerate(run):
            c = (e.get("post") or {}).get("c")
            if e.get("op") == op and e.get("ok", True) and c:
                c[0] = [c[0][0] + 1000, c[0][1]]
                return i
        return None
    return m


def corrupt_str_view(run):
    """a twin of get(i) (get_by_id) shows another string"""
    for i, e in enumerate(run):
        for v in (e.get("post") or {}).get("views") or []:
            for x in v:
                if x:
                    x[0] = (x[0] + 1) % 256
                    return i
    return None


def corrupt_new_empty(run):
    """the sibling vector carved from the same allocator claims to hold an element"""
    for i, e in enumerate(run):
        if e.get("op") == "new_empty" and e.get("ok"):
            e["post"]["len"] = 1
            return i
    return None


def corrupt_read_back(run):
    """the read-back of ANOTHER vector in the same allocator shows a changed element after a push elsewhere"""
    for i, e in enumerate(run):
        c = (e.get("post") or {}).get("c")
        if e.get("op") == "maintenance" and e.get("what") == "read_back" and c:
            c[-1] = [c[-1][0] + 1, 0]
            return i
    return None


def corrupt_full_flag(run):
    for i, e in enumerate(run):
        p = e.get("post") or {}
        if p.get("has_full"):
            p["full"] = not p["full"]
            return i
    return None


def corrupt_pop_result(run):
    for i, e in enumerate(run):
        if e.get("op") in ("pop", "pop_front") and e.get("r"):
            e["r"] = [[e["r"][0][0] + 1, e["r"][0][1]]]
            return i
    return None


def corrupt_refusal_ignored(run):
    """a push that the full fixed-capacity queue refused is reported as accepted"""
    for i, e in enumerate(run):
        if e.get("op") == "push_back" and e.get("ok") is False:
            e["ok"] = True
            return i
    return None


def corrupt_string_byte(run):
    for i, e in enumerate(run):
        c = (e.get("post") or {}).get("c")
        if c and any(len(x) > 0 for x in c):
            for x in c:
                if x:
                    x[0] = (x[0] + 1) % 256
                    return i
    return None


def corrupt_sorted_view(run):
    """two entries of a sorted view are swapped"""
    for i, e in enumerate(run):
        p = e.get("post") or {}
        sv = p.get("sorted")
        if p.get("has_sorted") and sv and len(sv) >= 2 and sv[0] != sv[-1]:
            sv[0], sv[-1] = sv[-1], sv[0]
            return i
    return None



_ST_LOCK = threading.Lock()
_ST_N = [0]


def selftest(ctx, trace_module, path, mutate, what):
    """binding self-test: take the first run of a validated trace file that the mutator can corrupt, corrupt one field
    of one event and validate WITH the known-finding deviations enabled: the trace must be rejected, and rejected at
    exactly the corrupted event (so the rejection is due to the corruption, not to anything else in the run)."""
    evs = vlib.read_ndjson(path)
    for run in vlib.split_runs(evs):
        run = json.loads(json.dumps(run))
        idx = mutate(run)
        if idx is None:
            continue
        with _ST_LOCK:
            _ST_N[0] += 1
            p = os.path.join(ctx.work, "selftest-%d.ndjson" % _ST_N[0])
        vlib.write_ndjson(p, run)
        r = vlib.validate_one(trace_module, p, kf=True)
        ok = (not r["accepted"]) and r["rejected_at"] == idx + 1
        with _ST_LOCK:
            ctx.cov["selftests"].append({"what": what, "trace_spec": trace_module, "rejected_as_expected": ok, "corrupted_line": idx + 1,
                                         "rejected_at": r["rejected_at"], "deviations_enabled": True})
        if not ok:
            raise vlib.ToolError("binding self-test failed: corrupted trace (%s) was not rejected at the corrupted line %d: %s" % (what, idx + 1, r))
        vlib.log("self-test ok: %s (rejected at line %s)" % (what, r["rejected_at"]))
        return True
    raise vlib.ToolError("binding self-test: no run suitable for corruption (%s) in %s" % (what, path))


# ----------------------------------------------------------------------------- TLC stages in parallel

def parallel_tlc(ctx, jobs):
    """run several ctx.tlc_mc / ctx.tlc_generate calls at once.  TLC itself runs in parallel; the bookkeeping
    that follows each run (ctx.cov counters) is serialised: vlib.tlc is wrapped so that a job takes the lock
    when its TLC process has ended and releases it when the ctx method has returned."""
    lock = threading.Lock()
    real = vlib.tlc
    held = threading.local()

    def wrapped(*a, **k):
        r = real(*a, **k)
        lock.acquire()
        held.on = True
        return r

    def run(job):
        held.on = False
        try:
            return job()
        finally:
            if getattr(held, "on", False):
                held.on = False
                lock.release()

    vlib.tlc = wrapped
    try:
        with cf.ThreadPoolExecutor(max_workers=len(jobs)) as ex:
            futs = [ex.submit(run, j) for j in jobs]
            return [f.result() for f in futs]
    finally:
        vlib.tlc = real


def files_of(summary, prefix):
    return sorted(glob.glob(os.path.join(summary["_out"], prefix + "*.ndjson")))


def run(ctx):
    ctx.build(BIN)
    th = ctx.thorough
    w = ctx.work
    gens = {
        # name: (module, cfg, kind for the harness)
        "seq_full": ("MC_SeqGen", "MC_SeqGen4.cfg" if th else "MC_SeqGen.cfg", "seq"),
        "seq_core": ("MC_SeqGen", "MC_SeqGenCore5.cfg" if th else "MC_SeqGenCore.cfg", "seq"),
        "seq_basic": ("MC_SeqGen", "MC_SeqGenBasic.cfg", "seq"),
        "dq_grow": ("MC_DequeGen", "MC_DequeGen_grow7.cfg" if th else "MC_DequeGen_grow.cfg", "dqgrow"),
        "dq_fixed": ("MC_DequeGen", "MC_DequeGen_fixed10.cfg" if th else "MC_DequeGen_fixed.cfg", "dqfixed"),
    }
    jobs = [
        lambda: ctx.tlc_mc("MC_Seq", cfg="MC_Seq7.cfg" if th else "MC_Seq.cfg", workers=4, required_actions=("DoClone", "DoDrop"),
                           note="ownership invariant + laws of the vector contract, 2 objects, len <= 3"),
        lambda: ctx.tlc_mc("MC_Deque", workers=2,
                           note="ownership/capacity invariants + FIFO law of the queue contract, capacities 0(growable),1,2,3"),
        lambda: ctx.tlc_mc("MC_StrSeq", cfg="MC_StrSeq3.cfg" if th else "MC_StrSeq.cfg", workers=4,
                           note="order laws of the byte-wise lexicographic order, sorted view exists and is unique"),
    ]
    for name, (mod, cfg, _k) in gens.items():
        jobs.append(lambda name=name, mod=mod, cfg=cfg: ctx.tlc_generate(mod, cfg=cfg, outfile=os.path.join(w, "beh-%s.ndjson" % name),
                                                                            workers=4 if th else 2, timeout=2400, jvm="-Xmx8g"))
    res = parallel_tlc(ctx, jobs)
    nbeh = {}
    for name, r in zip(gens.keys(), res[3:]):
        nbeh[name] = r[1]
        if r[1] == 0:
            raise vlib.ToolError("generator %s produced no behaviours" % name)

    # --- B2: replay the generated histories on every subject (one child process per subject), and
    # --- B1: seeded random histories + the systematic wrap/grow scenarios; all harness stages at once
    sample = 3000 if th else 500

    def do_replay(name):
        kind = gens[name][2]
        return ctx.harness(BIN, "replay", "b2-" + name, timeout=3000,
                           extra={"kind": kind, "in": os.path.join(w, "beh-%s.ndjson" % name), "sample": sample, "threads": 4,
                                  "per_key": 4 if th else 2, "max_mismatch": 120 if th else 30})

    with cf.ThreadPoolExecutor(max_workers=7) as ex:
        fb1 = ex.submit(lambda: ctx.harness(BIN, "drive", "b1", timeout=3000))
        # recorded witnesses of findings that end the process (C10-KF8): each in a child of its own
        fw = ex.submit(lambda: ctx.harness(BIN, "witness", "witness", extra={"kind": "witness"}))
        fb2 = {name: ex.submit(do_replay, name) for name in gens}
        b1 = fb1.result()
        wit = fw.result()
        b2 = {name: f.result() for name, f in fb2.items()}

    # one file per subject with recorded deviations (a rejection re-validates only that subject), the others in chunks
    merged = os.path.join(w, "merged")
    os.makedirs(merged, exist_ok=True)
    DEV_FAMS = ("advanced", "zo", "fastvec_u64", "fastvec_u8", "fastvec_zst", "valvec32_zst", "cachevec_zst")

    def merge(prefix):
        files = files_of(b1, prefix) + files_of(wit, prefix)
        for s in b2.values():
            files += files_of(s, prefix)
        per_subject, clean = {}, []
        for f in files:
            for run in vlib.split_runs(vlib.read_ndjson(f)):
                subj = run[0].get("subject", "?")
                if subj.split(":")[0] in DEV_FAMS or run[0].get("crash"):
                    per_subject.setdefault(subj, []).extend(run)
                else:
                    clean.append(run)
        out = []
        for subj, evs in sorted(per_subject.items()):
            p = os.path.join(merged, "%s%s.ndjson" % (prefix, "".join(ch if ch.isalnum() else "_" for ch in subj)))
            vlib.write_ndjson(p, evs)
            out.append(p)
        chunk, n, k = [], 0, 0
        for run in clean + [None]:
            if run is None or n + len(run) > 1500:
                if chunk:
                    p = os.path.join(merged, "%schunk%02d.ndjson" % (prefix, k))
                    vlib.write_ndjson(p, chunk)
                    out.append(p)
                    k += 1
                chunk, n = [], 0
            if run is not None:
                chunk.extend(run)
                n += len(run)
        return out

    ctx.validate(T_SEQ, merge("seq-"), what="vector operation history")
    ctx.validate(T_DQ, merge("dq-"), what="queue operation history")
    ctx.validate(T_STR, merge("str-"), what="string vector operation history")

    # --- binding self-tests: corrupted traces must be rejected (at the corrupted event, deviations enabled)
    b1d = b1["_out"]
    fv = os.path.join(b1d, "seq-fastvec_new-0000.ndjson")
    fq = os.path.join(b1d, "dq-autogrow_cap_5-0000.ndjson")
    fs = os.path.join(b1d, "str-sortable_new-0000.ndjson")
    tests = [
        (T_SEQ, fv, corrupt_content, "one element of the reported content (as_slice) changed"),
        (T_SEQ, fv, corrupt_dropped_remove, "one id removed from a dropped-id list (unreported destructor = leak)"),
        (T_SEQ, fv, corrupt_dropped_add, "an element still inside added to a dropped-id list"),
        (T_SEQ, fv, corrupt_double_drop, "an already destroyed id reported destroyed a second time"),
        (T_SEQ, fv, corrupt_pop_result, "value returned by pop changed"),
        (T_DQ, fq, corrupt_content, "one element of the queue content changed"),
        (T_DQ, fq, corrupt_dropped_remove, "one id removed from a dropped-id list of a queue call"),
        (T_DQ, fq, corrupt_pop_result, "value returned by pop_front changed"),
        (T_DQ, os.path.join(b1d, "dq-fixedq_2-0000.ndjson"), corrupt_refusal_ignored,
         "push refused by the full fixed-capacity queue reported as accepted"),
        (T_STR, fs, corrupt_string_byte, "one byte of a stored string changed"),
        (T_STR, fs, corrupt_sorted_view, "two entries of the sorted view swapped"),
        # event kinds / observation fields bound in the coverage round
        (T_SEQ, fv, corrupt_view, "one element of a twin reader's view (as_mut_slice / raw pointer / get_unchecked ...) changed"),
        (T_SEQ, os.path.join(b1d, "seq-valvec32_new-0000.ndjson"), corrupt_alt_len, "a twin of len() (len_usize / is_empty) off by one"),
        (T_SEQ, fv, corrupt_field("resize_with", "xs", lambda xs: xs[1:], lambda e: e.get("xs")), "resize_with: one element the closure produced is not reported"),
        (T_SEQ, fv, corrupt_post_content_of("new_sized"), "with_size: one element of the new vector changed"),
        (T_SEQ, os.path.join(b1d, "seq-fastvec_u64_new-0000.ndjson"), corrupt_field("copy_from", "xs", lambda xs: xs + [[7777, 0]], lambda e: e.get("ok")),
         "copy_from_slice_fast: the source reported differs from what the vector now holds"),
        (T_SEQ, os.path.join(b1d, "seq-mmapvec_cap_1_x2-0000.ndjson"), corrupt_field("compare", "r", lambda r: not r, lambda e: e.get("ok")),
         "compare_range_simd: the answer flipped"),
        (T_SEQ, os.path.join(b1d, "seq-mmapvec_read_only_open-0000.ndjson"), corrupt_post_content_of("adopt"), "MmapVec::open: one element of the reopened content changed"),
        (T_SEQ, os.path.join(b1d, "seq-bumpvec_cap_6-0000.ndjson"), corrupt_new_empty, "second BumpVec in the same allocator: reported non-empty at birth"),
        (T_SEQ, os.path.join(b1d, "seq-bumpvec_mixed_one_allocator-0000.ndjson"), corrupt_read_back,
         "vectors of different element types in one BumpAllocator: a neighbour's element changed by a push elsewhere"),
        (T_DQ, os.path.join(b1d, "dq-fixedq_3-0000.ndjson"), corrupt_full_flag, "is_full() flipped"),
        (T_DQ, fq, corrupt_alt_len, "a twin of len() of a queue (is_empty / performance_stats) off by one"),
        (T_STR, os.path.join(b1d, "str-fixedlen_64-0000.ndjson"), corrupt_field("count_prefix", "r", lambda r: r + 1), "count_prefix off by one"),
        (T_STR, os.path.join(b1d, "str-zo_from_sorted-0000.ndjson"), corrupt_field("range", "r", lambda r: r[1:], lambda e: len(e.get("r", [])) > 0),
         "range(): the first string of the answer missing"),
        (T_STR, os.path.join(b1d, "str-bitpacked32_new-0000.ndjson"), corrupt_field("extend", "r", lambda r: [r[0] + 1] + r[1:], lambda e: e.get("r")),
         "extend(): a returned index off by one"),
        (T_STR, fs, corrupt_str_view, "get_by_id: one byte of one string differs from get()"),
    ]
    def crash_selftest():
        """a child process that dies by a signal must surface as a `crash` event that the contract rejects"""
        s = ctx.harness(BIN, "drive", "selftest-crash", subject="fixedq:1", extra={"test_crash": "fixedq:1"})
        cf_ = (s.get("subjects", {}).get("fixedq:1", {}) or {}).get("crash_files") or []
        ok = False
        at = None
        if s.get("crashes") == 1 and cf_:
            r = vlib.validate_one(T_DQ, cf_[0], kf=True)
            at = r["rejected_at"]
            ok = (not r["accepted"]) and isinstance(r.get("event"), dict) and r["event"].get("op") == "crash"
        with _ST_LOCK:
            ctx.cov["selftests"].append({"what": "child process killed by a signal (abort) -> crash event -> rejected", "trace_spec": T_DQ,
                                         "rejected_as_expected": ok, "rejected_at": at, "deviations_enabled": True})
        if not ok:
            raise vlib.ToolError("binding self-test failed: a crashed child was not reported/rejected: %s" % json.dumps(s.get("subjects"))[:400])
        vlib.log("self-test ok: crashed child process reported as a crash event and rejected")

    with cf.ThreadPoolExecutor(max_workers=6) as ex:
        futs = [ex.submit(selftest, ctx, *t) for t in tests] + [ex.submit(crash_selftest)]
        errs = []
        for f in futs:
            try:
                f.result()
            except vlib.ToolError as e:
                errs.append(str(e))
        if errs:
            raise vlib.ToolError("; ".join(errs))

    # --- evidence
    cov = ctx.cov
    cov["b1_events"] = b1.get("events", 0)
    cov["b1_runs"] = b1.get("runs", 0)
    cov["b2_behaviours_generated"] = nbeh
    cov["b2_executions"] = {n: s.get("executions", 0) for n, s in b2.items()}
    cov["crashes"] = b1.get("crashes", 0) + sum(s.get("crashes", 0) for s in b2.values())
    cov["witnesses"] = {n: ("process ended: %s" % json.dumps(d.get("crash")) if d.get("crash") else "did not end the process (finding no longer reproduces)")
                        for n, d in wit.get("subjects", {}).items()}
    cov["evaluations"] = b1.get("events", 0) + sum(s.get("events", 0) + s.get("executions", 0) for s in b2.values())
    subjects = {}
    nontrivial = 0
    vacuous = []
    unjudged = {}
    for name, d in b1.get("subjects", {}).items():
        ent = {"b1": {k: d.get(k) for k in ("events", "runs", "nontrivial_runs", "panics", "refused", "ops", "crash") if k in d}}
        nb = 0
        for g, s in b2.items():
            x = s.get("subjects", {}).get(name)
            if x:
                ent["b2_" + g] = {k: x.get(k) for k in ("behaviours", "nontrivial", "unsupported", "mismatching", "mismatch_traces_written", "refused", "mismatch_kinds", "crash") if k in x}
                nb += x.get("nontrivial", 0)
                for kind, kk in (x.get("mismatch_kinds") or {}).items():
                    if kk.get("judged", 0) == 0:
                        unjudged.setdefault(name, []).append(kind)
        subjects[name] = ent
        # distinct non-trivial cases: (subject, history) pairs executed in B2 in which some step changes the content TLC
        # expects + (subject, run) pairs of B1 in which the container held at least one element at some point
        nontrivial += nb + (d.get("nontrivial_runs") or 0)
        ops = d.get("ops") or {}
        mutating = sum(v for k, v in ops.items() if k not in ("find", "bsearch", "maintenance", "reserve", "shrink"))
        if (d.get("events") or 0) == 0 or (mutating == 0 and not name.startswith("zo:")) or ((d.get("runs") or 0) > 0 and (d.get("panics") or 0) >= (d.get("runs") or 0)):
            # nothing recorded, no mutating call, or every run ended in a panic (cachevec_zst while C10-KF11 is open)
            vacuous.append(name)
    cov["subjects"] = subjects
    cov["distinct_nontrivial"] = nontrivial
    cov["vacuous_subjects"] = vacuous
    cov["mismatch_kinds_not_judged"] = unjudged
    cov["exhaustive"] = True
    cov["rule"] = (
        "B2 (exhaustive part): every history of L operations from the empty container generated by TLC from MC_SeqGen "
        "(full alphabet push/pop/insert(i)/remove(i)/set(i)/resize(n)/extend by move/extend by clone/clear/truncate(n)/shrink/clone with "
        "vector length <= 4, L=%s; core alphabet push/pop/insert/remove/clear/clone, L=%s; push/pop/clear, L=8) and MC_DequeGen (growable: "
        "push_back/pop_front/push_bulk(2)/pop_bulk(2)/reserve/clear/clone, L=%s; fixed capacities 1,2,4: push_back/pop_front/clear, L=%s), each step "
        "annotated with the success flag, returned value, content of every object and number of live elements that the specification computed; "
        "each history is executed on every subject offering all its operations (growable queues: initial capacities 1..8) with drop-counting heap "
        "elements and compared for equality; a seeded sample and, for every distinct kind of difference (set of (operation, what differed)), up to "
        "%s differing histories per subject are judged by TLC (Trace_Seq/Trace_Deque).  B1: seeded random histories per subject (vectors up to 40 "
        "elements so that every reallocation and the 64-byte SIMD paths are crossed; queues with clone/bulk/reserve) and, for AutoGrowCircularQueue, "
        "growth forced by push_back/push_bulk/reserve/clone at every head offset of the ring (fill level capacity-1 / capacity-2: both in thorough, "
        "alternating in quick; quick runs these scenarios for the initial capacities that are not rounded up: 1, 2, 4 (new and cap_4), 8); every B1 event is "
        "validated by TLC.  "
        "distinct_nontrivial = (subject, history) pairs executed in which at least one step changes the expected content (histories that only pop/clear "
        "an empty container are executed but not counted) + (subject, B1 run) pairs in which the container held an element at some point; pairs are "
        "distinct by construction (each history is generated once, each run has its own derived seed).  "
        "Coverage round: every subject also shows its content through every twin reader it offers (as_mut_slice, iter_mut, IntoIterator, Index "
        "by usize/u32, get_mut, get_unchecked(_mut), as_ptr/as_mut_ptr, get_by_id) and its length / capacity through their twins (len_usize, is_empty, "
        "is_full, stats(), performance_stats()); B1 additionally drives push_panic / unchecked_push(_copy) / push() / pop() aliases, writes through "
        "get_mut / as_mut_slice / iter_mut / index_mut, resize_with, with_size, ensure_capacity, copy_from_slice_fast, extend_from_slice_copy, push_n_copy "
        "(0,1,3,15,16,17,33 copies: both sides of the 16-element strategy switch), compare_range_simd, MmapVec::open (sync + reopen; a file opened read-only), "
        "a second BumpVec in the same allocator, 3-6 BumpVecs of different element types (u8, u16, u32, u64, u128, (u8,u64)) carved from one allocator in varying "
        "order with odd capacities 1/3/5/7, pushes interleaved and EVERY vector read back after every mutation of any of them, count_prefix, range, BitPacked extend, SortableStrVec::from_iter; configurations: capacities 0/1/2/3 for every "
        "vector, MmapVec initial capacity 0..3 x growth 1.0/1.1/1.25/1.5/1.618/2.0 and every preset (large_dataset, performance/memory_optimized, realtime, "
        "persistent_cache, read_only, builder flags, with_capacity_simd), BitPacked / AdvancedString presets, fixed queues N = 1..8, 16 with the head rotated "
        "to every residue and filled across the wrap, AutoGrow initial capacity 0..8; input classes: one-byte elements up to 170 (64-byte fast_fill paths of "
        "resize / fill_range_fast), u64 vectors beyond 8 and 16 elements (SIMD / prefetch thresholds), zero-sized elements (FastVec, ValVec32, "
        "CacheAlignedVec, both queues), strings of 2^20-1 .. 2^20+5 and 2^24-1 / 2^24+3 bytes (20- and 24-bit length fields; shown as digests), 254..257 "
        "bytes (8-bit length of FixedLenStrVec), strings sharing 8/16/32-byte stems, the overlap family on every string subject (prefixes / suffixes / "
        "infixes of earlier strings at positions 0, 1, 3, 4, len-k; strings starting at a later occurrence of an earlier string's own 3/4/8-byte stem; "
        "shared 3/4/8-byte stems; the same string again after unrelated ones; strings spanning two consecutive earlier strings), batches of 33..700 strings (radix buckets from 32, blocked binary "
        "search from 513, 256-bit rank/select blocks of ZoSortedStrVec).  "
        "exhaustive refers to the B2 history spaces." % (("4", "5", "7", "10", "4") if th else ("3", "4", "5", "8", "2")))
    for f in (fv, fq, fs):
        if os.path.exists(f):
            ctx.sample_from_trace(f, 6)
    for name in ("seq_full", "dq_grow"):
        p = os.path.join(w, "beh-%s.ndjson" % name)
        try:
            with open(p) as fh:
                lines = fh.readlines()
            ctx.sample({"tlc_generated_history": name, "index": len(lines) // 2, "steps": json.loads(lines[len(lines) // 2])})
        except Exception:
            pass
    ctx.assumptions += [
        "TLC evaluates Seq.tla / Deque.tla / StrSeq.tla over the recorded events; the harness only projects (element = value + instance id, "
        "drop log, lengths) and compares B2 results for equality with TLC-computed values",
        "element types: drop-counting heap boxes (unique instance ids, destructor never frees twice, a drop of a dead or unknown element is recorded) "
        "for FastVec, ValVec32, CacheAlignedVec, BumpVec, PooledVec and all queues; MmapVec and the Copy-only bulk operations of FastVec "
        "(fill_range_fast, extend_from_slice_fast) only accept Copy types: plain u64 there, no drop accounting (acct = false in those runs)",
        "the content of a queue is observed through its Debug formatter (the only non-destructive full view), front(), back(), len(), capacity()",
        "B2 pre-filter: differing histories beyond the per-kind cap are counted (mismatch_kinds), not judged; kinds with no judged history are "
        "listed in mismatch_kinds_not_judged",
        "C10-KF8 (process abort in FastVec::ensure_capacity / copy_from_slice_fast) cannot be modelled: the random drivers stay out of its trigger "
        "region (requests below the length; sources shorter than the vector) and the recorded witness is executed in a child of its own on every run",
        "API audit: statistics / memory reports (stats, memory_info, memory_usage, compression_ratio, memory_savings_vs_vec_string, utilization ...), "
        "hardware / type descriptions (has_hardware_acceleration, offset_type_info, numa_node), the NUMA pool and BumpAllocator allocation API "
        "(numa_alloc_aligned, alloc_bytes, alloc_slice ... - allocator properties, not the sequence a vector holds) and the unimplemented stubs "
        "ZoSortedStrVec::from_mmap / save_to_file are not bound",
        "src/containers/specialized/circular_queue_ultrafast.rs is not bound: it is not part of the crate's module tree and does not compile "
        "(unstable core_intrinsics, ZiporaError::memory_error does not exist); by reading, its grow_buffer never relocates the wrapped part",
        "every subject runs in its own child process; a crash (signal / non-zero exit / timeout) is logged as a `crash` event, which the contracts reject",
        "bounded: histories <= L for B2, seeded random for B1; strings <= 40 bytes; one trace may hold up to 3 objects (clone-then-diverge)",
    ]


def replay(ctx, path):
    """re-execute the subject of a replay file against the current tree and validate again"""
    rep = json.load(open(path))
    ctx.build(BIN)
    subj = rep.get("subject")
    reset = rep.get("reset", {})
    ctx.tier = rep.get("tier", ctx.tier)
    ctx.seed = rep.get("seed", ctx.seed)
    dom = reset.get("domain", "seq")
    trace = {"seq": T_SEQ, "deque": T_DQ, "strseq": T_STR}.get(dom, T_SEQ)
    if reset.get("b2"):
        # the behaviour that was rejected is stored in the replay file as events; regenerate the matching generator output
        th = ctx.tier == "thorough"
        if dom == "seq":
            cands = [("MC_SeqGen", "MC_SeqGen4.cfg" if th else "MC_SeqGen.cfg"), ("MC_SeqGen", "MC_SeqGenCore5.cfg" if th else "MC_SeqGenCore.cfg"),
                     ("MC_SeqGen", "MC_SeqGenBasic.cfg")]
            kind = "seq"
        elif reset.get("fixedcap", 0) > 0:
            cands = [("MC_DequeGen", "MC_DequeGen_fixed10.cfg" if th else "MC_DequeGen_fixed.cfg")]
            kind = "dqfixed"
        else:
            cands = [("MC_DequeGen", "MC_DequeGen_grow7.cfg" if th else "MC_DequeGen_grow.cfg")]
            kind = "dqgrow"
        files = []
        ev = 0
        for i, (mod, cfg) in enumerate(cands):
            beh, _ = ctx.tlc_generate(mod, cfg=cfg, outfile=os.path.join(ctx.work, "beh-rp%d.ndjson" % i), timeout=2400, jvm="-Xmx8g")
            s = ctx.harness(BIN, "replay", "rp%d" % i, extra={"kind": kind, "in": beh, "sample": 1000000, "per_key": 6, "max_mismatch": 200}, subject=subj)
            files += sorted(glob.glob(os.path.join(s["_out"], "*.ndjson")))
            ev += s.get("events", 0)
    else:
        s = ctx.harness(BIN, "drive", "rp", subject=subj)
        files = sorted(glob.glob(os.path.join(s["_out"], "*.ndjson")))
        ev = s.get("events", 0)
    ctx.validate(trace, files, what="replay of " + os.path.basename(path))
    ctx.cov["evaluations"] = ev
    ctx.cov["distinct_nontrivial"] = max(2, len(files))
    ctx.cov["rule"] = "replay of one subject (all its runs of the tier/seed stored in the replay file)"
    ctx.sample({"replayed": path})
