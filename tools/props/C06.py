"""C06 — hash maps behave as maps for every operation history and hasher.

spec/Map.tla is the contract; MC_Map checks its laws exhaustively for 4 keys x 3 values;
MC_MapGen generates every mutating history of length L (B2) with TLC-computed results;
harness bin c06 drives ~50 subjects (type x config x hash profile); Trace_Map validates.
"""
import concurrent.futures as cf
import glob
import json
import os

import vlib

LEVEL = "model_checking"
BIN = "c06"
TRACE = "Trace_Map"


def corrupt_insert_result(run):
    """flip the 'previous value' of the first insert over an existing key, or a get result"""
    for e in run:
        if e.get("op") in ("get", "insert", "remove") and e.get("ok", True) and e.get("r"):
            e["r"] = [e["r"][0] + 1]
            return run
    return None


def corrupt_len(run):
    for e in run:
        if e.get("op") == "len":
            e["r"] = e["r"] + 1
            return run
    return None


# ---- corruptions of the event kinds of the coverage round.  Each one is chosen so that the contract MUST
# reject the run whatever the state of the map is (a wrong result of a read, or an extra key 888888 that no
# run uses and that the final len() of the run exposes).
BOGUS = 888888


def _first(run, pred):
    for i, e in enumerate(run):
        if pred(e):
            return i
    return None


def corrupt_is_empty(run):
    i = _first(run, lambda e: e.get("op") == "is_empty")
    if i is None:
        return None
    run[i]["r"] = not run[i]["r"]
    return run


def corrupt_probe_empty(run):
    i = _first(run, lambda e: e.get("op") == "probe" and "empty" in e)
    if i is None:
        return None
    run[i]["empty"] = not run[i]["empty"]
    return run


def corrupt_iter_fast(run):
    """an entry too many while nothing has been deleted yet (fast iteration must be exact then)"""
    for i, e in enumerate(run):
        if e.get("op") == "remove" and e.get("r"):
            return None
        if e.get("op") == "iter_fast" and e.get("r"):
            e["r"] = e["r"] + [[BOGUS, 1]]
            return run
    return None


def corrupt_iter_fast_lost(run):
    """fast iteration loses the entry written by the insert just before it"""
    for i, e in enumerate(run):
        if e.get("op") == "iter_fast" and i > 0 and run[i - 1].get("op") == "insert" and run[i - 1].get("ok") and [run[i - 1]["k"], run[i - 1]["v"]] in e["r"]:
            e["r"] = [p for p in e["r"] if p != [run[i - 1]["k"], run[i - 1]["v"]]]
            return run
    return None


def _needs_final_len(run):
    return run and run[-1].get("op") in ("len", "iter") and any(e.get("op") == "len" for e in run[-2:])


def corrupt_insert_batch(run):
    i = _first(run, lambda e: e.get("op") == "insert_batch" and e.get("ok"))
    if i is None or not _needs_final_len(run) or any(e.get("op") == "panic" for e in run):
        return None
    run[i]["kv"] = run[i]["kv"] + [[BOGUS, 1]]
    return run


def corrupt_extend(run):
    i = _first(run, lambda e: e.get("op") == "extend")
    if i is None or not _needs_final_len(run) or any(e.get("op") in ("panic", "clear") for e in run[i:]) or any(e.get("op") == "retain" for e in run[i:]):
        return None
    run[i]["kv"] = run[i]["kv"] + [[BOGUS, 1]]
    return run


def corrupt_get_batch(run):
    i = _first(run, lambda e: e.get("op") == "get_batch" and e.get("r"))
    if i is None:
        return None
    run[i]["r"][0] = [] if run[i]["r"][0] else [1]
    return run


def corrupt_get_or_default(run):
    i = _first(run, lambda e: e.get("op") == "get_or_default")
    if i is None:
        return None
    run[i]["r"] += 1
    return run


def corrupt_get_or_insert(run):
    i = _first(run, lambda e: e.get("op") == "get_or_insert" and e.get("ok"))
    if i is None:
        return None
    run[i]["r"] += 1
    return run


def corrupt_get_or_insert_called(run):
    i = _first(run, lambda e: e.get("op") == "get_or_insert" and e.get("ok") and e.get("called"))
    if i is None:
        return None
    run[i]["called"] = [not run[i]["called"][0]]
    return run


def corrupt_retain_seen(run):
    i = _first(run, lambda e: e.get("op") == "retain")
    if i is None:
        return None
    run[i]["seen"] = run[i]["seen"] + [[BOGUS, 1]]
    return run


def corrupt_retain_kept(run):
    """retain(keep none) reported as retain(keep all): a later read of the run must expose it"""
    for i, e in enumerate(run):
        if e.get("op") == "retain" and e.get("pk") == "all" and e.get("seen") and not e.get("mut"):
            nxt = run[i + 1:]
            if any(x.get("op") == "len" for x in nxt[:40]) and not any(x.get("op") == "panic" for x in run):
                e["pk"] = "none"
                return run
    return None


def corrupt_keys(run):
    i = _first(run, lambda e: e.get("op") == "keys")
    if i is None:
        return None
    run[i]["r"] = run[i]["r"] + [BOGUS]
    return run


def corrupt_values(run):
    i = _first(run, lambda e: e.get("op") == "values" and e.get("r"))
    if i is None:
        return None
    run[i]["r"][0] += 1
    return run


def corrupt_clone(run):
    i = _first(run, lambda e: e.get("op") == "clone")
    if i is None:
        return None
    run[i]["eq"] = [False]
    return run


def corrupt_twin(via):
    def f(run):
        i = _first(run, lambda e: e.get("via") == via and e.get("op") in ("get", "insert") and e.get("ok", True))
        if i is None:
            return None
        run[i]["r"] = [] if run[i]["r"] else [1]
        return run
    return f


def corrupt_contains_twin(run):
    i = _first(run, lambda e: e.get("via") == "is_interned")
    if i is None:
        return None
    run[i]["r"] = not run[i]["r"]
    return run


# (corruption, what, immediate): immediate = the corrupted event itself must be the rejected line
NEW_SELFTESTS = [
    (corrupt_is_empty, "is_empty() result flipped", True),
    (corrupt_probe_empty, "is_empty() inside a probe flipped", True),
    (corrupt_iter_fast, "iter_fast() yields an extra entry although nothing was deleted", True),
    (corrupt_iter_fast_lost, "iter_fast() loses the entry just inserted", True),
    (corrupt_insert_batch, "insert_batch() stores a pair that was not in the batch", False),
    (corrupt_extend, "extend() stores a pair that was not given", False),
    (corrupt_get_batch, "get_batch() answer of the first key flipped", True),
    (corrupt_get_or_default, "get_or_default() result changed by +1", True),
    (corrupt_get_or_insert, "value seen through get_or_insert() changed by +1", True),
    (corrupt_get_or_insert_called, "get_or_insert_with(): closure-called flag flipped", True),
    (corrupt_retain_seen, "retain() shows its predicate an entry that is not in the map", True),
    (corrupt_retain_kept, "retain() drops entries its predicate kept", False),
    (corrupt_keys, "keys() yields an extra key", True),
    (corrupt_values, "values() yields a changed value", True),
    (corrupt_clone, "clone() == original is false", True),
    (corrupt_twin("get_fast"), "SmallMap<u8>::get_fast answer flipped", True),
    (corrupt_twin("get_by_fast_str"), "HashStrMap::get_by_fast_str answer flipped", True),
    (corrupt_twin("insert_string"), "HashStrMap::insert_string previous value flipped", True),
    (corrupt_twin("insert_fast_str"), "HashStrMap::insert_fast_str previous value flipped", True),
    (corrupt_contains_twin, "HashStrMap::is_interned answer flipped", True),
]


def _kf_free(run):
    """no event of the run can trigger a recorded known finding (the self-tests run the strict contract)"""
    for e in run:
        if e.get("op") == "panic" or (e.get("op") == "retain" and e.get("mut")) or (e.get("op") == "clone" and not e.get("eq")) \
                or (e.get("via") == "get_fast" and e.get("k") == 0):
            return False
    return True


def parallel_selftests(ctx, files, tests):
    """binding self-tests of the new event kinds: like ctx.selftest_corrupt (first run a corruption applies to,
    corrupted copy must be REJECTED), but the TLC runs go in parallel.  For an immediate corruption the run is
    cut after the corrupted event and exactly that line must be the rejected one."""
    todo = list(tests)
    jobs = []
    for path in files:
        if not todo:
            break
        runs = vlib.split_runs(vlib.read_ndjson(path))
        for t in list(todo):
            mutate, what, immediate = t
            for run in runs:
                mutated = mutate([json.loads(json.dumps(e)) for e in run])
                if mutated is None:
                    continue
                expect = None
                if immediate:
                    at = [i for i, (x, y) in enumerate(zip(run, mutated)) if x != y][0]
                    mutated = mutated[:at + 1]
                    expect = at + 1
                    if not _kf_free(run[:at]):
                        continue
                elif not _kf_free(run):
                    continue
                p = os.path.join(ctx.work, "selftest-x%d.ndjson" % len(jobs))
                vlib.write_ndjson(p, mutated)
                jobs.append((p, what, expect))
                todo.remove(t)
                break
    if todo:
        raise vlib.ToolError("binding self-test: no run suitable for corruption (%s)" % "; ".join(t[1] for t in todo))
    with cf.ThreadPoolExecutor(max_workers=ctx.jobs) as ex:
        results = list(ex.map(lambda j: vlib.validate_one(TRACE, j[0]), jobs))
    for (p, what, expect), r in zip(jobs, results):
        ok = (not r["accepted"]) and r["rejected_at"] is not None and (expect is None or r["rejected_at"] == expect)
        ctx.cov["selftests"].append({"what": what, "rejected_as_expected": ok, "at": r["rejected_at"]})
        if not ok:
            raise vlib.ToolError("binding self-test failed: corrupted trace (%s) was not rejected where expected (%s): %s" % (what, expect, r))
    vlib.log("self-tests ok: %d corruptions of the coverage-round event kinds all rejected" % len(jobs))


def run(ctx):
    ctx.build(BIN)
    # --- the contract itself, exhaustively for small constants
    ctx.tlc_mc("MC_Map", required_actions=(), note="laws of the Map contract, 4 keys x 3 values")
    ctx.tlc_mc("MC_Map", cfg="MC_MapX.cfg", workers=2, note="laws of the operations outside the property's list: a batch equals its insertions in order, retain only removes, get_or_insert")
    # --- mechanism model of ZiporaHashMap's standard storage (hash field = occupancy marker, tombstones):
    # the pinned code violates the contract (fixes b7b7e6f, 5f372e4, 222dea6), the repaired code refines it
    alt = "GetAgrees|InsertReturnAgrees|LenAgrees|IterAgrees"
    ctx.tlc_mc("MC_OpenAddr", cfg="MC_OpenAddr_pinned_zero.cfg", expect=alt, workers=2, note="pinned: a key whose hash is 0 is lost")
    ctx.tlc_mc("MC_OpenAddr", cfg="MC_OpenAddr_pinned_max.cfg", expect=alt, workers=2, note="pinned: a key whose hash is u64::MAX looks like a tombstone")
    ctx.tlc_mc("MC_OpenAddr", cfg="MC_OpenAddr_pinned_collide_dup.cfg", expect="InsertReturnAgrees|LenAgrees", workers=2, note="pinned: insert into the first tombstone duplicates a key stored behind it")
    ctx.tlc_mc("MC_OpenAddr", cfg="MC_OpenAddr_pinned_ident.cfg", expect=alt, workers=2, note="pinned: iteration yields tombstoned entries")
    for prof in ("ident", "zero", "max", "collide"):
        ctx.tlc_mc("MC_OpenAddr", cfg="MC_OpenAddr_fixed_%s.cfg" % prof, workers=2, note="repaired standard storage refines Map, hash profile " + prof)
    # --- B2: all mutating histories of length L, expected results computed by TLC
    gen_cfg = "MC_MapGen5.cfg" if ctx.thorough else "MC_MapGen.cfg"
    beh, nbeh = ctx.tlc_generate("MC_MapGen", cfg=gen_cfg, timeout=1500, jvm="-Xmx8g")
    if nbeh == 0:
        raise vlib.ToolError("MC_MapGen produced no behaviours")
    s2 = ctx.harness(BIN, "replay", "b2", extra={"in": beh, "keys": 3, "sample": 4000 if ctx.thorough else 300})
    # --- B1: seeded random histories
    s1 = ctx.harness(BIN, "drive", "b1")
    files = sorted(glob.glob(os.path.join(s1["_out"], "*.ndjson"))) + sorted(glob.glob(os.path.join(s2["_out"], "*.ndjson")))
    ctx.validate(TRACE, files, what="map operation history")
    # --- binding self-test: a corrupted result must be rejected
    b1files = sorted(glob.glob(os.path.join(s1["_out"], "*.ndjson")))
    ctx.selftest_corrupt(TRACE, b1files[0], corrupt_insert_result, "returned value of a get/insert/remove changed by +1")
    ctx.selftest_corrupt(TRACE, b1files[0], corrupt_len, "len() result changed by +1")
    parallel_selftests(ctx, b1files, NEW_SELFTESTS)
    # --- evidence
    cov = ctx.cov
    cov["evaluations"] = s1.get("events", 0) + s2.get("events", 0) + s2.get("executions", 0)
    cov["b2_behaviours"] = nbeh
    cov["b2_executions"] = s2.get("executions", 0)
    cov["b1_events"] = s1.get("events", 0)
    cov["b1_runs"] = s1.get("runs", 0)
    cov["b1_scenario_runs"] = sum(d.get("scenario_runs", 0) for d in s1.get("subjects", {}).values())
    cov["subjects"] = {}
    nontrivial = 0
    vacuous = []
    for name, d in s1.get("subjects", {}).items():
        b = s2.get("subjects", {}).get(name, {})
        cov["subjects"][name] = {"b1": d, "b2": b}
        # distinct non-trivial cases: (subject, behaviour) pairs actually executed + (subject, run) of B1
        nontrivial += b.get("behaviours", 0)
        if d.get("events", 0) == 0 and b.get("behaviours", 0) == 0:
            vacuous.append(name)
    nontrivial += s1.get("runs", 0)
    cov["distinct_nontrivial"] = nontrivial
    cov["vacuous_subjects"] = vacuous
    cov["exhaustive"] = True
    cov["rule"] = ("B2: every history of mutating operations (insert/remove/get_mut/clear) of length %s over 3 keys x 2 values, "
                   "generated by TLC from MC_MapGen with the expected result and abstract state of every step, executed on every "
                   "subject (map type x config preset x hash profile); distinct = (subject, history) pairs executed, all contain at "
                   "least one mutating call.  B1: seeded random histories per subject over key universes 4/12/40/1500, every event "
                   "validated by TLC against Map.tla; scripted histories per subject (fill through every growth trigger of the "
                   "storages with a probe one below / at / one above, delete everything and refill, sliding window of "
                   "delete+insert at the triggers, a 39-entry chain of deleted slots in front of a live key then reinsertion), "
                   "maintenance calls (reserve, shrink_to_fit, revoke_deleted, clone, set_*) injected between the steps of both.  "
                   "exhaustive refers to the B2 history space (subjects marked light take every 4th history)." % ("5" if ctx.thorough else "4"))
    if b1files:
        ctx.sample_from_trace(b1files[0], 10)
    b2files = sorted(glob.glob(os.path.join(s2["_out"], "*.ndjson")))
    if b2files:
        ctx.sample_from_trace(b2files[0], 9)
    ctx.assumptions += [
        "TLC evaluates Map.tla over the recorded events; the harness only projects (keys are ids, values u32)",
        "B2 pre-filter compares with TLC-computed values for equality; every mismatching history (up to 150 per subject) and a seeded sample of matching ones is judged by TLC",
        "bounded: histories <= L for B2, seeded random for B1",
    ]


def replay(ctx, path):
    """re-execute the subject/seed of a replay file against the current tree and validate again"""
    rep = json.load(open(path))
    ctx.build(BIN)
    subj = rep.get("subject")
    reset = rep.get("reset", {})
    ctx.tier = rep.get("tier", ctx.tier)
    ctx.seed = rep.get("seed", ctx.seed)
    if reset.get("b2"):
        gen_cfg = "MC_MapGen5.cfg" if ctx.tier == "thorough" else "MC_MapGen.cfg"
        beh, _ = ctx.tlc_generate("MC_MapGen", cfg=gen_cfg, timeout=1500, jvm="-Xmx8g")
        s = ctx.harness(BIN, "replay", "rp", extra={"in": beh, "keys": 3, "sample": 1000000}, subject=subj)
    else:
        s = ctx.harness(BIN, "drive", "rp", subject=subj)
    files = sorted(glob.glob(os.path.join(s["_out"], "*.ndjson")))
    ctx.validate(TRACE, files, what="replay of " + os.path.basename(path))
    ctx.cov["evaluations"] = s.get("events", 0)
    ctx.cov["distinct_nontrivial"] = s.get("runs", 0)
    ctx.cov["rule"] = "replay of one subject"
    ctx.sample({"replayed": path})
