"""C02 — compressor layer and PA-Zip round-trip whatever algorithm is chosen.

spec/CompressorFraming.tla is the contract (Compress / Decompress / Switch / Train on opaque payload and frame
digests); spec/PaZipStream.tla is an executable semantics of the PA-Zip match stream (Apply with overlapping
copies, operand ranges, the bit-packed layout of encode_match/decode_match and the byte layout written by
apply_compression_strategy).  MC_PaZipStream checks the laws of that semantics (and that the codec model with the
loop condition of the pinned code violates the round-trip law); MC_PaZipStreamGen generates match sequences at
the minimum / maximum / +-1 of every field with everything the specification computes about them (B2); harness
bin c02 drives ~190 subjects (factory algorithms x training corpora, adaptive, real-time, SIMD LZ77, PA-Zip
presets x dictionaries, FSE layer) over the payload families; Trace_Compressor validates every event.
"""
import glob
import json
import os

import vlib

LEVEL = "exploration"
BIN = "c02"
TRACE = "Trace_Compressor"


def corrupt_digest(run):
    """the digest of a decompressed payload changed by one"""
    for e in run:
        if e.get("op") == "decompress" and e.get("ok") and e["y"]["len"] > 0:
            e["y"] = {"len": e["y"]["len"], "h": [e["y"]["h"][0], (e["y"]["h"][1] + 1) % (1 << 30)]}
            return run
    return None


def corrupt_length(run):
    """the length of a decompressed payload changed by one"""
    for e in run:
        if e.get("op") == "decompress" and e.get("ok") and e["y"]["len"] > 1:
            e["y"] = {"len": e["y"]["len"] - 1, "h": e["y"]["h"]}
            return run
    return None


def corrupt_refusal(run):
    """a successful decompression of a current frame turned into a refusal"""
    for e in run:
        if e.get("op") == "decompress" and e.get("ok") and e.get("via") != "stale":
            e["ok"] = False
            e["y"] = {"len": 0, "h": [0, 0]}
            return run
    return None


def corrupt_match_field(run):
    """a decoded match operand changed by one"""
    for e in run:
        if e.get("op") == "codec" and e.get("enc_ok") and e.get("dec_ok") and e.get("dec"):
            e["dec"][-1]["len"] = e["dec"][-1]["len"] + 1
            return run
    return None


def corrupt_bits(run):
    """bits consumed by the decoder changed by one"""
    for e in run:
        if e.get("op") == "codec" and e.get("enc_ok") and e.get("dec_ok"):
            e["bits_in"] = e["bits_in"] + 1
            return run
    return None


def corrupt_apply(run):
    """one byte of an interpreter's output changed"""
    for e in run:
        if e.get("op") == "apply" and e.get("ok") and e["out"]["len"] > 0:
            e["out"]["tail"][-1] = (e["out"]["tail"][-1] + 1) % 256
            return run
    return None


def corrupt_bits_read(run):
    """a value read back from the bit stream changed by one"""
    for e in run:
        if e.get("op") == "bits" and e.get("ok") and e.get("rd"):
            e["rd"][-1] = e["rd"][-1] ^ 1
            return run
    return None


def corrupt_ctor(run):
    """an operand of a constructed match changed by one"""
    for e in run:
        if e.get("op") == "ctor" and e.get("ok"):
            e["got"] = dict(e["got"], len=e["got"]["len"] + 1)
            return run
    return None


def corrupt_choose(run):
    """the two twin selectors disagree"""
    for e in run:
        if e.get("op") == "choose" and e.get("k_ref") == "far1s":
            e["k_meta"] = "far2s"
            return run
    return None


def corrupt_refenc(run):
    """one byte of a reference-encoded match changed"""
    for e in run:
        if e.get("op") == "refenc" and e.get("ok") and e.get("kind") == "far2s" and 258 <= e["d"] <= 65793 and 2 <= e["len"] <= 33:
            e["bytes"][1] = (e["bytes"][1] + 1) % 256
            return run
    return None


def corrupt_refrec(run):
    """one literal byte of a reference-encoded record changed"""
    for e in run:
        if e.get("op") == "refrec" and e.get("ok") and len(e["frame"]) > 3:
            e["frame"][-1] = (e["frame"][-1] + 1) % 256
            return run
    return None


def corrupt_gmatch(run):
    """a dictionary match reported with other bytes than the pattern"""
    for e in run:
        if e.get("op") == "gmatch":
            for q in e["probes"]:
                if q["found"] and q["dslice"]["len"] > 0:
                    q["dslice"] = {"len": q["dslice"]["len"], "h": [q["dslice"]["h"][0], (q["dslice"]["h"][1] + 1) % (1 << 30)]}
                    return run
    return None


def corrupt_reload(run):
    """a reloaded dictionary with another text"""
    for e in run:
        if e.get("op") == "reload" and e.get("ok"):
            e["text"] = {"len": e["text"]["len"] + 1, "h": e["text"]["h"]}
            return run
    return None


def only_variant(path, variant, out, keep_event=None):
    """the runs of one variant of a trace file, written to `out` (self-tests corrupt the first suitable run);
    keep_event drops events that the strict contract rejects anyway (known findings), so that the corruption is
    what gets rejected"""
    evs = vlib.read_ndjson(path)
    keep = [e for r in vlib.split_runs(evs) if r[0].get("variant") == variant for e in r
            if e.get("op") == "reset" or keep_event is None or keep_event(e)]
    vlib.write_ndjson(out, keep)
    return out


def refenc_in_range(e):
    return e.get("kind") == "far2s" and 258 <= e["d"] <= 65793 and 2 <= e["len"] <= 33


def run(ctx):
    ctx.build(BIN)
    # --- the executable semantics: laws, and the codec model pinned to the loop condition of the code
    # --- the contract itself: what answers Decompress allows (must succeed / never wrong / stale may refuse)
    ctx.tlc_mc("MC_CompressorFraming", workers=2, required_actions=("Compress", "Decompress"),
               note="laws of the framing contract: 3 frame ids x 2 payloads x 2 frames x 3 configuration epochs")
    deep = "_deep" if ctx.thorough else ""
    ctx.tlc_mc("MC_PaZipStream", cfg="MC_PaZipStream%s.cfg" % deep, workers=4,
               note="PaZipStream laws: copy closed form, field-width table, codec round trip with the repaired loop condition (LoopBits=8)")
    ctx.tlc_mc("MC_PaZipStream", cfg="MC_PaZipStream_pinned.cfg", workers=4, expect="CodecLaw",
               note="codec model with the loop condition of the pinned decode_matches (has_bits(3)): zero padding of the last byte is parsed as a match (C02-KF9)")
    # --- B2: match sequences with TLC-computed validity / bits / decoded output / legacy layout
    beh, nbeh = ctx.tlc_generate("MC_PaZipStream", cfg="MC_PaZipStreamGen%s.cfg" % deep, workers=4, timeout=900)
    if nbeh == 0:
        raise vlib.ToolError("MC_PaZipStreamGen produced no items")
    s2 = ctx.harness(BIN, "replay", "b2", extra={"in": beh})
    # --- mechanism probes: bit stream, Match constructors, kind selectors, reference byte encoder (read back by the
    #     specification), dictionary matchers
    s3 = ctx.harness(BIN, "probe", "b3")
    # --- B1: every subject x payload family
    s1 = ctx.harness(BIN, "drive", "b1", extra={"threads": min(ctx.jobs, 8)}, timeout=2400 if ctx.thorough else 900)
    b1files = sorted(glob.glob(os.path.join(s1["_out"], "*.ndjson")))
    b2files = sorted(glob.glob(os.path.join(s2["_out"], "*.ndjson")))
    b3files = sorted(glob.glob(os.path.join(s3["_out"], "*.ndjson")))
    # the files that need the two-pass treatment (several TLC starts each) go first; C1-only JIT: the runs are short
    heavy = ("adaptive", "realtime", "simdlz77", "pazip_reference", "b3")
    files = sorted(b1files + b2files + b3files, key=lambda f: (0 if any(h in os.path.basename(f) for h in heavy) else 1, -os.path.getsize(f)))
    ctx.validate(TRACE, files, what="compressor round trip / PA-Zip match stream", max_reject_per_file=60,
                 timeout=900 if ctx.thorough else 300, jvm="-Xmx2g -XX:TieredStopAtLevel=1")
    # --- binding self-tests: corrupted results must be rejected
    clean = [f for f in b1files if os.path.basename(f).startswith("c02-factory_none_and")] or b1files
    ctx.selftest_corrupt(TRACE, clean[0], corrupt_digest, "digest of a decompressed payload changed by one")
    ctx.selftest_corrupt(TRACE, clean[0], corrupt_length, "length of a decompressed payload changed by one")
    ctx.selftest_corrupt(TRACE, clean[0], corrupt_refusal, "successful decompression of a current frame turned into a refusal")
    ctx.selftest_corrupt(TRACE, b2files[0], corrupt_match_field, "operand of a decoded match changed by one")
    ctx.selftest_corrupt(TRACE, b2files[0], corrupt_bits, "bits consumed by decode changed by one")
    applyf = [f for f in b2files if any(e.get("op") == "apply" and e.get("ok") for e in vlib.read_ndjson(f))]
    if applyf:
        ctx.selftest_corrupt(TRACE, applyf[0], corrupt_apply, "one byte of an interpreter output changed")
    for variant, fn, what in (("bits", corrupt_bits_read, "a value read back from the bit stream changed"),
                              ("ctor", corrupt_ctor, "operand of a constructed match changed by one"),
                              ("choose", corrupt_choose, "twin kind selectors made to disagree"),
                              ("refenc", corrupt_refenc, "one byte of a reference-encoded match changed"),
                              ("refrec", corrupt_refrec, "last byte of a reference-encoded record changed"),
                              ("gmatch", corrupt_gmatch, "dictionary match reported over other bytes than the pattern")):
        ctx.selftest_corrupt(TRACE, only_variant(b3files[0], variant, os.path.join(ctx.work, "st-%s.ndjson" % variant),
                                                 refenc_in_range if variant == "refenc" else None), fn, what)
    pz = [f for f in b1files if os.path.basename(f).startswith("c02-pazip_default")]
    if pz:
        evs = vlib.read_ndjson(pz[0])
        keep = [e for r in vlib.split_runs(evs) if any(x.get("op") == "reload" and x.get("ok") for x in r) for e in r][:4000]
        rl = os.path.join(ctx.work, "st-reload.ndjson")
        vlib.write_ndjson(rl, [e for r in vlib.split_runs(keep)[:1] for e in r])
        ctx.selftest_corrupt(TRACE, rl, corrupt_reload, "reloaded dictionary reported with another text")
    # --- evidence
    cov = ctx.cov
    subs = s1.get("subjects", {})
    cov["evaluations"] = s1.get("events", 0) + s2.get("events", 0) + s3.get("events", 0)
    cov["b3_probe_events"] = s3.get("counts", {})
    cov["b1_events"] = s1.get("events", 0)
    cov["b1_runs"] = s1.get("runs", 0)
    cov["b1_crashes"] = s1.get("crashes", 0)
    cov["b2_items"] = nbeh
    cov["b2_executions"] = s2.get("executions", 0)
    cov["b2_kinds"] = s2.get("kinds", {})
    cov["b2_drift"] = s2.get("drift", {})
    vacuous, nontrivial = [], 0
    algo_cov, kinds = {}, [0] * 8
    fams = {}
    for name, d in subs.items():
        if d.get("decompress_ok", 0) + d.get("decompress_refused", 0) == 0:
            vacuous.append(name)
        # distinct non-trivial cases: (subject variant, call variant, algorithm logged, payload class) for which a frame existed
        nontrivial += d.get("distinct", 0)
        for k, v in d.get("algos", {}).items():
            algo_cov[k] = algo_cov.get(k, 0) + v
        for i, v in enumerate(d.get("kinds", [0] * 8)):
            kinds[i] += v
        f = fams.setdefault(name.split(":")[0], {"subjects": 0, "frames": 0, "compress_refused": 0, "decompress_refused": 0, "panics": 0, "max_payload": 0})
        f["subjects"] += 1
        f["frames"] += d.get("compress_ok", 0)
        f["compress_refused"] += d.get("compress_refused", 0)
        f["decompress_refused"] += d.get("decompress_refused", 0)
        f["panics"] += d.get("panics", 0)
        f["max_payload"] = max(f["max_payload"], d.get("max_payload", 0))
    cov["distinct_nontrivial"] = nontrivial + s2.get("executions", 0) + s3.get("events", 0) - s3.get("runs", 0)
    cov["subjects"] = len(subs)
    cov["subject_variants"] = sum(len(d.get("variants", [])) for d in subs.values())
    cov["families"] = fams
    cov["vacuous_subjects"] = sorted(vacuous)
    cov["algorithm_chosen"] = algo_cov
    cov["pazip_match_kinds_emitted_end_to_end"] = dict(zip(["literal", "global", "rle", "near_short", "far1_short", "far2_short", "far2_long", "far3_long"], kinds))
    cov["exhaustive"] = False
    cov["rule"] = ("B1: distinct = (subject variant, call variant, algorithm logged at the call, payload class) tuples whose compress produced a frame "
                   "that was then decompressed and judged by TLC (subject variant = compressor family x variant/preset x training "
                   "corpus; call variant = trait / inherent / deadline_expired / batch / phase before-after train-switch; payload families: empty, 1-2 bytes, zero runs 2..64 KiB, "
                   "single-symbol runs, periodic with period 1..40, block-gap-block repeats with gaps 100..70000, text, random 2 B..64 KiB, "
                   "256-symbol alphabets, skewed alphabets, phrase x 64 KiB, slices of the training corpus; thorough: up to 4 MiB). "
                   "B2: + one execution per TLC-generated match sequence (every Match kind at min / max / +-1 of every operand range, all "
                   "pairs of 10 and triples of 6 representatives, 100 well-formed streams applied by the two interpreters).  B3: + one per "
                   "mechanism probe (bit-stream sequences over widths 0..32, Match constructors / kind selectors / reference encoder at the "
                   "boundaries of every operand range, compress_record_reference records read back by the specification, dictionary "
                   "matcher probes).  Refused "
                   "compressions are not counted; subjects with no decompression at all are listed as vacuous.")
    if b1files:
        for f in b1files:
            if "factory_hybrid" in f:
                ctx.sample_from_trace(f, 8)
                break
        ctx.sample_from_trace(clean[0], 6)
    if b2files:
        ctx.sample_from_trace(b2files[0], 4)
    ctx.assumptions += [
        "payloads and frames are compared by (len, 60-bit digest): collision probability 2^-60 per comparison",
        "TLC evaluates CompressorFraming.tla / PaZipStream.tla over the recorded events; the harness only projects and never compares input with output",
        "B2 drift counters (spec bits / validity / Apply vs implementation) are equality comparisons with TLC-computed values; the verdict is TLC's on the logged events",
        "lz4 feature is not compiled into the harness build (zipora default features): Algorithm::Lz4 refuses every call and is vacuous",
        "AVX-512 host: lower SIMD tiers of SimdLz77 cannot be forced",
        "payload sizes are bounded per family where the code is super-linear (entropy::dictionary 8-64 KiB, SimdLz77 inherent API 1-4 KiB, PA-Zip reference presets 4-64 KiB)",
    ]


def replay(ctx, path):
    """re-execute the subject of a replay file against the current tree and validate again"""
    rep = json.load(open(path))
    ctx.build(BIN)
    subj = rep.get("subject") or ""
    ctx.tier = rep.get("tier", ctx.tier)
    ctx.seed = rep.get("seed", ctx.seed)
    if subj.startswith("pazipmech"):
        s = ctx.harness(BIN, "probe", "rp", subject=subj)
    elif subj.startswith("pazipstream"):
        deep = "_deep" if ctx.tier == "thorough" else ""
        beh, _ = ctx.tlc_generate("MC_PaZipStream", cfg="MC_PaZipStreamGen%s.cfg" % deep, workers=4, timeout=900)
        s = ctx.harness(BIN, "replay", "rp", extra={"in": beh}, subject=subj)
    else:
        s = ctx.harness(BIN, "drive", "rp", subject=subj, extra={"threads": 2})
    files = sorted(glob.glob(os.path.join(s["_out"], "*.ndjson")))
    ctx.validate(TRACE, files, what="replay of " + os.path.basename(path), max_reject_per_file=60, jvm="-Xmx2g -XX:TieredStopAtLevel=1")
    ctx.cov["evaluations"] = s.get("events", 0)
    ctx.cov["distinct_nontrivial"] = max(2, s.get("runs", 0))
    ctx.cov["rule"] = "replay of one subject"
    ctx.sample({"replayed": path})
