"""C02 — compressor layer and PA-Zip round-trip whatever algorithm is chosen.

spec/CompressorFraming.tla is the contract (Compress / Decompress / Switch / Train on opaque payload and frame
digests); spec/PaZipStream.tla is an executable semantics of the PA-Zip match stream (Apply with overlapping
copies, operand ranges, the bit-packed layout of encode_match/decode_match and the byte layout written by
apply_compression_strategy).  MC_PaZipStream checks the laws of that semantics (and that the codec model with the
loop condition of the pinned code violates the round-trip law); MC_PaZipStreamGen generates match sequences at
the minimum / maximum / +-1 of every field with everything the specification computes about them (B2); harness
bin c02 drives ~190 subjects (factory algorithms x training corpora, adaptive, real-time, SIMD LZ77, PA-Zip
presets x dictionaries, FSE layer) over the payload families; Trace_Compressor validates every event.
"""
import glob
import json
import os

import vlib

LEVEL = "exploration"
BIN = "c02"
TRACE = "Trace_Compressor"


def corrupt_digest(run):
    """the digest of a decompressed payload changed by one"""
    for e in run:
        if e.get("op") == "decompress" and e.get("ok") and e["y"]["len"] > 0:
            e["y"] = {"len": e["y"]["len"], "h": [e["y"]["h"][0], (e["y"]["h"][1] + 1) % (1 << 30)]}
            return run
    return None


def corrupt_length(run):
    """the length of a decompressed payload changed by one"""
    for e in run:
        if e.get("op") == "decompress" and e.get("ok") and e["y"]["len"] > 1:
            e["y"] = {"len": e["y"]["len"] - 1, "h": e["y"]["h"]}
            return run
    return None


def corrupt_refusal(run):
    """a successful decompression of a current frame turned into a refusal"""
    for e in run:
        if e.get("op") == "decompress" and e.get("ok") and e.get("via") != "stale":
            e["ok"] = False
            e["y"] = {"len": 0, "h": [0, 0]}
            return run
    return None


def corrupt_match_field(run):
    """a decoded match operand changed by one"""
    for e in run:
        if e.get("op") == "codec" and e.get("enc_ok") and e.get("dec_ok") and e.get("dec"):
            e["dec"][-1]["len"] = e["dec"][-1]["len"] + 1
            return run
    return None


def corrupt_bits(run):
    """bits consumed by the decoder changed by one"""
    for e in run:
        if e.get("op") == "codec" and e.get("enc_ok") and e.get("dec_ok"):
            e["bits_in"] = e["bits_in"] + 1
            return run
    return None


def corrupt_apply(run):
    """one byte of an interpreter's output changed"""
    for e in run:
        if e.get("op") == "apply" and e.get("ok") and e["out"]["len"] > 0:
            e["out"]["tail"][-1] = (e["out"]["tail"][-1] + 1) % 256
            return run
    return None


def run(ctx):
    ctx.build(BIN)
    # --- the executable semantics: laws, and the codec model pinned to the loop condition of the code
    # --- the contract itself: what answers Decompress allows (must succeed / never wrong / stale may refuse)
    ctx.tlc_mc("MC_CompressorFraming", workers=2, required_actions=("Compress", "Decompress"),
               note="laws of the framing contract: 3 frame ids x 2 payloads x 2 frames x 3 configuration epochs")
    deep = "_deep" if ctx.thorough else ""
    ctx.tlc_mc("MC_PaZipStream", cfg="MC_PaZipStream%s.cfg" % deep, workers=4,
               note="PaZipStream laws: copy closed form, field-width table, codec round trip with the repaired loop condition (LoopBits=8)")
    ctx.tlc_mc("MC_PaZipStream", cfg="MC_PaZipStream_pinned.cfg", workers=4, expect="CodecLaw",
               note="codec model with the loop condition of the pinned decode_matches (has_bits(3)): zero padding of the last byte is parsed as a match (C02-KF9)")
    # --- B2: match sequences with TLC-computed validity / bits / decoded output / legacy layout
    beh, nbeh = ctx.tlc_generate("MC_PaZipStream", cfg="MC_PaZipStreamGen%s.cfg" % deep, workers=4, timeout=900)
    if nbeh == 0:
        raise vlib.ToolError("MC_PaZipStreamGen produced no items")
    s2 = ctx.harness(BIN, "replay", "b2", extra={"in": beh})
    # --- B1: every subject x payload family
    s1 = ctx.harness(BIN, "drive", "b1", extra={"threads": min(ctx.jobs, 8)}, timeout=2400 if ctx.thorough else 900)
    b1files = sorted(glob.glob(os.path.join(s1["_out"], "*.ndjson")))
    b2files = sorted(glob.glob(os.path.join(s2["_out"], "*.ndjson")))
    # the files that need the two-pass treatment (several TLC starts each) go first; C1-only JIT: the runs are short
    heavy = ("rans", "hybrid", "adaptive", "realtime", "simdlz77", "pazip", "fse", "b2")
    files = sorted(b1files + b2files, key=lambda f: (0 if any(h in os.path.basename(f) for h in heavy) else 1, -os.path.getsize(f)))
    ctx.validate(TRACE, files, what="compressor round trip / PA-Zip match stream", max_reject_per_file=60,
                 timeout=900 if ctx.thorough else 300, jvm="-Xmx2g -XX:TieredStopAtLevel=1")
    # --- binding self-tests: corrupted results must be rejected
    clean = [f for f in b1files if os.path.basename(f).startswith("c02-factory_none_and")] or b1files
    ctx.selftest_corrupt(TRACE, clean[0], corrupt_digest, "digest of a decompressed payload changed by one")
    ctx.selftest_corrupt(TRACE, clean[0], corrupt_length, "length of a decompressed payload changed by one")
    ctx.selftest_corrupt(TRACE, clean[0], corrupt_refusal, "successful decompression of a current frame turned into a refusal")
    ctx.selftest_corrupt(TRACE, b2files[0], corrupt_match_field, "operand of a decoded match changed by one")
    ctx.selftest_corrupt(TRACE, b2files[0], corrupt_bits, "bits consumed by decode changed by one")
    applyf = [f for f in b2files if any(e.get("op") == "apply" and e.get("ok") for e in vlib.read_ndjson(f))]
    if applyf:
        ctx.selftest_corrupt(TRACE, applyf[0], corrupt_apply, "one byte of an interpreter output changed")
    # --- evidence
    cov = ctx.cov
    subs = s1.get("subjects", {})
    cov["evaluations"] = s1.get("events", 0) + s2.get("events", 0)
    cov["b1_events"] = s1.get("events", 0)
    cov["b1_runs"] = s1.get("runs", 0)
    cov["b1_crashes"] = s1.get("crashes", 0)
    cov["b2_items"] = nbeh
    cov["b2_executions"] = s2.get("executions", 0)
    cov["b2_kinds"] = s2.get("kinds", {})
    cov["b2_drift"] = s2.get("drift", {})
    vacuous, nontrivial = [], 0
    algo_cov, kinds = {}, [0] * 8
    fams = {}
    for name, d in subs.items():
        if d.get("decompress_ok", 0) + d.get("decompress_refused", 0) == 0:
            vacuous.append(name)
        # distinct non-trivial cases: (subject variant, call variant, algorithm logged, payload class) for which a frame existed
        nontrivial += d.get("distinct", 0)
        for k, v in d.get("algos", {}).items():
            algo_cov[k] = algo_cov.get(k, 0) + v
        for i, v in enumerate(d.get("kinds", [0] * 8)):
            kinds[i] += v
        f = fams.setdefault(name.split(":")[0], {"subjects": 0, "frames": 0, "compress_refused": 0, "decompress_refused": 0, "panics": 0, "max_payload": 0})
        f["subjects"] += 1
        f["frames"] += d.get("compress_ok", 0)
        f["compress_refused"] += d.get("compress_refused", 0)
        f["decompress_refused"] += d.get("decompress_refused", 0)
        f["panics"] += d.get("panics", 0)
        f["max_payload"] = max(f["max_payload"], d.get("max_payload", 0))
    cov["distinct_nontrivial"] = nontrivial + s2.get("executions", 0)
    cov["subjects"] = len(subs)
    cov["subject_variants"] = sum(len(d.get("variants", [])) for d in subs.values())
    cov["families"] = fams
    cov["vacuous_subjects"] = sorted(vacuous)
    cov["algorithm_chosen"] = algo_cov
    cov["pazip_match_kinds_emitted_end_to_end"] = dict(zip(["literal", "global", "rle", "near_short", "far1_short", "far2_short", "far2_long", "far3_long"], kinds))
    cov["exhaustive"] = False
    cov["rule"] = ("B1: distinct = (subject variant, call variant, algorithm logged at the call, payload class) tuples whose compress produced a frame "
                   "that was then decompressed and judged by TLC (subject variant = compressor family x variant/preset x training "
                   "corpus; call variant = trait / inherent / deadline_expired / batch / phase before-after train-switch; payload families: empty, 1-2 bytes, zero runs 2..64 KiB, "
                   "single-symbol runs, periodic with period 1..40, block-gap-block repeats with gaps 100..70000, text, random 2 B..64 KiB, "
                   "256-symbol alphabets, skewed alphabets, phrase x 64 KiB, slices of the training corpus; thorough: up to 4 MiB). "
                   "B2: + one execution per TLC-generated match sequence (every Match kind at min / max / +-1 of every operand range, all "
                   "pairs of 10 and triples of 6 representatives, 100 well-formed streams applied by the two interpreters).  Refused "
                   "compressions are not counted; subjects with no decompression at all are listed as vacuous.")
    if b1files:
        for f in b1files:
            if "factory_hybrid" in f:
                ctx.sample_from_trace(f, 8)
                break
        ctx.sample_from_trace(clean[0], 6)
    if b2files:
        ctx.sample_from_trace(b2files[0], 4)
    ctx.assumptions += [
        "payloads and frames are compared by (len, 60-bit digest): collision probability 2^-60 per comparison",
        "TLC evaluates CompressorFraming.tla / PaZipStream.tla over the recorded events; the harness only projects and never compares input with output",
        "B2 drift counters (spec bits / validity / Apply vs implementation) are equality comparisons with TLC-computed values; the verdict is TLC's on the logged events",
        "lz4 feature is not compiled into the harness build (zipora default features): Algorithm::Lz4 refuses every call and is vacuous",
        "AVX-512 host: lower SIMD tiers of SimdLz77 cannot be forced",
        "payload sizes are bounded per family where the code is super-linear (entropy::dictionary 8-64 KiB, SimdLz77 inherent API 1-4 KiB, PA-Zip reference presets 4-64 KiB)",
    ]


def replay(ctx, path):
    """re-execute the subject of a replay file against the current tree and validate again"""
    rep = json.load(open(path))
    ctx.build(BIN)
    subj = rep.get("subject") or ""
    ctx.tier = rep.get("tier", ctx.tier)
    ctx.seed = rep.get("seed", ctx.seed)
    if subj.startswith("pazipstream"):
        deep = "_deep" if ctx.tier == "thorough" else ""
        beh, _ = ctx.tlc_generate("MC_PaZipStream", cfg="MC_PaZipStreamGen%s.cfg" % deep, workers=4, timeout=900)
        s = ctx.harness(BIN, "replay", "rp", extra={"in": beh}, subject=subj)
    else:
        s = ctx.harness(BIN, "drive", "rp", subject=subj, extra={"threads": 2})
    files = sorted(glob.glob(os.path.join(s["_out"], "*.ndjson")))
    ctx.validate(TRACE, files, what="replay of " + os.path.basename(path), max_reject_per_file=60, jvm="-Xmx2g -XX:TieredStopAtLevel=1")
    ctx.cov["evaluations"] = s.get("events", 0)
    ctx.cov["distinct_nontrivial"] = max(2, s.get("runs", 0))
    ctx.cov["rule"] = "replay of one subject"
    ctx.sample({"replayed": path})
