"""C19 — file-backed structures reopen as written; damaged files are refused.

spec/DurableFile.tla is the crash / fault model and the contract.  MC_DurableFile checks the model on
small write histories (<= 3 syncs, <= 4 blocks): a reader that validates length and checksum conforms
under every crash image, the pinned MmapVec::open (no length check) and a length-check-only reader do
not (expected violations, kept to pin the model to the defects), the fault descriptors denote exactly
images the crash model can produce.  B4: harness bin c19 runs seeded histories on the real structures and
snapshots the files after every operation; MC_DurableFileGen (TLC) enumerates the fault descriptors for
the recorded shapes; the harness materialises every image, reopens it in a child process and logs
(outcome, content digest, extent); Trace_DurableFile (TLC) judges every reopen.
"""
import glob
import json
import os

import vlib

LEVEL = "fault_enumeration"
BIN = "c19"
TRACE = "Trace_DurableFile"
W = min(4, int(os.environ.get("VERIF_TLC_WORKERS", "4")))


def _pairs(run):
    """(history event, image event, reopen event) of a run"""
    hist = None
    for i, e in enumerate(run):
        if e.get("op") == "history":
            hist = e
        if e.get("op") == "reopen" and i > 0 and run[i - 1].get("op") == "image":
            yield hist, run[i - 1], e


def _vouched(hist, img, content):
    sp = hist["syncpoints"][:img["upto"]]
    return any(p["valid"] and p["len"] == content["len"] and p["h"] == content["h"] for p in sp)


def _mini(run, hist, img, e):
    return [run[0], hist, img, e]


def corrupt_content(run):
    """an accepted reopen of a damaged image: content digest changed to one that is at no sync point"""
    if run[0].get("framing") != "header":
        return None
    # prefer a damaged image that was accepted; on a tree where every damaged image is refused
    # (MmapVec / ZReorderMap after their fixes) fall back to an undamaged one
    for want_damaged in (True, False):
        for hist, img, e in _pairs(run):
            if e["outcome"] == "ok" and (img["kind"] != "intact") == want_damaged and _vouched(hist, img, e["content"]):
                e["content"] = {"len": e["content"]["len"], "h": [e["content"]["h"][0] ^ 1, e["content"]["h"][1]]}
                return _mini(run, hist, img, e)
    return None


def corrupt_outcome(run):
    """the outcome of a refused damaged image changed to a signal"""
    for hist, img, e in _pairs(run):
        if e["outcome"] == "err" and img["kind"] != "intact":
            e["outcome"] = "signal"
            e["sig"] = 7
            return _mini(run, hist, img, e)
    return None


def corrupt_extent(run):
    """an accepted reopen: extent moved beyond the end of the image"""
    if run[0].get("framing") != "header":
        return None
    for hist, img, e in _pairs(run):
        if e["outcome"] == "ok" and e.get("extent") and e["extent"][0] <= img["len"] and _vouched(hist, img, e["content"]):
            e["extent"] = [img["len"] + 1]
            return _mini(run, hist, img, e)
    return None


def corrupt_intact_refused(run):
    """an undamaged sync image that opened correctly: changed to refused"""
    for hist, img, e in _pairs(run):
        p = hist["syncpoints"][img["k"] - 1]
        if e["outcome"] == "ok" and img["kind"] == "intact" and p["sync"] and p["valid"] \
                and p["len"] == e["content"]["len"] and p["h"] == e["content"]["h"]:
            e["outcome"] = "err"
            return _mini(run, hist, img, e)
    return None


def _resume_case(run, want):
    hist = None
    for e in run:
        if e.get("op") == "history":
            hist = e
        if e.get("op") == "resume" and e.get("open") == "ok" and want(e):
            return hist, e
    return None, None


def corrupt_resume_old(run):
    """continuation: a record stored before the reopen changed its bytes after the appends"""
    hist, e = _resume_case(run, lambda e: e["writable"] and e["added"] > 0)
    if e is None:
        return None
    e["old1"] = {"len": e["old1"]["len"], "h": [e["old1"]["h"][0] ^ 1, e["old1"]["h"][1]]}
    return [run[0], hist, e]


def corrupt_resume_id(run):
    """continuation: a put after the reopen re-issued an id that was already in use"""
    hist, e = _resume_case(run, lambda e: e["has_ids"] and e["ids0"] and e["new_ids"])
    if e is None:
        return None
    e["new_ids"] = [e["ids0"][-1]] + e["new_ids"][1:]
    return [run[0], hist, e]


def corrupt_resume_again(run):
    """continuation: the second close + reopen presents something else than the live object held"""
    hist, e = _resume_case(run, lambda e: True)
    if e is None:
        return None
    e["again"] = {"len": e["again"]["len"] + 1, "h": e["again"]["h"]}
    return [run[0], hist, e]


def corrupt_resume_ro(run):
    """continuation: a read-only open accepted an append"""
    hist, e = _resume_case(run, lambda e: not e["writable"] and e["mode"].startswith("ro_") or e["mode"] == "ro" and e["len0"] > 0)
    if e is None:
        return None
    e["added"] = 1
    e["len1"] = e["len0"] + 1
    return [run[0], hist, e]


def corrupt_regen(run):
    """a file created over an existing one: a byte the new writer never wrote shows the previous generation"""
    for e in run:
        if e.get("op") == "regen" and e.get("open") == "ok":
            covered = set()
            for w in e["writes"]:
                covered.update(range(w["off"], w["off"] + len(w["data"])))
            gaps = [i for i in range(len(e["got"])) if i not in covered]
            if gaps:
                e["got"][gaps[-1]] = 0xAA
                return [run[0], e]
    return None


def corrupt_script_val(run):
    """access script: a read after a skip returns the bytes of an earlier offset"""
    for e in run:
        if e.get("op") == "script":
            seen_skip = False
            for st in e["steps"]:
                if st["a"] == "skip" and st["ok"] and st["n"] > 0:
                    seen_skip = True
                if seen_skip and st["a"] == "read" and st["ok"]:
                    st["val"][0] = (st["val"][0] + 1) % 251
                    return [run[0], e]
    return None


def corrupt_script_pos(run):
    """access script: position() after a skip does not move"""
    for e in run:
        if e.get("op") == "script":
            for st in e["steps"]:
                if st["a"] == "skip" and st["ok"] and st["n"] > 0 and st["pos"] >= 0:
                    st["pos"] -= st["n"]
                    return [run[0], e]
    return None


def corrupt_script_end(run):
    """access script: a read beyond the end succeeds"""
    for e in run:
        if e.get("op") == "script" and e["steps"] and not e["steps"][-1]["ok"] and e["steps"][-1]["a"] == "read":
            st = e["steps"][-1]
            st["ok"] = True
            st["val"] = [0] * st["n"]
            return [run[0], e]
    return None


def _scratch():
    """scratch directory of the harness: <work>/C19-tmp (work differs when ZV_REPO selects another tree)"""
    return os.path.join(vlib.WORK, "C19-tmp")


def models(ctx):
    q = "" if ctx.thorough else "_q"
    sfx = "3 syncs" if ctx.thorough else "2 syncs"
    chk = "MC_DurableFile.cfg" if ctx.thorough else "MC_DurableFile_checked_inplace_all_q.cfg"
    ctx.tlc_mc("MC_DurableFile", cfg=chk, workers=W, timeout=1500,
               required_actions=("Sync", "WriteHdr", "WriteData", "SetLen", "CleanReopen", "Crash"),
               note="crash model + contract, validating reader (magic, length, checksum) conforms under every "
                    "subset/prefix mixture, old/new length and truncation; descriptors sound and complete; " + sfx)
    ctx.tlc_mc("MC_DurableFile", cfg="MC_DurableFile_naive_inplace_all%s.cfg" % q, expect="Conforms", workers=W,
               note="reader of the pinned MmapVec::open (magic only, zeros beyond the end of the file): violates the contract")
    ctx.tlc_mc("MC_DurableFile", cfg="MC_DurableFile_lencheck_inplace_all%s.cfg" % q, expect="Conforms", workers=W,
               note="length-check-only reader under in-place rewrite: torn rewrites are accepted (no checksum)")
    if not ctx.thorough:
        return
    ctx.tlc_mc("MC_DurableFile", cfg="MC_DurableFile_lencheck_inplace_truncate_q.cfg", workers=W,
               note="length-check-only reader conforms under truncation faults")
    ctx.tlc_mc("MC_DurableFile", cfg="MC_DurableFile_lencheck_replace_all_q.cfg", workers=W,
               note="length-check-only reader conforms when sync replaces the file atomically (write, fsync, rename)")


def pipeline(ctx, subject=None, tag=""):
    d = ctx.harness(BIN, "drive", "drive" + tag, subject=subject, extra={"scratch": _scratch()})
    shapes = os.path.join(d["_out"], "shapes.ndjson")
    faults, n = ctx.tlc_generate("MC_DurableFileGen", tag="FAULTS", env={"SHAPES": shapes}, workers=1, timeout=900,
                                 outfile=os.path.join(ctx.work, "faults%s.ndjson" % tag))
    if n == 0:
        raise vlib.ToolError("MC_DurableFileGen produced no fault descriptors")
    s = ctx.harness(BIN, "images", "img" + tag, extra={"in": faults, "runs": os.path.join(d["_out"], "runs.ndjson"), "scratch": _scratch()},
                    subject=subject, timeout=3000)
    return d, s, n


def run(ctx):
    ctx.build(BIN)
    try:
        models(ctx)
        d, s, nshapes = pipeline(ctx)
        files = sorted(glob.glob(os.path.join(s["_out"], "c19-*.ndjson")))
        ctx.validate(TRACE, files, what="reopen of a fault image", timeout=600)
        # --- binding self-tests: corrupted results must be rejected
        ok_file = files[0]
        ctx.selftest_corrupt(TRACE, ok_file, corrupt_content, "content digest of a reopened damaged image changed to one at no sync point")
        ctx.selftest_corrupt(TRACE, ok_file, corrupt_outcome, "outcome of a refused image changed to signal")
        ctx.selftest_corrupt(TRACE, ok_file, corrupt_extent, "extent of a reopen moved beyond the end of the image")
        ctx.selftest_corrupt(TRACE, ok_file, corrupt_intact_refused, "undamaged sync image refused")
        allf = os.path.join(ctx.work, "all-runs.ndjson")
        with open(allf, "w") as out:
            for f in files:
                out.write(open(f).read())
        ctx.selftest_corrupt(TRACE, allf, corrupt_resume_old, "continuation: an earlier record changed its bytes after the appends")
        ctx.selftest_corrupt(TRACE, allf, corrupt_resume_id, "continuation: a put after the reopen re-issued an id in use")
        ctx.selftest_corrupt(TRACE, allf, corrupt_resume_again, "continuation: second reopen differs from the live object")
        ctx.selftest_corrupt(TRACE, allf, corrupt_resume_ro, "continuation: a read-only open accepted an append")
        ctx.selftest_corrupt(TRACE, allf, corrupt_script_val, "access script: a read after a skip returns other bytes")
        ctx.selftest_corrupt(TRACE, allf, corrupt_script_pos, "access script: position() after a skip did not move")
        ctx.selftest_corrupt(TRACE, allf, corrupt_script_end, "access script: a read beyond the end succeeded")
        ctx.selftest_corrupt(TRACE, allf, corrupt_regen, "file created over an existing one: a never-written byte shows the previous generation")
    finally:
        vlib.sh([os.path.join(vlib.TARGET, "release", BIN), "--mode", "clean", "--scratch", _scratch()])
    # --- run files of the external sort (src/algorithms/external_sort.rs): file-backed state that is written,
    # synced and read back inside one sort() call.  "Reopens as written" for them means: what the merge reads back
    # from the run files is exactly what was spilled - the output is the sorted permutation of the input.  That
    # contract is SortMerge.tla (property C11); its replacement-selection family (harness bin c11, family rss: 1 ..
    # many runs, run files on both sides of 8 KiB .. 1 MiB, merge_ways below the number of runs) is run here as
    # well and judged by TLC (Trace_SortMerge).  C11-KF9 (with_comparator) is a recorded finding of that family.
    ctx.build("c11")
    tmpd = os.path.join(vlib.WORK, "C19-tmp", "sort")
    os.makedirs(tmpd, exist_ok=True)
    old_tmp = os.environ.get("TMPDIR")
    os.environ["TMPDIR"] = tmpd
    try:
        sx = ctx.harness("c11", "drive", "spill", extra={"fam": "rss"}, timeout=900)
    finally:
        if old_tmp is None:
            os.environ.pop("TMPDIR", None)
        else:
            os.environ["TMPDIR"] = old_tmp
    xfiles = sorted(glob.glob(os.path.join(sx["_out"], "*.ndjson")))
    if not xfiles:
        raise vlib.ToolError("external-sort step produced no trace")
    ctx.known = ctx.known + [k for k in vlib.load_known().get("C11", []) if k.get("id") == "C11-KF9"]
    ev0 = ctx.cov.get("events_validated", 0)
    ctx.validate("Trace_SortMerge", xfiles, what="external sort: run files written and read back", max_reject_per_file=60,
                 jvm="-Xmx2g -XX:TieredStopAtLevel=1 -XX:ParallelGCThreads=1 -XX:CICompilerCount=1")
    ctx.cov["external_sort_events"] = ctx.cov.get("events_validated", 0) - ev0
    cov = ctx.cov
    cov["evaluations"] = s.get("images", 0)
    cov["distinct_nontrivial"] = s.get("distinct_nontrivial", 0)
    cov["fault_shapes"] = nshapes
    cov["histories"] = d.get("runs", 0)
    cov["subjects"] = {}
    vac = []
    for name, dd in d.get("subjects", {}).items():
        o = s.get("subjects", {}).get(name, {})
        cov["subjects"][name] = {"history": dd, "images": o}
        damaged_ok = sum(v for k, v in o.items() if k.endswith("/ok") and not k.startswith("intact"))
        intact_ok = o.get("intact/ok", 0)
        if intact_ok == 0:
            vac.append(name + " (no undamaged image ever opened)")
    vac.append("zipoffset:* (ZipOffsetBlobStoreBuilder::finish returns an empty store, C03-KF3: only the 128-byte header is ever written)")
    cov["vacuous_subjects"] = vac
    cov["rule"] = ("one evaluation = one fault image of a real file reopened in a child process and judged by TLC. Images are "
                   "the fault descriptors TLC (MC_DurableFileGen / DurableFile.tla!Descriptors) enumerates for every snapshot of "
                   "every recorded history relative to its last sync snapshot: truncation at every byte (files <= 4 KiB at sync "
                   "snapshots; every 512-byte step and section boundary +-1 otherwise), every prefix-consistent mixture of "
                   "old/new blocks with old and new length, every single-block rollback, header-new/data-old, data-new/header-old, "
                   "and the undamaged image (cross-process round trip). distinct_nontrivial = distinct (subject, run, snapshot, "
                   "file, kind, j, len) descriptors other than the undamaged image.")
    cov["exhaustive"] = False
    for x in s.get("samples", [])[:5]:
        ctx.sample(x)
    if files:
        ctx.sample_from_trace(files[0], 8)
    ctx.assumptions += [
        "block size 512 or 4096 bytes; a crash persists any subset of the blocks written since the last sync (prefixes, single "
        "rollbacks, header/data splits are materialised; not every subset) with the old or the new length",
        "changed blocks are taken in ascending order for prefix mixtures (the real write order inside one library call is not observable)",
        "allowed contents = logical content after every operation up to the snapshot the image derives from (a state the "
        "library itself made durable between two explicit syncs is accepted); an undamaged explicit-sync image must open with exactly that content",
        "content equality is decided on a 60-bit digest + length",
        "raw transports (io::mmap, MmapDataInput) have no header: the contract for them is transparency (exactly the bytes of the image)",
    ]


def replay(ctx, path):
    rep = json.load(open(path))
    if rep.get("trace_spec") == "Trace_SortMerge":
        # a run of the external-sort step: re-executed by the C11 driver, judged by the same trace spec
        from props import C11
        return C11.replay(ctx, path)
    ctx.build(BIN)
    ctx.tier = rep.get("tier", ctx.tier)
    ctx.seed = rep.get("seed", ctx.seed)
    subj = rep.get("subject")
    try:
        d, s, n = pipeline(ctx, subject=subj, tag="-rp")
        files = sorted(glob.glob(os.path.join(s["_out"], "c19-*.ndjson")))
        ctx.validate(TRACE, files, what="replay of " + os.path.basename(path), timeout=600)
    finally:
        vlib.sh([os.path.join(vlib.TARGET, "release", BIN), "--mode", "clean", "--scratch", _scratch()])
    ctx.cov["evaluations"] = s.get("images", 0)
    ctx.cov["distinct_nontrivial"] = s.get("distinct_nontrivial", 0)
    ctx.cov["rule"] = "replay of one subject (same seed and tier): all its fault images"
    ctx.sample({"replayed": path})
