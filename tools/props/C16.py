"""C16 — version tokens: one writer at a time, nothing reclaimed while still visible.

Tokens.tla is the contract (live tokens - held, lent to a with_*_token closure or parked in a cache -,
min threshold, counters, manager lifetime, level predicates, lazy free lists);
VersionManagerMech.tla models the code segment by segment (pinned protocol: TLC finds the
two-writer and the min-overtakes-reader interleavings; repaired protocol: holds);
TLC-generated schedules are executed by real threads on the real VersionManager under the
cooperative scheduler (hooks H2); sequential TokenManager/TokenCache histories and a
free-running stress run are recorded too; Trace_Tokens.tla judges every recorded run.
"""
import concurrent.futures as cf
import glob
import json
import os

import vlib

LEVEL = "model_checking"
BIN = "c16"
TRACE = "Trace_Tokens"
LEVELS = ["NoWriteReadOnly", "SingleThreadStrict", "SingleThreadShared", "OneWriteMultiRead", "MultiWriteMultiRead"]


def corrupt_min(run):
    """raise an observed min above the version of a live token"""
    live = False
    for e in run:
        if e.get("op") == "acq" and e.get("ok") and e.get("tracked"):
            live = True
        elif e.get("op") == "obs" and live:
            e["min"] = e["min"] + 1000
            return run
    return None


GOOD_TK = {"valid": True, "tmin": 1, "lvl": "OneWriteMultiRead", "ro": False}


def _second_writer(run, scoped):
    if not any(e.get("level") == "OneWriteMultiRead" for e in run if e.get("op") == "mgr_new"):
        return None
    w_live = False
    for e in run:
        if e.get("op") in ("acq", "acq_cached") and e.get("kind") == "W":
            if e.get("op") == "acq_cached" or e.get("ok"):
                w_live = True
            elif w_live and bool(e.get("scoped")) == scoped:
                e.update({"ok": True, "id": 999999, "ver": 999, "tracked": True, "tk": dict(GOOD_TK)})
                return run
        if e.get("op") == "rel_start":
            w_live = False
    return None


def corrupt_second_writer(run):
    """turn a refused writer acquisition into a granted one while a writer is live"""
    return _second_writer(run, False)


def corrupt_second_scoped_writer(run):
    """a with_writer_token whose acquisition was refused (a writer is live, possibly parked in a
    cache) becomes a closure that ran with a second writer token"""
    return _second_writer(run, True)


def corrupt_counts(run):
    for e in reversed(run):
        if e.get("op") == "obs" and e.get("quiet"):
            e["ar"] = e["ar"] + 1
            return run
    return None


def corrupt_counts_in_closure(run):
    """the observation made inside a with_*_token closure does not count the closure's token"""
    inside = None
    for e in run:
        if e.get("op") in ("acq", "acq_cached") and e.get("scoped") and e.get("tracked") and e.get("ok", True):
            inside = e
        elif inside is not None and e.get("op") == "obs" and e.get("quiet"):
            k = "ar" if inside["kind"] == "R" else "aw"
            if e[k] > 0:
                e[k] -= 1
                return run
            inside = None
        elif e.get("op") in ("rel_start", "cache_put"):
            inside = None
    return None


def corrupt_validate(run):
    for e in run:
        if e.get("op") == "validate" and e.get("res"):
            e["res"] = False
            return run
    return None


def corrupt_cache_get(run):
    for e in run:
        if e.get("op") == "cache_get" and e.get("hit"):
            e["ver"] += 1
            return run
    return None


def corrupt_cached_version(run):
    for e in run:
        if e.get("op") == "acq_cached" and e.get("tracked"):
            e["ver"] += 1
            return run
    return None


def corrupt_reclaim(run):
    """an item is handed to the free callback although its age is not below the threshold"""
    for e in run:
        if e.get("op") == "reclaim" and e.get("items"):
            e["min"] = e["items"][-1][1]
            e["pcan"] = [a < e["min"] for a in e["page"]]
            return run
    return None


def corrupt_reclaim_foreign_item(run):
    """the free callback receives an item that was never retired (or receives one twice)"""
    for e in run:
        if e.get("op") == "reclaim" and e.get("items"):
            e["items"].append(list(e["items"][0]))
            e["ret"] += 1
            return run
    return None


def corrupt_level_facts(run):
    for e in run:
        if e.get("op") == "mgr_new" and e.get("level") == "OneWriteMultiRead":
            e["facts"]["acw"] = True
            return run
    return None


def corrupt_token_valid(run):
    for e in run:
        if e.get("op") == "acq" and e.get("ok") and e.get("scoped"):
            e["tk"]["valid"] = False
            return run
    return None


def corrupt_unwind(run):
    """a token that was in scope of the panic is left out of the unwind event: it stays live, so the
    quiescence observed afterwards (counters zero) contradicts the contract"""
    for e in run:
        if e.get("op") == "unwind" and e.get("ids") and run[0].get("subject") == "tm:panic" and run[0].get("variant") != "NoWriteReadOnly":
            e["ids"] = e["ids"][1:]
            return run
    return None


def corrupt_quiescent(run):
    """after the panic was survived the writer counter stays at 1"""
    for e in run:
        if e.get("op") == "obs_quiescent":
            e["aw"] += 1
            return run
    return None


def corrupt_must_writer(run):
    """after the panic was survived a writer request is refused although no writer token is live"""
    if run[0].get("subject") != "tm:panic" or run[0].get("variant") != "OneWriteMultiRead":
        return None
    out = []
    skip = None
    for e in run:
        if skip is None and e.get("op") == "acq" and e.get("ok") and e.get("kind") == "W" and not e.get("scoped") and any(x.get("op") == "unwind" for x in out):
            skip = e["id"]
            out.append({"op": "acq", "m": e["m"], "kind": "W", "ok": False, "must": True})
            continue
        if skip is not None and e.get("op") == "rel_start" and e.get("id") == skip:
            skip = -1
            continue
        out.append(e)
    return out if skip == -1 else None


def corrupt_after_neutral(run):
    """a neutral method (clear_stats, ...) zeroed the counters although tokens are live"""
    seen = False
    for e in run:
        if e.get("op") == "neutral":
            seen = True
        elif seen and e.get("op") == "obs" and e.get("quiet") and e["ar"] + e["aw"] > 0:
            e["ar"] = 0
            e["aw"] = 0
            return run
        elif seen and e.get("op") != "obs":
            seen = False
    return None


def corrupt_use(run):
    for e in run:
        if e.get("op") == "use":
            e["id"] = 999999
            return run
    return None


def _selftests(ctx, specs, limit=60):
    """binding self-tests, validated in parallel: specs = [(files, mutate, what)]; for each, the first run
    the corruption applies to is corrupted and must be REJECTED by the trace specification"""
    jobs = []
    for n, (files, mutate, what) in enumerate(specs):
        mutated = None
        for f in files[:limit]:
            for run in vlib.split_runs(vlib.read_ndjson(f)):
                mutated = mutate([json.loads(json.dumps(e)) for e in run])
                if mutated is not None:
                    break
            if mutated is not None:
                break
        if mutated is None:
            raise vlib.ToolError("binding self-test: no run suitable for corruption (%s)" % what)
        p = os.path.join(ctx.work, "selftest-%02d.ndjson" % n)
        vlib.write_ndjson(p, mutated)
        jobs.append((p, what))
    with cf.ThreadPoolExecutor(max_workers=6) as ex:
        results = list(ex.map(lambda j: vlib.validate_one(TRACE, j[0]), jobs))
    for (p, what), r in zip(jobs, results):
        ok = (not r["accepted"]) and r["rejected_at"] is not None
        ctx.cov["selftests"].append({"what": what, "rejected_as_expected": ok, "at": r["rejected_at"]})
        if not ok:
            raise vlib.ToolError("binding self-test failed: corrupted trace (%s) was not rejected: %s" % (what, r))
        vlib.log("self-test ok: %s (rejected at line %s)" % (what, r["rejected_at"]))


def run(ctx):
    ctx.build(BIN)
    th = ctx.thorough
    pool = cf.ThreadPoolExecutor(max_workers=6)
    # ---- mechanism model: the pinned protocol violates the contract, the repaired one satisfies it
    # (program sets 10.. include the per-thread token cache of fsa/token.rs and the closure-scoped
    # entry points with_reader_token / with_writer_token)
    mc = [("MC_VMMech_pinned_writers.cfg", "OneWriter", "protocol of the pinned tree: two writer tokens (defect repaired by fix 7bc1afe)"),
          ("MC_VMMech_pinned_min.cfg", "MinNotAboveLive", "protocol of the pinned tree: min_version overtakes a live reader (repaired by 7bc1afe)")]
    for p in ([1, 2, 3, 4, 5, 6, 7, 8, 9] if th else [1, 2, 3, 4, 5, 6, 7, 8]):
        mc.append(("MC_VMMech_fixed_%d.cfg" % p, "ok", "repaired protocol, program set %d, all interleavings" % p))
    for p in ([10, 11, 12, 13, 14, 15] if th else [10, 11, 12, 13, 14]):
        mc.append(("MC_VMMech_fixed_%d.cfg" % p, "ok", "repaired protocol + per-thread token cache / with_*_token, program set %d, all interleavings" % p))
    mc.append(("MC_VMMech_fixedmulti_4.cfg", "ok", "MultiWriteMultiRead"))
    mc.append(("MC_VMMech_fixedmulti_11.cfg", "ok", "MultiWriteMultiRead, token cache"))
    if th:
        mc.append(("MC_VMMech_fixedmulti_9.cfg", "ok", "MultiWriteMultiRead, 3 threads"))
        mc.append(("MC_VMMech_fixedmulti_12.cfg", "ok", "MultiWriteMultiRead, token cache, both slots"))
    futs = [pool.submit(ctx.tlc_mc, "MC_VMMech", cfg=c, expect=x, workers=2, note=n) for c, x, n in mc]
    for f in futs:
        f.result()
    # ---- B3: schedules generated by TLC from the repaired-protocol model, executed on real threads
    files = []
    sched_total = 0
    big = 10**9
    gens = [("fixed_1", big), ("fixed_2", big), ("fixed_3", big), ("fixed_4", big if th else 700),
            ("fixed_6", big if th else 400), ("fixedmulti_4", big if th else 400),
            ("fixed_10", big), ("fixed_11", big if th else 400), ("fixed_12", 6000 if th else 400),
            ("fixed_13", big if th else 400), ("fixed_14", big if th else 400), ("fixedmulti_11", 5000 if th else 300)]
    if th:
        gens += [("fixed_5", big), ("fixed_7", big), ("fixed_8", big), ("fixed_15", big), ("fixedmulti_12", 3000)]

    def gen_and_run(name, limit):
        out = os.path.join(ctx.work, "sched_%s.ndjson" % name)
        f, n = ctx.tlc_generate("MC_VMMech", cfg="MC_VMMechGen_%s.cfg" % name, outfile=out, workers=2, timeout=1200, jvm="-Xmx6g")
        if n == 0:
            raise vlib.ToolError("no schedules generated for " + name)
        s = ctx.harness(BIN, "sched", "sched_" + name, extra={"in": f, "limit": limit})
        return name, n, s

    drift = 0
    for name, n, s in pool.map(lambda a: gen_and_run(*a), gens):
        if s.get("stuck", 0):
            ctx.add_violation("a scheduled run on the real VersionManager never reached its next schedule point (deadlock under schedule)",
                              {"kind": "stuck_schedule", "summary": {k: v for k, v in s.items() if not k.startswith("_")}}, subject="vm:sched")
        sched_total += s.get("schedules", 0)
        fs = sorted(glob.glob(os.path.join(s["_out"], "*.ndjson")))
        files += fs
        # step structure: the real run takes one extra step per thread (thread start); anything else
        # means the mechanism model and the code are segmented differently (reported, not a verdict)
        for f in fs:
            for e in vlib.read_ndjson(f):
                if e.get("op") == "reset" and e["real_steps"] - e["model_steps"] != len(e["prog"]):
                    drift += 1
        ctx.cov.setdefault("schedule_sets", []).append({"program_set": name, "generated_by_TLC": n, "executed_on_real_threads": s.get("schedules", 0),
                                                          "exhaustive": s.get("schedules", 0) == n, "real_steps": s.get("steps", 0)})
    pool.shutdown()
    ctx.cov["states"] = sum(m.get("distinct_states", 0) for m in ctx.cov["models"])
    ctx.cov["transitions"] = sum(m.get("states_generated", 0) for m in ctx.cov["models"])
    # ---- seeded random schedules of random programs over every level (token cache, closures, validate,
    # lazy free list), sequential histories (several managers / front-ends / caches), stress
    s_r = ctx.harness(BIN, "rsched", "rsched")
    # (exit code 43: the harness left from inside the vm.release hook because a release callback was
    # about to run against a destroyed manager - the trace ends with that event and is rejected below)
    s_q = ctx.harness(BIN, "seq", "seq", allow_fail=True, timeout=300)
    if s_q["_rc"] not in (0, 43):
        raise vlib.ToolError("harness c16 --mode seq failed rc=%s\n%s" % (s_q["_rc"], s_q["_stdout"][-2000:]))
    s_s = ctx.harness(BIN, "stress", "stress")
    for s in (s_r, s_q, s_s):
        files += sorted(glob.glob(os.path.join(s["_out"], "*.ndjson")))
    if s_r.get("stuck", 0):
        ctx.add_violation("a randomly scheduled run never reached its next schedule point (deadlock under schedule)",
                          {"kind": "stuck_schedule", "summary": {k: v for k, v in s_r.items() if not k.startswith("_")}}, subject="vm:rsched")
    # every ConcurrencyLevel must have been a subject of the scheduler mode and of the sequential mode
    for lv in LEVELS:
        if not s_r.get("per_level", {}).get(lv):
            raise vlib.ToolError("vacuity: level %s never scheduled" % lv)
        if s_q["_rc"] == 0 and not s_q.get("stats", {}).get("level:" + lv):
            raise vlib.ToolError("vacuity: level %s never in a sequential history" % lv)
    if s_q["_rc"] == 0 and s_q.get("panic_histories", 0) < 25:
        raise vlib.ToolError("vacuity: panic / unwind histories missing (5 scenarios x 5 levels)")
    if not s_r.get("ops", {}).get("N") or (s_q["_rc"] == 0 and not s_q.get("stats", {}).get("neutral")):
        raise vlib.ToolError("vacuity: no neutral method (clear_stats, stats, getters ...) was called")
    if not (s_r.get("ops", {}).get("PR") and s_r.get("ops", {}).get("PW")):
        raise vlib.ToolError("vacuity: no scheduled run with a panicking with_*_token closure")
    for k in () if s_q["_rc"] != 0 else ("scoped_ok", "scoped_err", "scoped_displaces", "acq_cached", "uc_put", "uc_get_hit", "with_version_manager", "validate",
              "use_reader", "use_writer", "reclaim_freed", "epoch_freed", "drain_bulk32"):
        if not s_q.get("stats", {}).get(k):
            raise vlib.ToolError("vacuity: sequential histories never reached '%s'" % k)
    # ---- witness of known finding C16-KF1 (manager dropped while a token of it is alive).  Executing the
    # release would touch freed memory, so the witness runs in its own process and leaves it from inside the
    # vm.release hook (before the dereference) once it has logged the event; exit code 42 = reproduced.
    s_u = ctx.harness(BIN, "witness", "witness", allow_fail=True, timeout=60)
    ufiles = sorted(glob.glob(os.path.join(s_u["_out"], "*.ndjson")))
    if s_u["_rc"] not in (0, 42) or not ufiles:
        ctx.tool_errors.append("C16-KF1 witness process failed (rc=%s)" % s_u["_rc"])
    files += ufiles
    # the same finding through with_reader_token + the per-thread cache + clear_thread_cache
    s_u2 = ctx.harness(BIN, "witness", "witness_cache", extra={"variant": "cache"}, allow_fail=True, timeout=60)
    ufiles2 = sorted(glob.glob(os.path.join(s_u2["_out"], "*.ndjson")))
    if s_u2["_rc"] not in (0, 42) or not ufiles2:
        ctx.tool_errors.append("C16-KF1 cache witness process failed (rc=%s)" % s_u2["_rc"])
    files += ufiles2
    ctx.validate(TRACE, files, what="token protocol run")
    if s_q["_rc"] == 43 and not any(v.get("subject") == "tm:seq" for v in ctx.violations):
        raise vlib.ToolError("sequential mode left through the emergency exit but its trace was accepted")
    # ---- binding self-tests
    first_sched = [f for f in files if "tok-sched" in f][0]
    sched_files = [f for f in files if "tok-rsched" in f or "tok-sched" in f]
    cache_sched = [f for f in files if "sched_fixed_1" in f and "tok-sched" in f and "sched_fixed_1/" not in f]
    seq_files = [f for f in files if "tok-seq-" in f]
    rs_files = [f for f in files if "tok-rsched" in f]
    _selftests(ctx, [
        ([first_sched], corrupt_min, "observed min_version raised above a live token's version"),
        ([first_sched], corrupt_counts, "active_readers at quiescence +1"),
        (sched_files, corrupt_second_writer, "refused second writer turned into a granted one"),
        (cache_sched + rs_files, corrupt_second_scoped_writer, "with_writer_token refused while a writer is live turned into a closure that ran"),
        (seq_files, corrupt_counts_in_closure, "counters inside a with_*_token closure do not count the closure's token"),
        (cache_sched + rs_files, corrupt_cached_version, "token handed out of the per-thread cache with another version"),
        (seq_files, corrupt_cache_get, "TokenCache::get_*_token returned a token with another version"),
        (rs_files + seq_files, corrupt_validate, "validate_token_version(valid version) = false"),
        (seq_files + rs_files, corrupt_reclaim, "item handed to the free callback with age >= threshold"),
        (seq_files + rs_files, corrupt_reclaim_foreign_item, "free callback received an item twice"),
        (seq_files, corrupt_level_facts, "OneWriteMultiRead reports allows_concurrent_writers"),
        (seq_files, corrupt_token_valid, "live token of a closure reports is_valid() = false"),
        (seq_files, corrupt_use, "token lent to insert/lookup/contains_with_token is not a live token"),
        (seq_files, corrupt_after_neutral, "counters read 0 after a neutral method although tokens are live"),
        (seq_files[::-1], corrupt_unwind, "a token in scope of a caught panic is still counted after the unwinding"),
        (seq_files[::-1], corrupt_quiescent, "active_writers = 1 at quiescence after a survived panic"),
        (seq_files[::-1], corrupt_must_writer, "writer refused at quiescence after a survived panic (OneWriteMultiRead)"),
    ])
    # ---- evidence
    cov = ctx.cov
    cov["evaluations"] = sched_total + s_r.get("schedules", 0) + s_q.get("runs", 0) + s_s.get("events", 0) + 1
    cov["distinct_nontrivial"] = sched_total + s_r.get("schedules", 0) + s_q.get("runs", 0)
    cov["rule"] = ("B3: every complete interleaving (thread-id schedule) of the listed 2-3 thread programs is generated by TLC from "
                   "VersionManagerMech (repaired protocol, incl. the per-thread token cache and with_*_token) and executed by real threads on the "
                   "real VersionManager / TokenManager under the cooperative "
                   "scheduler (quick: all schedules of the small programs, a seeded sample of the larger sets; thorough: all); distinct = "
                   "distinct (program, schedule) pairs + seeded random (program, schedule) pairs + sequential TokenManager/cache histories; "
                   "each contains at least one acquire; every run is judged by TLC against Tokens.tla after every step")
    cov["random_schedules"] = s_r.get("schedules", 0)
    cov["random_schedules_per_level"] = s_r.get("per_level", {})
    cov["random_schedule_ops"] = s_r.get("ops", {})
    cov["sequential_cache_histories"] = s_q.get("runs", 0)
    cov["sequential_history_stats"] = s_q.get("stats", {})
    cov["panic_unwind_histories"] = s_q.get("panic_histories", 0)
    cov["stress_events"] = s_s.get("events", 0)
    cov["stress_scoped_rounds"] = s_s.get("scoped_rounds", 0)
    cov["model_vs_real_step_structure_differs_in_runs"] = drift
    cov["kf1_witness_rc"] = s_u["_rc"]
    cov["kf1_cache_witness_rc"] = s_u2["_rc"]
    cov["exhaustive"] = all(x["exhaustive"] for x in cov["schedule_sets"] if x["program_set"] in ("fixed_1", "fixed_2", "fixed_3", "fixed_10"))
    ctx.sample_from_trace(first_sched, 14)
    if seq_files:
        ctx.sample_from_trace(seq_files[0], 14)
    if cache_sched:
        ctx.sample_from_trace(cache_sched[-1], 14)
    ctx.assumptions += [
        "sequentially consistent interleavings only (the scheduler serialises threads); pre-emption only at hook sites (after each critical section and each counter update) and between API calls (one inside every with_*_token closure)",
        "stress run: only sound facts are judged (own-token observations, stamped ownership intervals, counters at quiescence)",
        "the harness assigns token identities; whether an acquire was served from the per-thread cache is inferred from the manager's counters (sequential mode) or from the token's version (scheduled / stress modes, versions being unique per manager)",
        "a token parked in a cache (per-thread or a user's TokenCache) counts as live; insert/lookup/contains_with_token of CompressedSparseTrie ignore their token argument, the contract only requires that the token lent is live and stays so",
    ]


def replay(ctx, path):
    rep = json.load(open(path))
    ctx.build(BIN)
    reset = rep.get("reset", {})
    p = os.path.join(ctx.work, "replay_sched.ndjson")
    if "sched" in reset and "prog" in reset:
        item = {"p": reset.get("p", 0), "prog": reset["prog"], "sched": reset["sched"], "fixed": True,
                "onewriter": reset.get("variant") != "MultiWriteMultiRead", "share": bool(reset.get("share", True)),
                "level": reset.get("variant"), "thr": reset.get("thr", [])}
        open(p, "w").write(json.dumps(item) + "\n")
        s = ctx.harness(BIN, "sched", "rp", extra={"in": p})
    else:
        ctx.seed = rep.get("seed", ctx.seed)
        ctx.tier = rep.get("tier", ctx.tier)
        mode = "seq" if reset.get("fam") == "tm" else ("stress" if reset.get("stress") else "rsched")
        extra = {"unsafe": 1} if reset.get("variant") == "unsafe_drops" else {}
        s = ctx.harness(BIN, mode, "rp", extra=extra, allow_fail=True)
    files = sorted(glob.glob(os.path.join(s["_out"], "*.ndjson")))
    ctx.validate(TRACE, files, what="replay of " + os.path.basename(path))
    ctx.cov["evaluations"] = s.get("events", 1)
    ctx.cov["distinct_nontrivial"] = max(2, s.get("runs", 0))
    ctx.cov["rule"] = "replay"
    ctx.sample({"replayed": path})
