"""C18 — every submitted task runs exactly once; ordered pipelines keep their order.

Executor.tla (contract: each accepted task is queued | running | done, taken at most once, nothing
left at quiescence) and ParallelMap.tla (one result per input, in order, F applied; failures surface
as errors).  WorkStealingMech.tla models the queues and find_task's polling order with weak fairness:
TLC's liveness check shows that the pinned find_task strands tasks with one worker and that the
repaired one does not.  The real WorkStealingQueue, WorkStealingExecutor (tokio), FiberPool and
Pipeline are run and every recorded run is judged by TLC (Trace_Executor.tla).
"""
import glob
import json
import os

import vlib

LEVEL = "model_checking"
BIN = "c18"
TRACE = "Trace_Executor"


def corrupt_double_take(run):
    for i, e in enumerate(run):
        if e.get("op") == "take":
            run.insert(i + 1, dict(e))
            return run
    return None


def corrupt_lost_task(run):
    """drop the take/exec_end of one task of an executor run: the final state then leaves it queued"""
    if run[0].get("fam") != "wse":
        return None
    ids = [e["id"] for e in run if e.get("op") == "take"]
    if not ids:
        return None
    victim = ids[-1]
    return [e for e in run if not (e.get("op") in ("take", "exec_end") and e.get("id") == victim)]


def corrupt_shifted_map(run):
    for e in run:
        if e.get("op") == "pmap" and e.get("ok") and len(e.get("out", [])) >= 2:
            e["out"] = e["out"][1:] + e["out"][:1]
            if e["out"] != sorted(e["out"]) or True:
                return run
    return None


def corrupt_bulk_twice(run):
    """one task of a bulk run executed twice"""
    for e in run:
        if e.get("op") == "bulk":
            for i, a in enumerate(e["accepted"]):
                if a:
                    e["execs"][i] = 2
                    return run
    return None


def corrupt_bulk_refused_ran(run):
    """a task whose submit was refused ran all the same"""
    for e in run:
        if e.get("op") == "bulk" and False in e["accepted"]:
            e["execs"][e["accepted"].index(False)] = 1
            return run
    return None


def corrupt_task_attrs(run):
    """with_priority ignored"""
    for e in run:
        if e.get("op") == "task_attrs":
            e["got_prio"] = e["prio"] + 1
            return run
    return None


def corrupt_panic_loses_neighbour(run):
    """the task after a panicking one never runs (its take / exec_end removed)"""
    pid = [e["id"] for e in run if e.get("op") == "exec_panic"]
    if not pid:
        return None
    ids = [e["id"] for e in run if e.get("op") == "take" and e["id"] != pid[0]]
    if not ids:
        return None
    victim = ids[-1]
    out = [e for e in run if not (e.get("op") in ("take", "exec_end") and e.get("id") == victim)]
    out[-1] = dict(out[-1], executed=out[-1]["executed"] - 1)
    return out


def corrupt_global_missing(run):
    """global() reporting no executor after a successful init"""
    for e in run:
        if e.get("op") == "global" and e.get("initialised"):
            e["present"] = False
            return run
    return None


def corrupt_blocking_shift(run):
    for e in run:
        if e.get("op") == "pbatch" and e.get("api") == "concurrency::spawn_blocking" and len(e.get("out", [])) >= 2 and e["out"][0] != e["out"][1]:
            e["out"] = e["out"][1:] + e["out"][:1]
            return run
    return None


def _first_with(files, pred):
    for p in files:
        for e in vlib.read_ndjson(p):
            if pred(e):
                return p
    return files[0]


def run(ctx):
    ctx.build(BIN)
    th = ctx.thorough
    ctx.tlc_mc("MC_WSMech", cfg="MC_WSMech_pinned_1w.cfg", expect="EventuallyDone", workers=4,
               note="find_task of the pinned tree, 1 worker: a task parked by balance() in the own steal queue is never polled (repaired by 2d747fa)")
    ctx.tlc_mc("MC_WSMech", cfg="MC_WSMech_pinned_2w.cfg", workers=4, note="pinned find_task, 2 workers: holds")
    for c in ["MC_WSMech_fixed_1w", "MC_WSMech_fixed_2w", "MC_WSMech_fixed_3w"]:
        ctx.tlc_mc("MC_WSMech", cfg=c + ".cfg", workers=4, note="repaired find_task: Conservation + EventuallyDone under WF per worker, no state constraint")
    s_q = ctx.harness(BIN, "queue", "queue")
    s_e = ctx.harness(BIN, "exec", "exec", timeout=1500)
    s_p = ctx.harness(BIN, "par", "par")
    s_b = ctx.harness(BIN, "bulk", "bulk", timeout=600)
    s_g = ctx.harness(BIN, "global", "global", timeout=900)
    files = []
    for s in (s_q, s_e, s_p, s_b, s_g):
        files += sorted(glob.glob(os.path.join(s["_out"], "*.ndjson")))
    ctx.validate(TRACE, files, what="task execution run")
    qf = sorted(glob.glob(os.path.join(s_q["_out"], "*.ndjson")))
    ef = sorted(glob.glob(os.path.join(s_e["_out"], "*.ndjson")))
    pf = sorted(glob.glob(os.path.join(s_p["_out"], "*.ndjson")))
    ctx.selftest_corrupt(TRACE, qf[0], corrupt_double_take, "a task returned by two pops")
    ctx.selftest_corrupt(TRACE, ef[0], corrupt_lost_task, "an accepted task never executed (left queued at the end)")
    ctx.selftest_corrupt(TRACE, pf[0], corrupt_shifted_map, "parallel_map result rotated by one position")
    bf = sorted(glob.glob(os.path.join(s_b["_out"], "*.ndjson")))
    gf = sorted(glob.glob(os.path.join(s_g["_out"], "*.ndjson")))
    ctx.selftest_corrupt(TRACE, bf[0], corrupt_bulk_twice, "a task of a bulk run executed twice")
    ctx.selftest_corrupt(TRACE, _first_with(bf, lambda e: e.get("op") == "bulk" and False in e["accepted"]), corrupt_bulk_refused_ran,
                         "a task refused by submit (all queues full) executed all the same")
    ctx.selftest_corrupt(TRACE, _first_with(ef, lambda e: e.get("op") == "task_attrs"), corrupt_task_attrs, "ClosureTask::with_priority ignored")
    ctx.selftest_corrupt(TRACE, _first_with(ef, lambda e: e.get("op") == "exec_panic"), corrupt_panic_loses_neighbour,
                         "a task accepted next to a panicking one never executed")
    ctx.selftest_corrupt(TRACE, gf[0], corrupt_global_missing, "WorkStealingExecutor::global() empty after a successful init_concurrency")
    ctx.selftest_corrupt(TRACE, _first_with(gf, lambda e: e.get("api") == "concurrency::spawn_blocking" and len(e.get("out", [])) >= 2 and e["out"][0] != e["out"][1]),
                         corrupt_blocking_shift, "spawn_blocking results rotated by one position")
    # --- extension: Pipeline::execute_stream / execute_two_stage, BatchCollector, async blob stores, fiber_yield,
    # fiber_aio (spec/PipelineStream.tla, harness bin c18b, tools/props/C18b.py)
    from props import C18b
    C18b.run_ext(ctx)
    cov = ctx.cov
    own = (s_q, s_e, s_p, s_b, s_g)
    cov["evaluations"] = sum(s.get("events", 0) for s in own) + cov.get("ext_evaluations", 0)
    cov["distinct_nontrivial"] = sum(s.get("runs", 0) for s in own)
    cov["executor_configs"] = s_e.get("configs", 0)
    cov["executor_configs_with_unfinished_tasks"] = s_e.get("stuck_configs", 0)
    cov["executor_configs_with_panicking_task"] = s_e.get("panic_configs", 0)
    cov["executor_configs_with_panicking_task_unfinished"] = s_e.get("panic_configs_stuck", 0)
    cov["bulk_submits_refused"] = s_b.get("refused", 0)
    if s_b.get("refused", 0) == 0:
        ctx.tool_errors.append("vacuity: the bulk runs never reached the 'all queues full' refusal")
    cov["rule"] = ("queue: seeded random push_local/pop_local/steal/balance histories on the real WorkStealingQueue (capacities 1..8), drained at the end; "
                   "exec: real WorkStealingExecutor for workers {1,2,3,4,8} x capacities {1,2,3,4,16,256} x task counts around one local queue's capacity, around all local queues together (overflow to the global queue), 40, 130, 260 "
                   "x burst/yield variants x {Task impl, ClosureTask builders, submit_closure} x tasks submitted from inside tasks; a task panicking in the middle of the batch (own subject); "
                   "bulk: > 10 000 tasks behind blocked workers (global queue limit: refusals, every accepted task once); "
                   "global: init_concurrency / init / global(), batches on the process-wide executor, concurrency::spawn+join_all / parallel_map / parallel_reduce / spawn_blocking with failing and panicking items; "
                   "par: FiberPool/Pipeline calls over input lengths 0..40 with failing items; distinct = runs (each run has its own seed-derived configuration and contains at least one accepted task or one call)")
    ctx.sample_from_trace(ef[0], 12)
    ctx.sample_from_trace(pf[0], 4)
    ctx.assumptions += [
        "a task that has not started %d ms after the last event on an otherwise quiet executor will never start (tasks are no-ops)" % 1500,
        "the executor is observed through the task bodies (first poll = taken) and its public counters; queue-internal moves are not logged (no hook needed)",
    ]


def replay(ctx, path):
    rep = json.load(open(path))
    ctx.build(BIN)
    ctx.seed = rep.get("seed", ctx.seed)
    ctx.tier = rep.get("tier", ctx.tier)
    fam = rep.get("reset", {}).get("fam")
    if fam not in ("wsq", "wse", "par"):
        from props import C18b
        if hasattr(C18b, "replay_ext"):
            return C18b.replay_ext(ctx, rep)
    mode = {"wsq": "queue", "wse": "exec", "par": "par"}.get(fam, "exec")
    subj = rep.get("subject") or ""
    if subj in ("wse@bulk",):
        mode = "bulk"
    if subj in ("wse@global", "par@module"):
        mode = "global"
    s = ctx.harness(BIN, mode, "rp", timeout=1500)
    files = sorted(glob.glob(os.path.join(s["_out"], "*.ndjson")))
    ctx.validate(TRACE, files, what="replay of " + os.path.basename(path))
    ctx.cov["evaluations"] = s.get("events", 1)
    ctx.cov["distinct_nontrivial"] = max(2, s.get("runs", 0))
    ctx.cov["rule"] = "replay"
    ctx.sample({"replayed": path})
