"""C12 — suffix arrays order all suffixes; LCP, BWT and pattern search are exact.

spec/SuffixArray.tla holds the definitions (lexicographic order on unsigned byte strings, IsSA, LcpOk,
BwtOk, SearchOk / RangeOk, PositionsOk, MatchDepth) and the contract actions for batch events.
MC_SuffixArray model-checks the coherence of the definitions for EVERY string over {a,b} up to length 6
(quick) / 7 (thorough): exactly one permutation satisfies IsSA, the index-based operators agree with the
sequence definitions, the occurrences of every pattern are a contiguous rank interval which is the only
one SearchOk accepts, LCP/BWT have exactly the defined solution, and every swap of two array entries /
range widened by one / LCP entry changed is rejected.
Harness bin c12 runs every construction algorithm and every suffix-array entry point of zipora on every
string over <= 3 symbols up to length 7 (8 thorough) plus families (a^n, (ab)^n, Fibonacci, runs, random
over alphabets 1..256 with 0x00/0x80/0xFF, length <= 300, a few of 1200+) and logs the arrays and the
answers to every pattern; Trace_SuffixArray validates: the oracle is the TLA+ definition evaluated by TLC.
Large texts (10^4..10^5) are judged through a projection (permutation flag, adjacent order violations).
"""
import glob
import json
import os

import vlib

LEVEL = "exploration"
BIN = "c12"
TRACE = "Trace_SuffixArray"
# short single-worker runs: C1 compiler only and two GC threads (half the CPU time of the defaults)
JVM = "-Xmx2g -XX:TieredStopAtLevel=1 -XX:ParallelGCThreads=2"


def _files(s):
    return sorted(glob.glob(os.path.join(s["_out"], "*.ndjson")))


def _head(path):
    with open(path) as f:
        try:
            return json.loads(f.readline())
        except Exception:
            return {}


def _files_of(files, subject, batch=None):
    out = []
    for p in files:
        h = _head(p)
        if h.get("subject") == subject and (batch is None or h.get("batch", "").startswith(batch)):
            out.append(p)
    return out


def _cases(events):
    """split a trace into cases: (reset, [text event, ...answers])"""
    reset, cur, out = None, None, []
    for e in events:
        if e.get("op") == "reset":
            reset = e
            cur = None
        elif e.get("op") in ("text", "text_proj"):
            cur = [e]
            out.append((reset, cur))
        elif cur is not None:
            cur.append(e)
    return out


def _mini(path, want):
    """the first case of a trace file satisfying want(case events) as a one-case run"""
    for reset, case in _cases(vlib.read_ndjson(path)):
        if want(case):
            return [dict(reset)] + [json.loads(json.dumps(e)) for e in case]
    return None


def _selftest_prepare(ctx, path, want, corrupt, what, k):
    """binding self-test on a one-case run: the recorded case must be accepted as recorded and
    rejected after `corrupt` changed one answer.  Returns the two trace files."""
    run = _mini(path, want)
    if run is None:
        raise vlib.ToolError("binding self-test: no suitable case in %s (%s)" % (path, what))
    base = os.path.join(ctx.work, "selftest-base-%d.ndjson" % k)
    vlib.write_ndjson(base, run)
    bad = corrupt(json.loads(json.dumps(run)))
    if bad is None:
        raise vlib.ToolError("binding self-test: corruption not applicable (%s)" % what)
    mut = os.path.join(ctx.work, "selftest-mut-%d.ndjson" % k)
    vlib.write_ndjson(mut, bad)
    return base, mut


def _selftests(ctx, tests):
    """tests: (path, want, corrupt, what).  The first two go through ctx.selftest_corrupt; the others are
    validated in parallel with the same acceptance rule (uncorrupted accepted, corrupted rejected)."""
    import concurrent.futures as cf
    prepared = [(_selftest_prepare(ctx, p, w, c, what, k), c, what) for k, (p, w, c, what) in enumerate(tests)]
    bases = sorted({b for (b, _), _, _ in prepared}, key=lambda x: open(x).read())
    # identical base cases are validated once
    by_content = {}
    for b in bases:
        by_content.setdefault(open(b).read(), b)
    with cf.ThreadPoolExecutor(max_workers=min(ctx.jobs, 8)) as ex:
        base_res = dict(zip(by_content.values(), ex.map(lambda f: vlib.validate_one(TRACE, f, jvm=JVM), by_content.values())))
        for (b, m), c, what in prepared:
            r = base_res[by_content[open(b).read()]]
            if not r["accepted"]:
                raise vlib.ToolError("binding self-test: the uncorrupted case is not accepted (%s): %s" % (what, r))
        for (b, m), c, what in prepared[:2]:
            ctx.selftest_corrupt(TRACE, b, lambda evs, c=c: c(evs), what)
        rest = prepared[2:]
        for ((b, m), c, what), r in zip(rest, ex.map(lambda t: vlib.validate_one(TRACE, t[0][1], jvm=JVM), rest)):
            ok = (not r["accepted"]) and r["rejected_at"] is not None
            ctx.cov["selftests"].append({"what": what, "rejected_as_expected": ok, "at": r["rejected_at"]})
            if not ok:
                raise vlib.ToolError("binding self-test failed: corrupted trace (%s) was not rejected: %s" % (what, r))
            vlib.log("self-test ok: %s (rejected at line %s)" % (what, r["rejected_at"]))


def _ev(case, op):
    for e in case:
        if e.get("op") == op:
            return e
    return None


def _text_len(case):
    t = _ev(case, "text")
    return len(t["text"]) if t else 0


# ---- corruptions

def c_swap(run):
    e = _ev(run, "sa")
    s = list(e["sa"])
    i = len(s) // 3
    s[i], s[i + 1] = s[i + 1], s[i]
    e["sa"] = s
    # the ranks answer is swapped too, so that only the order of the suffixes can be what is rejected
    r = _ev(run, "ranks")
    if r:
        rr = list(r["r"])
        rr[i], rr[i + 1] = rr[i + 1], rr[i]
        r["r"] = rr
    return run


def _present(e, field):
    """index of a pattern with a non-empty range in a search event"""
    for k, p in enumerate(e["pats"]):
        if not p:
            continue
        a = e[field][k]
        if field == "search" and a[1] > 0:
            return k
        if field in ("range", "match") and a[1] > a[0]:
            return k
    return None


def c_widen_hi(run):
    e = _ev(run, "search")
    n = _text_len(run)
    for k, p in enumerate(e["pats"]):
        a = e["range"][k]
        if p and a[1] > a[0] and a[1] < n:
            e["range"][k] = [a[0], a[1] + 1]
            return run
    return None


def c_widen_lo(run):
    e = _ev(run, "search")
    for k, p in enumerate(e["pats"]):
        a = e["range"][k]
        if p and a[1] > a[0] and a[0] > 0:
            e["range"][k] = [a[0] - 1, a[1]]
            return run
    return None


def c_count_search(run):
    e = _ev(run, "search")
    k = _present(e, "search")
    if k is None:
        return None
    e["search"][k] = [e["search"][k][0], e["search"][k][1] - 1]
    return run


def c_absent_found(run):
    """an absent pattern answered with a one-element range"""
    e = _ev(run, "search")
    for k, p in enumerate(e["pats"]):
        a = e["range"][k]
        if p and a[0] == a[1]:
            e["range"][k] = [0, 1]
            return run
    return None


def c_lcp(run):
    e = _ev(run, "lcp")
    l = list(e["lcp"])
    l[len(l) // 2] += 1
    e["lcp"] = l
    return run


def c_lcp_shift(run):
    """the other common indexing convention: lcp[r] = lcp(rank r, rank r+1)"""
    e = _ev(run, "lcp")
    l = list(e["lcp"])
    sh = l[1:] + [0]
    if sh == l:
        return None
    e["lcp"] = sh
    e["at"] = sh + [-1]
    return run


def c_bwt(run):
    e = _ev(run, "bwt")
    b = list(e["bwt"])
    b[len(b) // 2] = (b[len(b) // 2] + 1) % 256
    e["bwt"] = b
    return run


def c_bwt_sentinel(run):
    """the entry of sa[r] = 0 answered with another convention (first byte instead of the last)"""
    s = _ev(run, "sa")["sa"]
    t = _ev(run, "text")["text"]
    e = _ev(run, "bwt")
    r = s.index(0)
    if t[0] == t[-1]:
        return None
    b = list(e["bwt"])
    b[r] = t[0]
    e["bwt"] = b
    return run


def c_ranks_none(run):
    e = _ev(run, "ranks")
    r = list(e["r"])
    r[-1] = 0
    e["r"] = r
    return run


def c_count(run):
    e = _ev(run, "search")
    for k, p in enumerate(e["pats"]):
        if p and e["count"][k] > 0:
            e["count"][k] += 1
            return run
    return None


def c_find(run):
    e = _ev(run, "search")
    for k, p in enumerate(e["pats"]):
        if p and len(e["find"][k]) >= 2:
            e["find"][k] = e["find"][k][:-1]
            return run
    return None


def c_match_depth(run):
    e = _ev(run, "search")
    for k, p in enumerate(e["pats"]):
        m = e["match"][k]
        if m[2] >= 1 and m[1] > m[0]:
            e["match"][k] = [m[0], m[1], m[2] - 1]
            return run
    return None


def c_match_range(run):
    e = _ev(run, "search")
    n = _text_len(run)
    for k, p in enumerate(e["pats"]):
        m = e["match"][k]
        if m[2] >= 1 and m[1] > m[0] and m[1] < n:
            e["match"][k] = [m[0], m[1] + 1, m[2]]
            return run
    return None


def c_da(run):
    """da_match_max_length: range of a present prefix widened by one"""
    e = _ev(run, "search")
    n = _text_len(run)
    for k, p in enumerate(e["pats"]):
        m = e["da"][k]
        if m[2] >= 1 and m[1] > m[0] and m[1] < n:
            e["da"][k] = [m[0], m[1] + 1, m[2]]
            return run
    return None


def c_da_empty(run):
    e = _ev(run, "search")
    e["da_empty"] = [0, 1, 0]
    return run


def c_mcount(run):
    e = _ev(run, "search")
    for k, p in enumerate(e["pats"]):
        if e["mcount"][k] > 0:
            e["mcount"][k] += 1
            return run
    return None


def c_ranked_order(run):
    """find_all_matches: two positions of the suffix-ordered list exchanged"""
    e = _ev(run, "search")
    for k, p in enumerate(e["pats"]):
        r = e["ranked"][k]
        if len(r) >= 2:
            e["ranked"][k] = [r[1], r[0]] + r[2:]
            return run
    return None


def c_longest_len(run):
    e = _ev(run, "longest")
    for k, r in enumerate(e["res"]):
        if r and r[0] >= 2:
            e["res"][k] = [r[0] - 1, r[1]]
            return run
    return None


def c_longest_pos(run):
    """dict_position moved to a place where the matched bytes do not occur"""
    e = _ev(run, "longest")
    t = _ev(run, "text")["text"]
    for k, r in enumerate(e["res"]):
        if not r:
            continue
        q = e["inputs"][k][e["pos"][k]:][:r[0]]
        for i in range(len(t)):
            if t[i:i + len(q)] != q:
                e["res"][k] = [r[0], i]
                return run
    return None


def c_longest_none(run):
    e = _ev(run, "longest")
    for k, r in enumerate(e["res"]):
        if r:
            e["res"][k] = []
            return run
    return None


def c_longest_past_end(run):
    """position >= len(input) answered with a match"""
    e = _ev(run, "longest")
    for k, r in enumerate(e["res"]):
        if e["pos"][k] >= len(e["inputs"][k]):
            e["res"][k] = [1, 0]
            return run
    return None


def c_longest_short(run):
    """a longest match shorter than min_pattern_length answered Some"""
    e = _ev(run, "longest")
    for k, r in enumerate(e["res"]):
        if not r and e["pos"][k] < len(e["inputs"][k]):
            e["res"][k] = [1, 0]
            return run
    return None


def c_eqr(run):
    e = _ev(run, "eqr")
    for it in e["items"]:
        for k, r in enumerate(it["res"]):
            if r[1] > r[0]:
                it["res"][k] = [r[0], r[1] - 1] if r[1] - r[0] >= 2 else [r[0] + 1, r[1] + 1]
                return run
    return None


def c_eqr_absent(run):
    """an absent extension answered with a non-empty range"""
    e = _ev(run, "eqr")
    for it in e["items"]:
        for k, r in enumerate(it["res"]):
            if r[1] <= r[0]:
                it["res"][k] = [it["lo"], it["lo"] + 1]
                return run
    return None


def c_dtext(run):
    e = _ev(run, "built")
    t = list(e["dtext"])
    t[-1] = (t[-1] + 1) % 256
    e["dtext"] = t
    return run


def c_dict_proj_viol(run):
    e = _ev(run, "dict_proj")
    e["items"][0]["viol"] = 1
    return run


def c_dict_proj_count(run):
    e = _ev(run, "dict_proj")
    e["items"][0]["npos"] += 1
    return run


def c_dict_proj_range(run):
    e = _ev(run, "dict_proj")
    m = e["items"][0]["m"]
    e["items"][0]["m"] = [m[0], m[1] + 1, m[2]]
    return run


def c_proj(run):
    e = _ev(run, "sa_proj")
    e["violations"] = 1
    return run


def _is_const(case):
    t = _ev(case, "text")
    return t is not None and len(t["text"]) >= 4 and len(set(t["text"])) == 1


def _rich(case, need, minlen=5, two=True):
    t = _ev(case, "text")
    if t is None or len(t["text"]) < minlen or (two and len(set(t["text"])) < 2):
        return False
    return all(_ev(case, op) is not None for op in need)


def run(ctx):
    ctx.build(BIN)
    # --- the definitions, exhaustively for every string over {a,b} up to length 6 / 7
    ctx.tlc_mc("MC_SuffixArray", cfg="MC_SuffixArray7.cfg" if ctx.thorough else "MC_SuffixArray.cfg", workers=4, timeout=1500,
               note="every string over {a,b} up to length %d, every pattern up to length 3: the suffix array is the unique "
                    "permutation satisfying IsSA; index operators = sequence definitions; occurrences of every pattern form "
                    "the rank interval [RangeLo, RangeHi), the only one SearchOk / RangeOk accept; LCP / BWT uniquely defined; "
                    "every swap, widened range, changed LCP / BWT entry rejected" % (7 if ctx.thorough else 6))
    # --- the real code
    s = ctx.harness(BIN, "drive", "b1", timeout=2400)
    files = _files(s)
    if not files:
        raise vlib.ToolError("c12 produced no traces")
    ctx.validate(TRACE, files, what="suffix array / LCP / BWT / search answers", max_reject_per_file=6,
                 timeout=1500 if ctx.thorough else 400, jvm=JVM)
    # --- binding self-tests on cases the strict contract accepts
    ls = _files_of(files, "sab:ls", "exh")
    fam_ls = _files_of(files, "sab:ls", "families")
    big_ls = _files_of(files, "sab:ls", "big")
    bwt = _files_of(files, "esa:bwt", "exh")
    csa = _files_of(files, "csa:dict", "families")
    dic = _files_of(files, "dict:adaptive", "exh")
    if not (ls and fam_ls and bwt and csa and dic):
        raise vlib.ToolError("binding self-test: trace files of sab:ls / esa:bwt / csa:dict / dict:adaptive missing")
    base = ls[-1]  # the longest texts of the exhaustive batch
    need = ("sa", "ranks", "lcp", "search")
    tests = []
    tests.append((base, lambda c: _rich(c, need), c_swap, "two adjacent suffix array entries swapped (array and suffix_at_rank answers)"))
    tests.append((base, lambda c: _rich(c, need) and c_widen_hi([dict(e) for e in json.loads(json.dumps(c))]) is not None,
              c_widen_hi, "search_range upper bound widened by one"))
    tests.append((base, lambda c: _rich(c, need) and c_widen_lo(json.loads(json.dumps(c))) is not None,
              c_widen_lo, "search_range lower bound widened by one"))
    tests.append((base, lambda c: _rich(c, need), c_count_search, "search() count of a present pattern reduced by one"))
    tests.append((base, lambda c: _rich(c, need), c_absent_found, "absent pattern answered with a non-empty range"))
    tests.append((base, lambda c: _rich(c, need), c_lcp, "one LCP entry changed by +1"))
    tests.append((base, lambda c: _rich(c, need) and c_lcp_shift(json.loads(json.dumps(c))) is not None,
              c_lcp_shift, "LCP array shifted by one rank (other indexing convention)"))
    tests.append((base, lambda c: _rich(c, need), c_ranks_none, "suffix_at_rank(n) answered instead of None"))
    tests.append((fam_ls[0], lambda c: _rich(c, need, minlen=100), c_swap, "two entries swapped in a long (>= 100) array"))
    tests.append((bwt[-1], lambda c: _rich(c, ("sa", "bwt")), c_bwt, "one BWT byte changed"))
    tests.append((bwt[-1], lambda c: _rich(c, ("sa", "bwt")) and c_bwt_sentinel(json.loads(json.dumps(c))) is not None,
              c_bwt_sentinel, "BWT entry of sa[r] = 0 answered with the first byte instead of the last"))
    tests.append((csa[0], _is_const, c_count, "count_pattern changed by +1"))
    tests.append((csa[0], _is_const, c_find, "find_pattern lost one occurrence"))
    tests.append((dic[-1], lambda c: _rich(c, ("built", "search")), c_match_depth, "dictionary match depth reduced by one"))
    tests.append((dic[-1], lambda c: _rich(c, ("built", "search")) and c_match_range(json.loads(json.dumps(c))) is not None,
              c_match_range, "dictionary match range widened by one"))
    dneed = ("built", "search", "longest", "eqr")
    for sub in ("dict:adaptive", "dict:serde", "dict:file", "dict:optimized"):
        fs = _files_of(files, sub, "exh abc")
        if not fs:
            raise vlib.ToolError("binding self-test: no trace file of " + sub)
        tests.append((fs[-1], lambda c: _rich(c, dneed, minlen=4) and c_da(json.loads(json.dumps(c))) is not None, c_da,
                      "da_match_max_length range widened by one (%s)" % sub))
    dd = dic[-1]
    tests.append((dd, lambda c: _rich(c, dneed), c_da_empty, "da_match_max_length of the empty input answered with a range"))
    tests.append((dd, lambda c: _rich(c, dneed), c_mcount, "match_count changed by +1"))
    tests.append((dd, lambda c: _rich(c, dneed) and c_ranked_order(json.loads(json.dumps(c))) is not None, c_ranked_order,
                  "find_all_matches: two positions out of suffix order"))
    tests.append((dd, lambda c: _rich(c, dneed) and c_longest_len(json.loads(json.dumps(c))) is not None, c_longest_len,
                  "find_longest_match length reduced by one"))
    tests.append((dd, lambda c: _rich(c, dneed) and c_longest_pos(json.loads(json.dumps(c))) is not None, c_longest_pos,
                  "find_longest_match dict_position moved to a non-occurrence"))
    tests.append((dd, lambda c: _rich(c, dneed), c_longest_none, "find_longest_match answered None although a match exists"))
    tests.append((dd, lambda c: _rich(c, dneed), c_longest_past_end, "find_longest_match past the end of the input answered with a match"))
    tests.append((dd, lambda c: _rich(c, dneed), c_eqr, "sa_equal_range range of a present extension changed"))
    tests.append((dd, lambda c: _rich(c, dneed) and c_eqr_absent(json.loads(json.dumps(c))) is not None, c_eqr_absent,
                  "sa_equal_range: absent extension answered with a non-empty range"))
    tests.append((dd, lambda c: _rich(c, dneed), c_dtext, "dictionary_text differs from the text in one byte"))
    m4 = _files_of(files, "dict:min4", "exh abc")
    if m4:
        tests.append((m4[-1], lambda c: _rich(c, dneed, minlen=4) and c_longest_short(json.loads(json.dumps(c))) is not None,
                      c_longest_short, "min_pattern_length 4: a shorter longest match answered Some"))
    if not big_ls:
        raise vlib.ToolError("binding self-test: no trace file of sab:ls / big")
    dbig = _files_of(files, "dict:ls", "blocks big")
    cbig = _files_of(files, "csa:dict", "blocks big")
    if not (dbig and cbig):
        raise vlib.ToolError("binding self-test: no trace file of dict:ls / csa:dict for the block texts")
    has_dp = lambda c: _ev(c, "dict_proj") is not None
    tests.append((dbig[0], has_dp, c_dict_proj_viol, "projected dictionary case: occurrences of the block out of suffix order"))
    tests.append((dbig[0], has_dp, c_dict_proj_count, "projected dictionary case: one position too many"))
    tests.append((dbig[0], has_dp, c_dict_proj_range, "projected dictionary case: rank range of the block widened by one"))
    tests.append((cbig[0], lambda c: _ev(c, "sa_proj") is not None, c_proj, "projected compressor case: one adjacent order violation"))
    if big_ls:
        tests.append((big_ls[0], lambda c: _ev(c, "sa_proj") is not None, c_proj, "projected case: one adjacent order violation"))
    _selftests(ctx, tests)
    # --- evidence
    cov = ctx.cov
    cov["evaluations"] = s.get("answers", 0)
    cov["batch_events"] = s.get("events", 0)
    cov["runs"] = s.get("runs", 0)
    cov["cases"] = s.get("cases", 0)
    cov["texts"] = s.get("texts", 0)
    cov["max_len"] = s.get("max_len", 0)
    cov["subjects"] = s.get("subjects", {})
    nontrivial = 0
    vacuous = []
    for name, d in s.get("subjects", {}).items():
        nontrivial += d.get("nontrivial", 0)
        if d.get("nontrivial", 0) == 0:
            vacuous.append(name)
    cov["distinct_nontrivial"] = nontrivial
    cov["vacuous_subjects"] = vacuous
    # strategy switch of Adaptive: every branch of select_algorithm must have been taken on judged texts
    sel = {}
    for name in ("sab:adaptive", "sab:adaptive_t16"):
        for k, v in s.get("subjects", {}).get(name, {}).get("selected", {}).items():
            sel[name + " " + k] = v
    cov["adaptive_selected"] = sel
    required = ["sab:adaptive_t16 dc3<thr", "sab:adaptive_t16 dc3>=thr", "sab:adaptive_t16 sais>=thr", "sab:adaptive_t16 ls>=thr",
                "sab:adaptive dc3<thr", "sab:adaptive sais>=thr", "sab:adaptive ls>=thr", "sab:adaptive divsufsort>=thr"]
    missing = [r for r in required if not sel.get(r)]
    if missing:
        raise vlib.ToolError("vacuity: Adaptive never selected " + ", ".join(missing))
    cov["exhaustive"] = True
    L = (8, 7, 6) if ctx.thorough else (7, 5, 5)
    cov["rule"] = ("a case = one (subject, text) pair: subject = construction algorithm / entry point (SuffixArrayBuilder x "
                   "{SAIS, DivSufSort, DC3, LarssonSadakane, Adaptive}, SA-IS without optimize_small_alphabet / through the parallel "
                   "path, SuffixArray::new + Algorithm::execute, EnhancedSuffixArray::with_lcp / with_bwt, compression::"
                   "SuffixArrayCompressor x 4 presets, dict_zip::SuffixArrayDictionary x 9: array by Adaptive / SA-IS / LarssonSadakane / DC3 / DivSufSort, pattern window 4..8, deserialize(serialize), load_from_file(save_to_file), optimize_cache; Adaptive with adaptive_threshold = 16); texts are distinct by content.  "
                   "Counted when the text has >= 2 bytes and the subject returned an array (or dictionary) whose answers were "
                   "recorded and judged.  exhaustive refers to: EVERY string over 3 symbols (a,b,c) of length 0..%d for the five "
                   "builder algorithms, 0..%d for the other array entry points, 0..%d for the dictionary and for the symbol map "
                   "(0x00,0x80,0xFF); families (a^n, (ab)^n, (abc)^n, Fibonacci and Thue-Morse words incl. lengths 15/16/17, runs, texts on both sides of every branch of select_algorithm (4|5 symbols, repetition ratio 0.69..0.71, entropy 1.6|2.2), texts ending in their smallest / largest symbol and in 0x00 / 0xFF, texts B f1 B f2 [B f3] with a repeated block B of 15/16/17/255/256/257 bytes (judged entry by entry) and 255..257/1023/1024/1025/4095/4096/4097/70 000 bytes (projection; every adjacent rank pair is compared, so the pairs around the occurrences of B are included), B random over 256 / 4 symbols, runs of 8, low entropy, periodic, a^n, the earlier occurrence followed by the smaller and by the larger byte, for every builder algorithm, every Adaptive branch, the compressor and the dictionary over each construction; monotone, all 256 byte values, random "
                   "over alphabets of 1..256 symbols incl. 0x00/0x80/0xFF, length <= 300, random of 1200+) are samples; texts of "
                   "9 999 / 10 000 / 20 000 / 50 000 / 50 001 .. %s bytes (both sides of the size thresholds of Adaptive) are judged through the projection (permutation flag, adjacent order violations = 0).  "
                   "Every case carries the whole array, suffix_at_rank(0..=n), the LCP array, and the answers of every search API "
                   "for every pattern of its list (all strings of length <= 2 over the symbols / distinct substrings of length "
                   "<= %d, perturbed and over-long patterns, foreign bytes, the empty pattern).  evaluations = individual array "
                   "entries and pattern answers judged by TLC against the TLA+ definitions."
                   % (L[0], L[1], L[2], "1 000 001" if ctx.thorough else "50 001", 4 if ctx.thorough else 3))
    run1 = _mini(_files_of(files, "sab:ls", "exh abc")[-1], lambda c: _rich(c, need, minlen=6))
    if run1:
        ctx.sample({"trace_file": os.path.relpath(base, vlib.VERIF), "case": run1})
    run2 = _mini(fam_ls[0], lambda c: _rich(c, need, minlen=8) and _text_len(c) <= 16)
    if run2:
        ctx.sample({"trace_file": os.path.relpath(fam_ls[0], vlib.VERIF), "case": run2})
    run3 = _mini(dic[-1], lambda c: _rich(c, ("built", "search")))
    if run3:
        ctx.sample({"trace_file": os.path.relpath(dic[-1], vlib.VERIF), "case": run3})
    ctx.assumptions += [
        "the oracle is the TLA+ definition (SuffixArray.tla) evaluated by TLC over the recorded arrays and answers; the harness "
        "generates texts and patterns, calls zipora and logs what it returned (None -> -1); it sorts no suffixes and searches "
        "nothing itself",
        "large cases (>= 9 999 bytes) only: the harness projects the returned array to (is a permutation, number of adjacent rank "
        "pairs whose suffixes are out of order) with a generic slice comparison; TLC judges the projection (violations = 0)",
        "the text is passed again by the caller to search()/find_pattern(); the harness always passes the text the array was built from",
        "LCP convention checked: n entries, lcp[0] = 0, lcp[r] = lcp(rank r-1, rank r); BWT convention: cyclic (sa[r] = 0 takes the last byte)",
        "the empty pattern: the whole range (0, n) or the documented refusal (0, 0) / no positions are both accepted",
        "find_longest_match is called with max_length = usize::MAX (the parameter is ignored by the code; C12 does not speak about it); "
        "dict_position may be any occurrence of the matched bytes",
        "the array inside SuffixArrayDictionary is not observable: its rank ranges are judged against the array-free formulation "
        "RangeOk (MC_SuffixArray checks it coincides with SearchOk on the suffix array)",
    ]


def replay(ctx, path):
    """re-execute the (subject, text) of a replay file against the current tree and validate again"""
    rep = json.load(open(path))
    ctx.build(BIN)
    reset = rep.get("reset", {})
    ctx.tier = rep.get("tier", ctx.tier)
    ctx.seed = reset.get("seed", rep.get("seed", ctx.seed))
    extra = {}
    texts = [e for e in rep.get("events", []) if e.get("op") == "text"]
    if texts:
        extra["text"] = "".join("%02x" % b for b in texts[-1]["text"]) or "-"
    elif reset.get("batch"):
        extra["only"] = reset["batch"]
    s = ctx.harness(BIN, "drive", "rp", subject=rep.get("subject"), extra=extra)
    files = _files(s)
    ctx.validate(TRACE, files, what="replay of " + os.path.basename(path), max_reject_per_file=6, jvm=JVM)
    ctx.cov["evaluations"] = s.get("answers", 0)
    ctx.cov["distinct_nontrivial"] = max(2, s.get("cases", 0))
    ctx.cov["rule"] = "replay of one (subject, text) pair"
    ctx.sample({"replayed": path})
