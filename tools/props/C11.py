"""C11 — sorts, merges and set operations produce the mathematically defined result.

spec/SortMerge.tla (IsSorted, IsPermutation as bags, IsSortedPermutation, KeepsPairs, StableByKey, Merge)
and spec/SetOps.tla (two-pointer / k-pointer recursions of the documented set operations) are the ORACLE:
definitions written in TLA+, evaluated by TLC on what the real code returned.  MC_SortMerge checks the
coherence of the definitions on EVERY pair of sequences over {0,1,2} of length <= 4.  Harness bin c11 runs
every sorting / merging / set-operation entry point of src/algorithms (about 250 subjects = entry point x
configuration) on generated inputs and logs one batch event per call; Trace_SortMerge validates.
Small regime (<= 64 elements): full sequences.  Large regime (thresholds .. a few 10^5 elements):
lengths, order-independent multiset digests and the number of adjacent inversions.
"""
import glob
import json
import os

import vlib

LEVEL = "exploration"
BIN = "c11"
TRACE = "Trace_SortMerge"
JVM = "-Xmx2g -XX:TieredStopAtLevel=1 -XX:ParallelGCThreads=1 -XX:CICompilerCount=1"


# ---- binding self-tests: a corrupted output must be rejected

def _distinct_pair(seq):
    for i in range(len(seq) - 1):
        if seq[i] != seq[i + 1]:
            return i
    return None


def corrupt_swap(run):
    """two (different, adjacent) elements of a sort output swapped"""
    for e in run:
        if e.get("op") == "sort" and e.get("ok") and len(e["out"]) >= 4:
            i = _distinct_pair(e["out"])
            if i is None:
                continue
            out = list(e["out"])
            out[i], out[i + 1] = out[i + 1], out[i]
            e["out"] = out
            return [run[0], e]
    return None


def corrupt_merge_drop(run):
    """one element of a merge output dropped"""
    for e in run:
        if e.get("op") == "merge" and e.get("ok") and len(e["out"]) >= 3:
            out = list(e["out"])
            del out[len(out) // 2]
            e["out"] = out
            return [run[0], e]
    return None


def corrupt_sort_dup(run):
    """one element of a sort output overwritten by its neighbour (length kept, bag changed)"""
    for e in run:
        if e.get("op") == "sort" and e.get("ok") and len(e["out"]) >= 4:
            i = _distinct_pair(e["out"])
            if i is None:
                continue
            out = list(e["out"])
            out[i + 1] = out[i]
            e["out"] = out
            return [run[0], e]
    return None


def corrupt_kv_values(run):
    """the values of two pairs with different keys exchanged"""
    for e in run:
        if e.get("op") == "sort_kv" and e.get("ok") and len(e["out"]) >= 4:
            out = [list(p) for p in e["out"]]
            for i in range(len(out) - 1):
                if out[i][0] != out[i + 1][0]:
                    out[i][1], out[i + 1][1] = out[i + 1][1], out[i][1]
                    e["out"] = out
                    return [run[0], e]
    return None


def corrupt_setop(run):
    """one element of a set-operation result dropped"""
    for e in run:
        if e.get("op") == "setop" and len(e["out"]) >= 2:
            e["out"] = list(e["out"])[1:]
            return [run[0], e]
    return None


def corrupt_kinter(run):
    """an element added to a k-way intersection"""
    for e in run:
        if e.get("op") == "ksetop" and e.get("name") == "k_inter" and e.get("ok") and len(e["runs"]) >= 2:
            e["out"] = list(e["out"]) + [2147483000]
            return [run[0], e]
    return None


def corrupt_big_inv(run):
    """large regime: one adjacent inversion reported"""
    for e in run:
        if e.get("op") == "sort_big" and e.get("ok"):
            e["inv"] = 1
            return [run[0], e]
    return None


def corrupt_big_bag(run):
    """large regime: the output digest differs in one bit"""
    for e in run:
        if e.get("op") in ("sort_big", "merge_big") and e.get("ok"):
            b = list(e["bag_out"])
            b[1] ^= 1
            e["bag_out"] = b
            return [run[0], e]
    return None


def corrupt_peek(run):
    """one peek() answer replaced by the element that is popped one step later"""
    for e in run:
        if e.get("op") == "peekpop" and e.get("ok") and len(e["out"]) >= 4:
            i = _distinct_pair(e["out"])
            if i is None:
                continue
            pk = list(e["peeks"])
            pk[i] = [e["out"][i + 1]]
            e["peeks"] = pk
            return [run[0], e]
    return None


def corrupt_compare(run):
    """one three-way comparison answer changed (Equal reported as Greater / anything else as Equal)"""
    for e in run:
        if e.get("op") == "compare" and e.get("ok") and len(e["out"]) >= 9:
            out = list(e["out"])
            out[8] = 1 if out[8] == 0 else 0
            e["out"] = out
            return [run[0], e]
    return None


def corrupt_argmin(run):
    """the LAST instead of the first minimum reported (index moved to a later equal element), or index + 1"""
    for e in run:
        if e.get("op") == "argmin" and e.get("r") and len(e["a"]) >= 9:
            i, v = e["r"][0]
            later = [j for j in range(i + 1, len(e["a"])) if e["a"][j] == v]
            e["r"] = [[later[-1] if later else (i + 1) % len(e["a"]), v]]
            return [run[0], e]
    return None


def _files(s):
    return sorted(glob.glob(os.path.join(s["_out"], "*.ndjson")))


def _file_with(files, pred):
    """first trace file containing a run (of a subject without recorded findings) with an event satisfying pred"""
    for p in files:
        try:
            evs = vlib.read_ndjson(p)
        except Exception:
            continue
        subj = ""
        for e in evs:
            if e.get("op") == "reset":
                subj = e.get("subject", "")
            elif pred(subj, e):
                # self-tests corrupt the FIRST suitable run of the file: cut the file down to that subject's runs
                runs = [r for r in vlib.split_runs(evs) if r[0].get("subject") == subj]
                q = p + ".selftest-src"
                vlib.write_ndjson(q, [x for r in runs for x in r])
                return q
    return None


def run(ctx):
    ctx.build(BIN)
    # --- coherence of the definitions on tiny domains (every pair of sequences over {0,1,2}, length <= 4)
    ctx.tlc_mc("MC_SortMerge", workers=4, timeout=900,
               note="every pair (a, b) of sequences over {0,1,2} of length <= 4: IsSortedPermutation has exactly one "
                    "solution (the insertion sort); two-pointer union/intersection/difference are sorted and have the "
                    "prescribed bags; k-pointer operations agree with them; KeepsPairs rejects the first-value "
                    "corruption; limb-wise and byte-wise orders agree with the numeric order")
    # --- the real code
    # temporary files of the code under test (spilled runs) stay under /verif/work
    os.makedirs(os.path.join(vlib.WORK, "C11-tmp"), exist_ok=True)
    os.environ["TMPDIR"] = os.path.join(vlib.WORK, "C11-tmp")
    s = ctx.harness(BIN, "drive", "b1", timeout=3000 if ctx.thorough else 900)
    files = _files(s)
    if not files:
        raise vlib.ToolError("c11 produced no traces")
    # short validations: C1-only JIT and one GC thread halve the fixed cost of a JVM start on a loaded machine
    ctx.validate(TRACE, files, what="sort / merge / set-operation batch events", max_reject_per_file=60,
                 timeout=1500 if ctx.thorough else 500, jvm=JVM)
    # --- binding self-tests
    clean = lambda subj: subj.startswith(("radix:u64", "mwm:heap", "setops:multiset_union", "ksets:bitmask", "mops:"))
    tests = [
        (corrupt_swap, "two adjacent elements of a sort output swapped", lambda s_, e: s_.startswith("radix:u64") and e.get("op") == "sort" and len(e.get("out", [])) >= 8),
        (corrupt_merge_drop, "one element of a merge output dropped", lambda s_, e: s_.startswith("mwm:heap") and e.get("op") == "merge" and len(e.get("out", [])) >= 6),
        (corrupt_kv_values, "values of two pairs with different keys exchanged", lambda s_, e: e.get("op") == "sort_kv" and e.get("ok") and len(e.get("out", [])) >= 6),
        (corrupt_setop, "one element of a set-operation result dropped", lambda s_, e: s_.startswith("setops:multiset_union") and e.get("op") == "setop" and len(e.get("out", [])) >= 4),
        (corrupt_kinter, "an element added to a k-way intersection", lambda s_, e: s_.startswith("ksets:bitmask") and e.get("op") == "ksetop" and e.get("name") == "k_inter" and len(e.get("runs", [])) >= 2),
        (corrupt_peek, "loser tree: one peek() answer differs from the element popped next", lambda s_, e: e.get("op") == "peekpop" and e.get("ok") and len(e.get("out", [])) >= 6),
        (corrupt_compare, "one element-wise comparison answer changed", lambda s_, e: e.get("op") == "compare" and e.get("ok") and len(e.get("out", [])) >= 9),
        (corrupt_argmin, "find_min: a later minimum / a wrong index reported", lambda s_, e: e.get("op") == "argmin" and e.get("r") and len(e.get("a", [])) >= 9),
        (corrupt_big_inv, "large regime: one adjacent inversion reported", lambda s_, e: s_.startswith("radix:u64") and e.get("op") == "sort_big" and e.get("ok")),
        (corrupt_big_bag, "large regime: output digest changed in one bit", lambda s_, e: s_.startswith("mwm:heap") and e.get("op") == "merge_big" and e.get("ok")),
    ]
    for mut, what, pred in tests:
        src = _file_with(files, pred)
        if src is None:
            raise vlib.ToolError("binding self-test: no recorded event suitable for: " + what)
        ctx.selftest_corrupt(TRACE, src, mut, what)
    # --- evidence
    cov = ctx.cov
    cov["evaluations"] = s.get("events", 0)
    cov["elements_sorted_or_merged"] = s.get("elements", 0)
    cov["runs"] = s.get("runs", 0)
    cov["ops"] = s.get("ops", {})
    cov["refusals"] = s.get("refusals", 0)
    cov["panics"] = s.get("panics", 0)
    cov["crashes"] = s.get("crashes", 0)
    cov["max_len"] = s.get("max_len", 0)
    cov["n_subjects"] = s.get("n_subjects", 0)
    cov["subjects"] = s.get("subjects", {})
    cov["vacuous_subjects"] = s.get("vacuous_subjects", [])
    cov["distinct_nontrivial"] = s.get("distinct_nontrivial", 0)
    cov["exhaustive"] = False
    cov["rule"] = ("a case = one call of one subject (entry point x configuration: strategy, radix width 1..16, thresholds, thread "
                   "count, buffer size, comparator, cache hierarchy, element type u8/u16/u32/u64/i32/i64/u128/(u64,u64)/String/Vec<u8>/"
                   "RadixString/wide structs) on one generated input; inputs = shape (all equal, sorted, reversed, random, nearly sorted, "
                   "concatenated runs, sorted head + random tail) x value domain (few values, medium, values differing only in the highest "
                   "byte >= 2^31 / 2^63, only in the high word, full range, values 2^k-1/2^k/2^k+1 for every k, maxima 2^B-1 / 2^B at "
                   "the digit boundaries B of the radix width, 65535/65536 around the counting-sort bound; byte strings: short, 10-byte and "
                   "70-byte common prefix, prefix chains, first byte only) x length (0..9, 15..17, 24, 25, 31..33, 63, 64 fully logged; "
                   "lengths on both sides of every threshold constant 16/32/64/100/256/1000/1024/10000/20000, of the L1/L2/cache-aware "
                   "windows of the detected cache hierarchy per element size, and up to 1.05 million as digests); merges with 0..12, 17, 65, "
                   "70 ways: empty, single, all-equal, disjoint (both orders), interleaved runs; set operations with every multiplicity "
                   "combination 0/1/3 and on both sides of the 1small size-ratio switch; comparison kernels on 0..64 elements incl. "
                   "i32::MIN/MAX and ties.  Counted as distinct non-trivial: distinct (subject, operation, input) fingerprints with at "
                   "least 2 input elements whose call returned Ok (refusals, panics and crashes are not counted).  evaluations = batch "
                   "events judged by TLC.")
    # samples: for a few families the reset event and the first fully logged call with at least 6 input elements
    for fam in ("m-radix", "m-kv", "m-lt", "m-setops", "m-ksets", "m-co"):
        ps = [p for p in files if os.path.basename(p).startswith(fam)]
        if not ps:
            continue
        evs = vlib.read_ndjson(ps[0])
        reset = None
        for e in evs:
            if e.get("op") == "reset":
                reset = e
                continue
            n = sum(len(e.get(k, [])) for k in ("in", "a", "b")) + sum(len(r) for r in e.get("runs", []))
            if n >= 6 and e.get("op") not in ("panic", "crash"):
                ctx.sample({"trace_file": os.path.relpath(ps[0], vlib.VERIF), "reset": reset, "event": e}, limit=8)
                break
    big = [e for p in files if os.path.basename(p).startswith("m-radix") for e in vlib.read_ndjson(p) if e.get("op") == "sort_big"][:1]
    if big:
        ctx.sample({"large_regime_event": big[0]}, limit=8)
    ctx.assumptions += [
        "the oracle is the TLA+ definition (SortMerge.tla / SetOps.tla) evaluated by TLC over the recorded inputs and outputs; the "
        "harness generates inputs (sorted inputs by construction through monotone maps, no sort call), encodes keys and, for the "
        "large regime, computes two generic projections (multiset digest, adjacent-inversion count); it never compares an output "
        "with an expectation",
        "large regime: equality of multisets is decided on a (sum, xor) digest of a 60-bit per-element mix (collision probability "
        "about 2^-60 per comparison); sortedness on the exact count of adjacent inversions",
        "u32 keys >= 2^31 and all u64 keys are compared limb-wise in TLA+ (spec/lib/Limbs.tla), byte strings lexicographically; i64 is "
        "logged in offset binary (x XOR 2^63, order preserving), u128 and (u64,u64) as 16 big-endian bytes",
        "hardware paths: whatever the host CPU selects at run time (AVX2/BMI2 present here); scalar fall-backs are reached through "
        "the use_simd / use_avx2 configuration switches only",
        "crashes are contained: jobs run in child processes under RLIMIT_AS = 6 GiB; a child killed by a signal is reported as a "
        "crash event for the job it was executing and judged by the contract (which has no action for it)",
        "a sort returning Err is a refusal and accepted if the data handed back is still a permutation of the input; a merge or "
        "k-way set operation returning Err is accepted (refusal rule); refusals are counted",
    ]


def replay(ctx, path):
    """re-execute the subject of a replay file against the current tree and validate again"""
    rep = json.load(open(path))
    ctx.build(BIN)
    ctx.tier = rep.get("tier", ctx.tier)
    ctx.seed = rep.get("seed", ctx.seed)
    subj = rep.get("subject")
    fam = (subj or "").split(":")[0]
    os.makedirs(os.path.join(vlib.WORK, "C11-tmp"), exist_ok=True)
    os.environ["TMPDIR"] = os.path.join(vlib.WORK, "C11-tmp")
    s = ctx.harness(BIN, "drive", "rp", subject=subj, extra={"fam": fam} if fam else None, timeout=900)
    files = _files(s)
    ctx.validate(TRACE, files, what="replay of " + os.path.basename(path), max_reject_per_file=60, jvm=JVM)
    ctx.cov["evaluations"] = s.get("events", 0)
    ctx.cov["distinct_nontrivial"] = s.get("distinct_nontrivial", 0)
    ctx.cov["rule"] = "replay of one subject"
    ctx.sample({"replayed": path})
