"""C18 (extension) — the helpers the property lists besides the executor and the fiber pool.

run_ext(ctx) is called by C18.py after its own stages, with the same ctx:
  * TLC on the bounded model of the BatchCollector mechanism (MC_PipelineStream: all add /
    check_timeout (two critical sections) / flush interleavings over 5 items, max size 2 and 3;
    NoLoss, NoDup, OrderKept, SizeBound on the batches drained, Conforms = every step accepted by the
    contract; two wrong collectors must be caught),
  * the real Pipeline::execute_stream / execute_two_stage / BatchMapStage / FilterStage,
    BatchCollector (sequential histories; producers + start_timeout_checker), fiber_yield,
    fiber_aio (harness binary c18b) judged by Trace_PipelineStream.tla,
  * the real AsyncMemoryBlobStore / AsyncFileStore / AsyncCompressedBlobStore under concurrent
    callers judged by Trace_BlobStore.tla (the contract of the synchronous stores, C03).
Its numbers go to ctx.cov under keys prefixed ext_.  It never calls ctx.finish.
"""
import glob
import os

BIN = "c18b"
TRACE = "Trace_PipelineStream"
TRACE_STORE = "Trace_BlobStore"
GRACE_MS = 400


def corrupt_stream_swap(run):
    """two outputs of execute_stream swapped (reordered items)"""
    for e in run:
        if e.get("op") == "stream" and e.get("ok") and len(e.get("out_vals", [])) >= 2 and e["out_vals"][0] != e["out_vals"][1]:
            e["out_vals"][0], e["out_vals"][1] = e["out_vals"][1], e["out_vals"][0]
            return run
    return None


def corrupt_stream_drop(run):
    """the last output of a successful execute_stream missing (item lost, call still Ok)"""
    for e in run:
        if e.get("op") == "stream" and e.get("ok") and len(e.get("out_vals", [])) >= 1:
            e["out_vals"] = e["out_vals"][:-1]
            e["out_ids"] = e["out_ids"][:-1]
            return run
    return None


def corrupt_batch_lost(run):
    """one item missing from a batch handed out by the collector"""
    if run[0].get("fam") != "bc_seq":
        return None
    for e in run:
        if e.get("op") in ("add", "flush", "timeout") and e.get("some") and len(e.get("b", [])) >= 2:
            e["b"] = e["b"][:-1]
            return run
    return None


def corrupt_batch_dup(run):
    """a delivered batch repeated by the timeout checker"""
    if run[0].get("fam") != "bc_conc":
        return None
    for i, e in enumerate(run):
        if e.get("op") == "deliver":
            run.insert(i + 1, dict(e))
            return run
    return None


def corrupt_fiber_twice(run):
    """a fiber completing twice"""
    for i, e in enumerate(run):
        if e.get("op") == "fdone":
            run.insert(i + 1, dict(e))
            return run
    return None


def corrupt_read_shift(run):
    """a read answering with the bytes one position further"""
    content = None
    for e in run:
        if e.get("op") == "fopen":
            content = e["content"]
        if e.get("op") == "fread" and e.get("ok") and len(e.get("got", [])) >= 2 and content and len(set(content)) > 4:
            e["got"] = e["got"][1:] + e["got"][:1]
            if e["got"] != sorted(e["got"]) or True:
                return run
    return None


def corrupt_store_get(run):
    """a get of the async store answering with another record"""
    for e in run:
        if e.get("op") == "get" and e.get("ok") and e["d"]["len"] > 0:
            e["d"] = {"len": e["d"]["len"], "h": [e["d"]["h"][0] ^ 1, e["d"]["h"][1]]}
            return run
    return None


def corrupt_batch1_shift(run):
    """process_batch: the item in the middle failed, the call reports success with the later results moved up"""
    for e in run:
        if e.get("op") == "batch1" and not e.get("ok") and len(e.get("in", [])) >= 3:
            bad = set(e["failF"] + e["failG"] + e["slow"])
            f = {"F": lambda x: 2 * x + 1, "G": lambda x: x + 3, "S": lambda x: x}[e["kind"]]
            e["ok"] = True
            e["out"] = [f(x) for x in e["in"] if x not in bad]
            return run
    return None


def corrupt_batch1_value(run):
    for e in run:
        if e.get("op") == "batch1" and e.get("ok") and len(e.get("out", [])) >= 2 and e["out"][0] != e["out"][-1]:
            e["out"][0], e["out"][-1] = e["out"][-1], e["out"][0]
            return run
    return None


def corrupt_copy_from(run):
    """copy_to copied from the start of the source instead of the position"""
    for e in run:
        if e.get("op") == "copy_from" and e.get("ok") and e["pos"] > 0 and len(e["src"]) > e["pos"]:
            e["dst"] = e["src"]
            e["n"] = len(e["src"])
            return run
    return None


def corrupt_quiesce_dup_id(run):
    """two accepted records of the stress round share one id (the later insert overwrote the earlier one)"""
    for e in run:
        if e.get("op") == "as_quiesce" and len(e["puts"]) >= 2 and not e["removed"]:
            e["puts"][1]["id"] = e["puts"][0]["id"]
            return run
    return None


def corrupt_quiesce_len(run):
    """len() one short at quiescence"""
    for e in run:
        if e.get("op") == "as_quiesce" and e["len"] >= 1:
            e["len"] -= 1
            return run
    return None


def corrupt_quiesce_bytes(run):
    """an accepted record reads back as another task's bytes at quiescence"""
    for e in run:
        if e.get("op") == "as_quiesce" and len(e["puts"]) >= 2 and e["final"][0]["ok"] and e["final"][0]["d"] != e["final"][-1]["d"]:
            e["final"][0]["d"] = e["final"][-1]["d"]
            return run
    return None


def corrupt_duel_dup_id(run):
    """duel round: a single put and a batch item were given the same id"""
    for e in run:
        if e.get("op") == "as_quiesce_c" and len(e["ids"]) >= 2:
            e["ids"][-1] = e["ids"][0]
            return run
    return None


def corrupt_duel_overwritten(run):
    """duel round: an accepted record holds another record's bytes at quiescence, len one short"""
    for e in run:
        if e.get("op") == "as_quiesce_c" and len(e["ids"]) >= 2:
            e["fv"][0] = e["fv"][-1]
            return run
    return None


def _files(s):
    return sorted(glob.glob(os.path.join(s["_out"], "*.ndjson")))


def first_with(files, pred):
    import json
    for p in files:
        with open(p) as f:
            for line in f:
                if line.strip() and pred(json.loads(line)):
                    return p
    return files[0]


def run_ext(ctx):
    cov = ctx.cov
    ctx.build(BIN)
    # ---- the bounded model of the batch collector
    inv = "all add / check_timeout / flush interleavings; NoLoss NoDup OrderKept SizeBound Conforms EndOk"
    ctx.tlc_mc("MC_PipelineStream", cfg="MC_PipelineStream.cfg", workers=2, note="5 items, max 2, log order = drain order: " + inv,
               required_actions=("MAdd", "MCheckA", "MCheckB", "MFlush", "MFinal"))
    ctx.tlc_mc("MC_PipelineStream", cfg="MC_PipelineStream_m3.cfg", workers=2, note="5 items, max 3: " + inv)
    ctx.tlc_mc("MC_PipelineStream", cfg="MC_PipelineStream_conc.cfg", workers=2,
               note="5 items, max 2, batches of the timeout checker reach the log late: the concurrent contract actions accept every behaviour (no false alarm)",
               required_actions=("MOffer", "MDeliver"))
    ctx.tlc_mc("MC_PipelineStream", cfg="MC_PipelineStream_conc3.cfg", workers=2, note="same, max 3")
    ctx.tlc_mc("MC_PipelineStream", cfg="MC_PipelineStream_late.cfg", expect="SizeBound", workers=2,
               note="a collector that drains on len > max: caught (the model is not vacuous)")
    ctx.tlc_mc("MC_PipelineStream", cfg="MC_PipelineStream_norecheck.cfg", expect="SizeBound", workers=2,
               note="a check_timeout that drains without looking again after re-locking: hands out an empty batch, caught")
    # ---- the real code
    s_st = ctx.harness(BIN, "stream", "ext_stream", timeout=300)
    s_bc = ctx.harness(BIN, "collect", "ext_collect", timeout=300, extra={"grace_ms": GRACE_MS})
    s_fy = ctx.harness(BIN, "yield", "ext_yield", timeout=300, extra={"grace_ms": GRACE_MS})
    s_io = ctx.harness(BIN, "aio", "ext_aio", timeout=300)
    s_as = ctx.harness(BIN, "store", "ext_store", timeout=300)
    s_aq = ctx.harness(BIN, "storeq", "ext_storeq", timeout=600)
    files = _files(s_st) + _files(s_bc) + _files(s_fy) + _files(s_io) + _files(s_aq)
    ctx.validate(TRACE, files, what="pipeline / collector / fiber / file-I/O run")
    ctx.validate(TRACE_STORE, _files(s_as), what="async blob store under concurrent callers")
    # ---- binding self-tests: a corrupted recorded run must be rejected
    st, bc, fy, io = _files(s_st), _files(s_bc), _files(s_fy), _files(s_io)
    ctx.selftest_corrupt(TRACE, first_with(st, lambda e: e.get("op") == "stream" and e.get("ok") and len(e.get("out_vals", [])) >= 2),
                         corrupt_stream_swap, "two outputs of execute_stream swapped")
    ctx.selftest_corrupt(TRACE, first_with(st, lambda e: e.get("op") == "stream" and e.get("ok") and len(e.get("out_vals", [])) >= 1),
                         corrupt_stream_drop, "an item missing from the output of a successful execute_stream")
    ctx.selftest_corrupt(TRACE, first_with(st, lambda e: e.get("op") == "batch1" and not e.get("ok") and len(e.get("in", [])) >= 3),
                         corrupt_batch1_shift, "process_batch: results after a failing / timed-out item moved up, call reported Ok")
    ctx.selftest_corrupt(TRACE, first_with(st, lambda e: e.get("op") == "batch1" and e.get("ok") and len(e.get("out", [])) >= 2 and e["out"][0] != e["out"][-1]),
                         corrupt_batch1_value, "process_batch: two results exchanged")
    ctx.selftest_corrupt(TRACE, first_with(io, lambda e: e.get("op") == "copy_from" and e.get("ok") and e["pos"] > 0 and len(e["src"]) > e["pos"]),
                         corrupt_copy_from, "FiberFile::copy_to copying from the start instead of the position")
    ctx.selftest_corrupt(TRACE, bc[0], corrupt_batch_lost, "an item missing from a batch of the collector")
    ctx.selftest_corrupt(TRACE, first_with(bc, lambda e: e.get("op") == "deliver"), corrupt_batch_dup, "a batch delivered twice by the timeout checker")
    ctx.selftest_corrupt(TRACE, fy[0], corrupt_fiber_twice, "a fiber completing twice")
    ctx.selftest_corrupt(TRACE, io[0], corrupt_read_shift, "a read returning rotated bytes")
    aq = _files(s_aq)
    ctx.selftest_corrupt(TRACE, first_with(aq, lambda e: e.get("op") == "as_quiesce" and len(e["puts"]) >= 2 and not e["removed"]),
                         corrupt_quiesce_dup_id, "async store stress: one id handed out for two accepted records")
    fd = first_with(aq, lambda e: e.get("op") == "as_quiesce_c" and len(e["ids"]) >= 2)
    ctx.selftest_corrupt(TRACE, fd, corrupt_duel_dup_id, "async store duel round: a single put and a batch item share one id")
    ctx.selftest_corrupt(TRACE, fd, corrupt_duel_overwritten, "async store duel round: an accepted record overwritten by another one")
    ctx.selftest_corrupt(TRACE, aq[0], corrupt_quiesce_len, "async store stress: len() one short at quiescence")
    ctx.selftest_corrupt(TRACE, aq[0], corrupt_quiesce_bytes, "async store stress: an accepted record reads back with other bytes")
    ctx.selftest_corrupt(TRACE_STORE, _files(s_as)[0], corrupt_store_get, "an async store get returning another record")
    # ---- evidence
    ev = sum(s.get("events", 0) for s in (s_st, s_bc, s_fy, s_io, s_as, s_aq))
    runs = sum(s.get("runs", 0) for s in (s_st, s_bc, s_fy, s_io, s_as, s_aq))
    cov["ext_async_store_stress_rounds"] = s_aq.get("runs", 0)
    cov["ext_async_store_stress_calls"] = s_aq.get("calls", 0)
    cov["ext_async_store_stress_records"] = s_aq.get("records_put", 0)
    cov["ext_evaluations"] = ev
    cov["ext_runs"] = runs
    cov["ext_stream_calls"] = s_st.get("calls", 0)
    cov["ext_stream_runs_with_failing_item"] = s_st.get("runs_with_failing_item", 0)
    cov["ext_collector_seq_runs"] = s_bc.get("seq_runs", 0)
    cov["ext_collector_conc_runs"] = s_bc.get("conc_runs", 0)
    cov["ext_collector_checker_panics"] = s_bc.get("checker_panics", 0)
    cov["ext_fibers"] = s_fy.get("fibers", 0)
    cov["ext_yield_helper_calls"] = s_fy.get("helper_calls", 0)
    cov["ext_file_ops"] = s_io.get("file_ops", 0)
    cov["ext_async_store_records_put"] = s_as.get("records_put", 0)
    cov["ext_rule"] = ("stream: seeded execute_stream calls (0..20 items, 1..4 stages over F, G and a stage sleeping past the stage timeout, channel capacities 1..64, "
                       "slow consumer), execute_two_stage / execute_single, BatchMapStage x batching on/off x batch function, FilterStage, process_batch (PipelineBuilder) with an item failing / timing out in the middle, "
                       "in-flight limit 1 / n / n+1; "
                       "collect: seeded sequential add/check_timeout/flush/len histories (max 1..5, timeouts 0, 2, 8 ms, 10 s) and producers (1..3) + start_timeout_checker; "
                       "store: 1, 2, 4, 8 concurrent tasks on AsyncMemoryBlobStore / AsyncFileStore / AsyncCompressedBlobStore; "
                       "storeq: 80 stress rounds, 2 / 4 / 8 tasks sharing one store (memory, zstd over memory, file, zstd over file) on 4 runtime threads: bursts of put, put_batch of 1 / 2 / 17 / 200, "
                       "get, get_batch, remove, contains, len; every second AsyncMemoryBlobStore round a duel: 1-2 tasks storing 8 batches of 2000 back to back against 1-6 tasks storing single records; "
                       "judged at quiescence (ids pairwise distinct, every record its own bytes, len); "
                       "yield: 1..20 fibers x FiberYield / FiberYieldHandle / YieldPoint / GlobalYield x budgets 0..255; helpers of CooperativeUtils / YieldingIterator; "
                       "aio: seeded FiberFile read / read_at / seek / read_to_end / write histories on files of 0..200 bytes with read-ahead 8 B..256 KiB, copy, vectored I/O, "
                       "1..8 parallel readers of one file, FiberIoUtils; distinct = runs (each with its own seed-derived configuration)")
    ctx.sample_from_trace(first_with(st, lambda e: e.get("op") == "stream" and len(e.get("in", [])) >= 3), 4)
    ctx.sample_from_trace(bc[0], 8)
    ctx.assumptions += [
        "an item of a BatchCollector / a yielding fiber that has not come out / completed %d ms after the last event on an otherwise quiet runtime never will" % GRACE_MS,
        "check_timeout is required to hand out pending items only when the harness itself measured at least the batch timeout since the last hand-out it saw",
        "async store stress rounds are judged only by what was observed: the ids and bytes the calls returned while running (reads of ids the reader itself put and did not remove) and the state at quiescence after all tasks joined; no order between concurrent calls is assumed",
        "the log of the concurrent async-store run is a linearisation: an id is published to other tasks only after its put was logged; only the owner of an unpublished id removes it",
        "batches of concurrent producers are judged per batch (offered, never handed out before, distinct, size, per-producer ascending contiguous run) and for completeness at the end; "
        "the relative order of two batches drained concurrently is not observable from outside",
    ]


FAM_MODE = {"stream": "stream", "chain": "stream", "stages": "stream", "bc_seq": "collect", "bc_conc": "collect",
            "fibers": "yield", "yield_utils": "yield", "fiber_file": "aio", "fiber_file_w": "aio", "fiber_aio": "aio",
            "vectored": "aio", "par_read": "aio", "io_utils": "aio",
            "async_mem": "store", "async_file": "store", "async_zstd_mem": "store", "as_stress": "storeq"}


def replay_ext(ctx, rep):
    """replay of a rejected run recorded by run_ext (C18.replay may delegate here when
    rep['trace_spec'] is Trace_PipelineStream, or the family of rep['reset'] is one of FAM_MODE):
    the recorded events are judged again, and the harness mode that produced them is run again with
    the recorded seed / tier and judged.  Returns False when the replay file is not one of ours."""
    fam = rep.get("reset", {}).get("fam")
    if fam not in FAM_MODE:
        return False
    import vlib
    ctx.build(BIN)
    ctx.seed = rep.get("seed", ctx.seed)
    ctx.tier = rep.get("tier", ctx.tier)
    trace = TRACE_STORE if FAM_MODE[fam] == "store" else TRACE
    if fam == "as_stress":
        rep = dict(rep, subject=(rep.get("subject") or "").split("@")[0])
    rec = os.path.join(ctx.work, "recorded.ndjson")
    vlib.write_ndjson(rec, rep.get("events", []))
    ctx.validate(trace, [rec], what="recorded events of the replay file")
    extra = {"grace_ms": GRACE_MS} if FAM_MODE[fam] in ("collect", "yield") else None
    s = ctx.harness(BIN, FAM_MODE[fam], "ext_rp", timeout=600, extra=extra, subject=rep.get("subject"))
    ctx.validate(trace, _files(s), what="replay (mode %s re-run with the recorded seed)" % FAM_MODE[fam])
    ctx.cov["ext_evaluations"] = s.get("events", 1)
    return True

