"""C17 — caches stay within capacity, evict least-recently-used, never serve stale data.

spec/Lru.tla is the contract of LruMap / ConcurrentLruMap (function shard -> LRU record) and of
FsaCache as a bounded id-keyed store; spec/PageCache.tla the contract of LruPageCache /
SingleLruPageCache / CachedBlobStore.  MC_Lru checks the contract invariants and an independent
(logical clock) formulation of "least recently used" for every capacity <= 3 x 4 keys x 2 values;
MC_LruListMech checks that the mechanism of lru_map.rs (index + intrusive list + free stack)
refines the contract, and that clear() as written loses free nodes; MC_LruGen generates every
history of length L with TLC-computed results, callback logs, contents and final recency order
(B2); harness bin c17 drives ~45 subjects (B1) and replays B2; Trace_Lru / Trace_PageCache judge.
"""
import glob
import json
import os

import vlib

LEVEL = "model_checking"
BIN = "c17"
T_LRU = "Trace_Lru"
T_PC = "Trace_PageCache"
T_LIN = "Trace_LruLin"


# ----------------------------------------------------------------------------- corruptions (binding self-tests)

class Corrupt:
    """mutation of one run; remembers the (1-based) line it corrupted and cuts the run there"""

    def __init__(self, fn):
        self.fn = fn
        self.line = None

    def __call__(self, run):
        for i, e in enumerate(run):
            if i == 0:
                continue
            if self.fn(run[0], e, run[:i]):
                self.line = i + 1
                return run[:i + 1]
        return None


def c_evicted(reset, e, before):
    """the list of evicted (key, value) pairs the callback received is altered"""
    if reset.get("domain") == "lru" and reset.get("has_cb") and reset.get("strategy") in ("none", "hash") \
            and e.get("op") == "put" and e.get("ok") and e.get("ev"):
        e["ev"] = [[e["ev"][0][0] + 1, e["ev"][0][1]]]
        return True
    return False


def c_evicted_dropped(reset, e, before):
    """an eviction happened but the callback log is empty (callback not invoked)"""
    if reset.get("domain") == "lru" and reset.get("has_cb") and reset.get("strategy") in ("none", "hash") \
            and e.get("op") == "put" and e.get("ok") and e.get("ev"):
        e["ev"] = []
        return True
    return False


def c_get_value(reset, e, before):
    if reset.get("domain") == "lru" and reset.get("strategy") in ("none", "hash") and e.get("op") == "get" and e.get("r"):
        e["r"] = [e["r"][0] + 1]
        return True
    return False


def c_fsa_value(reset, e, before):
    if reset.get("domain") == "fsa" and e.get("op") == "get_state" and e.get("r"):
        e["r"] = [[e["r"][0][0] + 1, e["r"][0][1], e["r"][0][2]]]
        return True
    return False


def _clean_pc(before):
    """no earlier read of the run crosses EOF inside a partial last page (known finding C17-KF3 would reject there first)"""
    size = {b["f"]: b["size"] for b in before if b.get("op") == "file" and b.get("ok")}
    for b in before:
        if b.get("op") == "read" and b.get("f") in size:
            sz = size[b["f"]]
            if b["off"] < sz < b["off"] + b["len"] and sz % 4096 != 0:
                return False
    return True


def c_page_byte(reset, e, before):
    if reset.get("domain") == "pagecache" and e.get("op") == "read" and e.get("ok") and len(e.get("r", [])) >= 3 and _clean_pc(before + [e]):
        k = len(e["r"]) // 2
        e["r"][k] = (e["r"][k] + 1) % 251
        return True
    return False


def _byte(g, i):
    return (i + 31 * (i // 4096) + 97 * g + i // 251) % 251


def c_page_stale(reset, e, before):
    """after the harness rewrote a range and invalidated it, a read returns the OLD bytes of that range"""
    if reset.get("domain") != "pagecache" or e.get("op") != "read" or not e.get("ok") or not e.get("r") or not _clean_pc(before + [e]):
        return False
    f = e["f"]
    last = None
    for j, b in enumerate(before):
        if b.get("op") == "rewrite" and b.get("f") == f:
            nxt = before[j + 1] if j + 1 < len(before) else {}
            if nxt.get("op") in ("invalidate_range", "invalidate_page") and nxt.get("ok"):
                last = (j, b)
    if last is None:
        return False
    j, w = last
    # no later rewrite of the same file (keeps the expected old generation simple)
    if any(b.get("op") == "rewrite" and b.get("f") == f for b in before[j + 1:]):
        return False
    # generation before that rewrite: the file's initial generation if this was the only rewrite
    if any(b.get("op") == "rewrite" and b.get("f") == f for b in before[:j]):
        return False
    g0 = next((b["gen"] for b in before if b.get("op") == "file" and b.get("f") == f), None)
    if g0 is None:
        return False
    lo, hi = max(e["off"], w["a"]), min(e["off"] + len(e["r"]), w["b"])
    if lo >= hi:
        return False
    for i in range(lo, hi):
        e["r"][i - e["off"]] = _byte(g0, i)
    return True


def c_cstore_value(reset, e, before):
    if reset.get("domain") == "cstore" and e.get("op") == "get" and e.get("ok"):
        e["r"] = {"len": e["r"]["len"], "h": [e["r"]["h"][0], (e["r"]["h"][1] + 1) % (1 << 30)]}
        return True
    return False


def c_foreach(reset, e, before):
    if reset.get("domain") == "lru" and reset.get("strategy") == "hash" and e.get("op") == "for_each_shard" and e.get("ok"):
        e["hits"] = e["hits"] + 1
        return True
    return False


def c_is_empty(reset, e, before):
    if reset.get("domain") == "lru" and e.get("op") == "is_empty":
        e["r"] = not e["r"]
        return True
    return False


def c_zero_path(reset, e, before):
    """get_zero_path returns the path of another state / a stale path: one byte differs"""
    if reset.get("domain") == "fsa" and e.get("op") == "get_zero_path" and e.get("r") and e["r"][0]:
        e["r"] = [[(e["r"][0][0] + 1) % 256] + e["r"][0][1:]]
        return True
    return False


def c_zero_path_stale(reset, e, before):
    """a state id without zero path (never given one, or given to a NEW state after eviction) answers with a path"""
    if reset.get("domain") == "fsa" and e.get("op") == "get_zero_path" and not e.get("r") and any(b.get("op") == "add_zero_path" and b.get("ok") for b in before):
        e["r"] = [[1, 2, 3]]
        e["total"] = 3
        return True
    return False


def c_cstate(reset, e, before):
    if reset.get("domain") == "fsa" and e.get("op") == "cstate":
        e["marked"] = e["marked"][:3] + [False]
        return True
    return False


def c_buf(reset, e, before):
    """data() of a CacheBuffer shows another byte than was put in"""
    if reset.get("domain") == "buffer" and e.get("op") in ("buf_extend", "buf_copy", "buf_from_data", "buf_move") and e.get("data") \
            and not any(b.get("op") == "buf_reserve" for b in before):
        e["data"] = [(e["data"][0] + 1) % 256] + e["data"][1:]
        return True
    return False


def c_buf_pool(reset, e, before):
    """a buffer taken from the pool still holds bytes"""
    if reset.get("domain") == "buffer" and e.get("op") == "buf_new" and any(b.get("op") == "pool_put" for b in before) \
            and not any(b.get("op") == "buf_reserve" for b in before):
        e["data"] = [7]
        e["len"] = 1
        e["empty"] = False
        e["has"] = True
        return True
    return False


def c_far(reset, e, before):
    """a read at an offset beyond 2^44 returns the bytes of the page its 32-bit page number aliases"""
    if reset.get("domain") == "pagecache" and e.get("op") == "read_far" and e.get("ok") and _clean_pc(before):
        e["r"] = [97, 98, 99]
        return True
    return False


def c_fid(reset, e, before):
    """two open files get the same file id"""
    if reset.get("domain") == "pagecache" and e.get("op") == "file" and e.get("ok") and any(b.get("op") == "file" and b.get("ok") for b in before):
        e["fid"] = next(b["fid"] for b in before if b.get("op") == "file" and b.get("ok"))
        return True
    return False


def c_inner_remove(reset, e, before):
    """after the record was removed from the wrapped store the cached store still serves it"""
    if reset.get("domain") == "cstore" and e.get("op") == "get" and not e.get("ok") and not e.get("iok"):
        for b in before:
            if b.get("op") == "put" and b.get("ok") and b.get("id") == e.get("id"):
                e["ok"] = True
                e["r"] = b["d"]
                return True
    return False


def selftest_parallel(ctx, jobs):
    """jobs: (module, files, fn, what, required).  Same protocol as selftest(), the TLC runs side by side."""
    import concurrent.futures as cf

    def one(i, job):
        module, files, fn, what, required = job
        for path in files:
            for run in vlib.split_runs(vlib.read_ndjson(path)):
                c = Corrupt(fn)
                mutated = c([json.loads(json.dumps(e)) for e in run])
                if mutated is None:
                    continue
                p = os.path.join(ctx.work, "selftest-p%d.ndjson" % i)
                vlib.write_ndjson(p, mutated)
                r = vlib.validate_one(module, p)
                ok = (not r["accepted"]) and r["rejected_at"] == c.line
                return {"what": what, "rejected_as_expected": ok, "at": r["rejected_at"], "corrupted_line": c.line, "err": (r.get("err") or "")[:300]}
        return {"what": what, "rejected_as_expected": None if not required else False, "note": "no suitable run recorded in this tier/seed"}

    with cf.ThreadPoolExecutor(max_workers=min(ctx.jobs, 8)) as ex:
        res = list(ex.map(lambda ij: one(*ij), enumerate(jobs)))
    for r in res:
        if not r.pop("err", ""):
            pass
        ctx.cov["selftests"].append(r)
        if r["rejected_as_expected"] is False:
            raise vlib.ToolError("binding self-test failed: %s" % r)
        vlib.log("self-test %s: %s (line %s)" % ("ok" if r["rejected_as_expected"] else "skipped", r["what"], r.get("at")))


def selftest_lin(ctx, files, tries=6):
    """a recorded multi-threaded run that IS linearizable, with one returned value replaced by a value nobody put: must be rejected"""
    n = 0
    for path in files:
        for run in vlib.split_runs(vlib.read_ndjson(path)):
            if any(e.get("op") == "hang" or e.get("pending") for e in run[1:]):
                continue
            tgt = next((i for i, e in enumerate(run) if e.get("op") in ("get", "put") and e.get("r") and e.get("ok", True)), None)
            if tgt is None:
                continue
            n += 1
            if n > tries:
                break
            p = os.path.join(ctx.work, "selftest-lin.ndjson")
            vlib.write_ndjson(p, run)
            if not vlib.validate_one(T_LIN, p)["accepted"]:
                continue        # this run itself has no linearization (known finding C17-KF7): not usable
            bad = [json.loads(json.dumps(e)) for e in run]
            bad[tgt]["r"] = [4999]
            vlib.write_ndjson(p, bad)
            r = vlib.validate_one(T_LIN, p)
            ok = (not r["accepted"]) and r["rejected_at"] is not None
            ctx.cov["selftests"].append({"what": "multi-threaded run: a returned value replaced by one nobody put", "rejected_as_expected": ok, "at": r["rejected_at"]})
            if not ok:
                raise vlib.ToolError("binding self-test failed: corrupted multi-threaded run was accepted: %s" % r)
            vlib.log("self-test ok: corrupted multi-threaded run rejected (depth %s)" % r["rejected_at"])
            return True
    ctx.cov["selftests"].append({"what": "multi-threaded run: a returned value replaced by one nobody put", "rejected_as_expected": None,
                                 "note": "no linearizable multi-threaded run recorded (callers hang / interleave on this tree)"})
    return False


def selftest(ctx, module, files, fn, what, required=True):
    """corrupt one event of one recorded (strictly accepted) run, cut the run there: TLC must reject exactly that line"""
    for path in files:
        c = Corrupt(fn)
        n0 = len(ctx.cov["selftests"])
        try:
            ctx.selftest_corrupt(module, path, c, what)
        except vlib.ToolError as ex:
            if "no run suitable" in str(ex):
                continue
            raise
        st = ctx.cov["selftests"][n0]
        if st.get("at") != c.line:
            raise vlib.ToolError("binding self-test (%s): rejected at line %s, corrupted line %s" % (what, st.get("at"), c.line))
        return True
    if required:
        raise vlib.ToolError("binding self-test: no recorded run suitable for corruption (%s)" % what)
    ctx.cov["selftests"].append({"what": what, "rejected_as_expected": None, "note": "no suitable run recorded in this tier/seed"})
    return False


# ----------------------------------------------------------------------------- the check

def models(ctx):
    q = not ctx.thorough
    ctx.tlc_mc("MC_Lru", cfg="MC_Lru_quick.cfg" if q else "MC_Lru.cfg",
               note="Lru contract, capacity 1..3 x 4 keys x 2 values: capacity, callback exactly once / never for a retrievable entry, "
                    "victim = oldest logical-clock stamp, order = recency")
    sfx = "q" if q else "t"
    ctx.tlc_mc("MC_LruListMech", cfg="MC_LruListMech_fixed_%s.cfg" % sfx, timeout=1500,
               note="mechanism of lru_map.rs (clear() as repaired by 7d1dfdf): refines Lru.tla, no node lost, put never refused")
    ctx.tlc_mc("MC_LruListMech", cfg="MC_LruListMech_code_refines_%s.cfg" % sfx, timeout=1500,
               note="mechanism with clear() as it was before 7d1dfdf (fixed finding C17-KF4): still refines Lru.tla (a refused put changes nothing)")
    if not q:
        ctx.tlc_mc("MC_LruListMech", cfg="MC_LruListMech_code_lost_q.cfg", expect="NoLostNodes",
                   note="clear() before 7d1dfdf: after clear() free + in-use nodes < capacity")
    ctx.tlc_mc("MC_LruListMech", cfg="MC_LruListMech_code_refusal_q.cfg", expect="NoSpuriousRefusal",
               note="clear() before 7d1dfdf loses free nodes, a later put is refused although there is room (fixed finding C17-KF4)")


def merge_b2(ctx, gens, subject=None, sample=None, max_mismatch=None):
    """generate the behaviours of every (cfg, outdir) with TLC, replay them, add the summaries up"""
    tot = {"executions": 0, "events": 0, "runs": 0, "subjects": {}, "_outs": []}
    nbeh = 0
    for cfg, outdir in gens:
        beh, n = ctx.tlc_generate("MC_LruGen", cfg=cfg, timeout=3000, jvm="-Xmx12g", outfile=os.path.join(ctx.work, outdir + ".behaviours.ndjson"))
        if n == 0:
            raise vlib.ToolError("MC_LruGen/%s produced no behaviours" % cfg)
        nbeh += n
        extra = {"in": beh, "keys": 4, "sample": sample or (20000 if ctx.thorough else 4000),
                 "max_mismatch": max_mismatch or (3 if ctx.thorough else 2)}
        s = ctx.harness(BIN, "replay", outdir, extra=extra, timeout=3000, subject=subject)
        if s.get("behaviours") != n:
            raise vlib.ToolError("B2: harness read %s behaviours, TLC generated %d" % (s.get("behaviours"), n))
        os.remove(beh)
        tot["_outs"].append(s["_out"])
        for k in ("executions", "events", "runs"):
            tot[k] += s.get(k, 0)
        for name, d in s.get("subjects", {}).items():
            t = tot["subjects"].setdefault(name, {})
            for k, v in d.items():
                t[k] = t.get(k, 0) + v
    return tot, nbeh


def run(ctx):
    ctx.build(BIN)
    models(ctx)
    # --- B2: all histories of length L, expected results computed by TLC (thorough: L = 5, one TLC run per capacity)
    gens = [("MC_LruGen5_c%d.cfg" % c, "b2c%d" % c) for c in (1, 2, 3)] if ctx.thorough else [("MC_LruGen4.cfg", "b2")]
    s2, nbeh = merge_b2(ctx, gens)
    # --- B1: seeded random histories of all four domains
    s1 = ctx.harness(BIN, "drive", "b1")
    lru_b1 = sorted(glob.glob(os.path.join(s1["_out"], "lru-*.ndjson")))
    pc_b1 = sorted(glob.glob(os.path.join(s1["_out"], "pc-*.ndjson")))
    lru_b2 = sorted(f for o in s2["_outs"] for f in glob.glob(os.path.join(o, "*.ndjson")))
    ctx.validate(T_LRU, lru_b1 + lru_b2, what="LRU map / bounded store operation history")
    ctx.validate(T_PC, pc_b1, what="page cache / cached blob store / cache buffer operation history")
    lin_b1 = sorted(glob.glob(os.path.join(s1["_out"], "lin*.ndjson")))
    ctx.validate(T_LIN, lin_b1, what="LRU map driven by several caller threads (linearizability)")
    # --- binding self-tests: a corrupted observation must be rejected at exactly that line
    selftest(ctx, T_LRU, lru_b1, c_evicted, "evicted-key list of a put altered (key + 1)")
    selftest(ctx, T_PC, pc_b1, c_page_byte, "one byte of a page-cache read result changed")
    selftest_parallel(ctx, [
        (T_LRU, lru_b1, c_evicted_dropped, "eviction happened but the callback log is empty", True),
        (T_LRU, lru_b1, c_get_value, "value returned by get changed by +1", True),
        (T_LRU, lru_b1, c_fsa_value, "record returned by FsaCache::get_state changed", True),
        (T_LRU, lru_b1, c_foreach, "for_each_shard: number of shards holding the key changed", True),
        (T_LRU, lru_b1, c_is_empty, "is_empty() flipped", True),
        (T_LRU, lru_b1, c_zero_path, "FsaCache::get_zero_path: one byte of the path changed", True),
        (T_LRU, lru_b1, c_zero_path_stale, "FsaCache::get_zero_path answers for a state that has no zero path", True),
        (T_LRU, lru_b1, c_cstate, "CachedState::mark_free has no effect", True),
        (T_PC, pc_b1, c_page_stale, "read after rewrite + invalidate returns the old bytes (stale page)", False),
        (T_PC, pc_b1, c_cstore_value, "digest returned by CachedBlobStore::get changed", True),
        (T_PC, pc_b1, c_inner_remove, "CachedBlobStore::get serves a record removed from the wrapped store", True),
        (T_PC, pc_b1, c_buf, "CacheBuffer::data() shows another byte than was put in", True),
        (T_PC, pc_b1, c_buf_pool, "BufferPool::get hands out a buffer that still holds bytes", False),
        (T_PC, pc_b1, c_far, "read beyond 2^44 returns bytes (page number aliased modulo 2^32)", True),
        (T_PC, pc_b1, c_fid, "two open files share a file id", True),
    ])
    selftest_lin(ctx, lin_b1)
    evidence(ctx, s1, s2, nbeh, lru_b1, lru_b2, pc_b1)


def evidence(ctx, s1, s2, nbeh, lru_b1, lru_b2, pc_b1):
    cov = ctx.cov
    cov["evaluations"] = s1.get("events", 0) + s2.get("executions", 0)
    cov["b2_behaviours"] = nbeh
    cov["b2_executions"] = s2.get("executions", 0)
    cov["b1_events"] = s1.get("events", 0)
    cov["b1_runs"] = s1.get("runs", 0)
    cov["subjects"] = {}
    nontrivial = 0
    vacuous = []
    refused = 0
    evictions = 0
    for name, d in s1.get("subjects", {}).items():
        b = s2.get("subjects", {}).get(name, {})
        cov["subjects"][name] = {"b1": d, "b2": b}
        refused += d.get("refused", 0)
        evictions += d.get("evictions", 0)
        # distinct non-trivial: (subject, TLC history) pairs in which a put succeeded + (subject, B1 run) with a required action succeeding
        nontrivial += b.get("mutating_behaviours", 0)
        if d.get("successes", 0) > 0:
            nontrivial += d.get("runs", 0) - d.get("not_constructed", 0)
        if d.get("successes", 0) == 0 and b.get("mutating_behaviours", 0) == 0:
            vacuous.append(name)
    evicting_b2 = sum(b.get("evicting_behaviours", 0) for b in s2.get("subjects", {}).values())
    cov["distinct_nontrivial"] = nontrivial
    cov["vacuous_subjects"] = vacuous
    cov["refused_puts_b1"] = refused
    cov["evictions_observed_b1"] = evictions
    cov["b2_behaviours_with_eviction"] = evicting_b2
    cov["exhaustive"] = True
    if evictions == 0 or evicting_b2 == 0:
        raise vlib.ToolError("vacuity: no eviction to make room was exercised (b1 %d, b2 %d)" % (evictions, evicting_b2))
    cov["rule"] = ("B2: every history of put/get/remove/clear of length %s over 4 keys x 2 values for every capacity 1..3, generated by TLC "
                   "from MC_LruGen with the expected result, eviction-callback log, content after every step and final recency order "
                   "(drain), executed on every single-shard LRU subject; distinct = (subject, history) pairs in which at least one put "
                   "succeeded.  B1: seeded random histories per subject (LruMap presets and ConcurrentLruMap shard counts/strategies with "
                   "capacities 1..4 and a recording eviction callback; FsaCache strategies x max_states; page caches of 1..3 pages over "
                   "files of up to 6 pages + partial page with unaligned/page-straddling/beyond-EOF reads, rewrites, invalidations, "
                   "prefetches, far offsets, virtual file ids, multi-request read_batch, held CacheBuffers; CachedBlobStore x write strategies "
                   "with writes/removes behind the cache through inner_mut; CacheBuffer/BufferPool as byte containers; LruMap and "
                   "ConcurrentLruMap shared by 3 caller threads, each run judged for linearizability by Trace_LruLin), every event "
                   "validated by TLC; a (subject, run) counts when a required "
                   "action (put / cache_state / read / get) succeeded in the subject.  exhaustive refers to the B2 history space."
                   % ("5" if ctx.thorough else "4"))
    for fl, n in ((lru_b1, 9), (pc_b1, 7), (lru_b2, 8)):
        if fl:
            ctx.sample_from_trace(fl[0], n)
    # long byte arrays make samples unreadable: shorten them
    for s in cov["samples"]:
        for e in s.get("first_events", []):
            if isinstance(e.get("r"), list) and len(e["r"]) > 24:
                e["r"] = e["r"][:24] + ["... %d bytes" % len(e["r"])]
    ctx.assumptions += [
        "TLC evaluates Lru.tla / PageCache.tla over the recorded events; the harness only projects (keys are ids, values u32, records digests)",
        "file contents are the pattern Byte(g, i) defined in PageCache.tla; the harness writes it, TLC compares every returned byte with its own definition",
        "the shard of a ConcurrentLruMap call is derived by TLC from logged before/after observations (shard_sizes, per-shard put/get counters), not computed by the harness",
        "B2 pre-filter compares with TLC-computed values for equality; every differing history without a refused put (up to 400 per subject and chunk), a capped number of those with a refused put and a seeded sample of matching ones are judged by TLC",
        "digest collisions (60 bit) are neglected for CachedBlobStore records",
        "bounded: histories <= L for B2, seeded random for B1; the multi-threaded runs are unscheduled stress (no schedule points in lru_map.rs): 3 threads x 6-7 calls, what they find depends on timing; a concurrent len() is judged against the capacity bound only",
        "src/cache/lru_cache.rs, page_cache.rs, sharding.rs, simple_impl.rs are not compiled into the crate (cache/mod.rs declares only config, stats, buffer, basic_cache): nothing to bind",
    ]


def replay(ctx, path):
    """re-execute the subject/seed of a replay file against the current tree and validate again"""
    rep = json.load(open(path))
    ctx.build(BIN)
    subj = rep.get("subject")
    reset = rep.get("reset", {})
    ctx.tier = rep.get("tier", ctx.tier)
    ctx.seed = rep.get("seed", ctx.seed)
    if reset.get("b2"):
        gens = [("MC_LruGen5_c%d.cfg" % c, "rp%d" % c) for c in (1, 2, 3)] if ctx.tier == "thorough" else [("MC_LruGen4.cfg", "rp")]
        s, _ = merge_b2(ctx, gens, subject=subj, sample=1000000, max_mismatch=20)
        outs = s["_outs"]
    else:
        s = ctx.harness(BIN, "drive", "rp", subject=subj)
        outs = [s["_out"]]
    lru = sorted(f for o in outs for f in glob.glob(os.path.join(o, "lru[-b]*.ndjson")))
    pc = sorted(f for o in outs for f in glob.glob(os.path.join(o, "pc-*.ndjson")))
    lin = sorted(f for o in outs for f in glob.glob(os.path.join(o, "lin*.ndjson")))
    if lin:
        ctx.validate(T_LIN, lin, what="replay of " + os.path.basename(path))
    if lru:
        ctx.validate(T_LRU, lru, what="replay of " + os.path.basename(path))
    if pc:
        ctx.validate(T_PC, pc, what="replay of " + os.path.basename(path))
    ctx.cov["evaluations"] = s.get("events", 0)
    ctx.cov["distinct_nontrivial"] = s.get("runs", 0)
    ctx.cov["rule"] = "replay of one subject"
    ctx.sample({"replayed": path})
