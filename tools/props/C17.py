"""C17 — caches stay within capacity, evict least-recently-used, never serve stale data.

spec/Lru.tla is the contract of LruMap / ConcurrentLruMap (function shard -> LRU record) and of
FsaCache as a bounded id-keyed store; spec/PageCache.tla the contract of LruPageCache /
SingleLruPageCache / CachedBlobStore.  MC_Lru checks the contract invariants and an independent
(logical clock) formulation of "least recently used" for every capacity <= 3 x 4 keys x 2 values;
MC_LruListMech checks that the mechanism of lru_map.rs (index + intrusive list + free stack)
refines the contract, and that clear() as written loses free nodes; MC_LruGen generates every
history of length L with TLC-computed results, callback logs, contents and final recency order
(B2); harness bin c17 drives ~45 subjects (B1) and replays B2; Trace_Lru / Trace_PageCache judge.
"""
import glob
import json
import os

import vlib

LEVEL = "model_checking"
BIN = "c17"
T_LRU = "Trace_Lru"
T_PC = "Trace_PageCache"


# ----------------------------------------------------------------------------- corruptions (binding self-tests)

class Corrupt:
    """mutation of one run; remembers the (1-based) line it corrupted and cuts the run there"""

    def __init__(self, fn):
        self.fn = fn
        self.line = None

    def __call__(self, run):
        for i, e in enumerate(run):
            if i == 0:
                continue
            if self.fn(run[0], e, run[:i]):
                self.line = i + 1
                return run[:i + 1]
        return None


def c_evicted(reset, e, before):
    """the list of evicted (key, value) pairs the callback received is altered"""
    if reset.get("domain") == "lru" and reset.get("has_cb") and reset.get("strategy") in ("none", "hash") \
            and e.get("op") == "put" and e.get("ok") and e.get("ev"):
        e["ev"] = [[e["ev"][0][0] + 1, e["ev"][0][1]]]
        return True
    return False


def c_evicted_dropped(reset, e, before):
    """an eviction happened but the callback log is empty (callback not invoked)"""
    if reset.get("domain") == "lru" and reset.get("has_cb") and reset.get("strategy") in ("none", "hash") \
            and e.get("op") == "put" and e.get("ok") and e.get("ev"):
        e["ev"] = []
        return True
    return False


def c_get_value(reset, e, before):
    if reset.get("domain") == "lru" and reset.get("strategy") in ("none", "hash") and e.get("op") == "get" and e.get("r"):
        e["r"] = [e["r"][0] + 1]
        return True
    return False


def c_fsa_value(reset, e, before):
    if reset.get("domain") == "fsa" and e.get("op") == "get_state" and e.get("r"):
        e["r"] = [[e["r"][0][0] + 1, e["r"][0][1], e["r"][0][2]]]
        return True
    return False


def _clean_pc(before):
    """no earlier read of the run crosses EOF inside a partial last page (known finding C17-KF3 would reject there first)"""
    size = {b["f"]: b["size"] for b in before if b.get("op") == "file" and b.get("ok")}
    for b in before:
        if b.get("op") == "read" and b.get("f") in size:
            sz = size[b["f"]]
            if b["off"] < sz < b["off"] + b["len"] and sz % 4096 != 0:
                return False
    return True


def c_page_byte(reset, e, before):
    if reset.get("domain") == "pagecache" and e.get("op") == "read" and e.get("ok") and len(e.get("r", [])) >= 3 and _clean_pc(before + [e]):
        k = len(e["r"]) // 2
        e["r"][k] = (e["r"][k] + 1) % 251
        return True
    return False


def _byte(g, i):
    return (i + 31 * (i // 4096) + 97 * g + i // 251) % 251


def c_page_stale(reset, e, before):
    """after the harness rewrote a range and invalidated it, a read returns the OLD bytes of that range"""
    if reset.get("domain") != "pagecache" or e.get("op") != "read" or not e.get("ok") or not e.get("r") or not _clean_pc(before + [e]):
        return False
    f = e["f"]
    last = None
    for j, b in enumerate(before):
        if b.get("op") == "rewrite" and b.get("f") == f:
            nxt = before[j + 1] if j + 1 < len(before) else {}
            if nxt.get("op") in ("invalidate_range", "invalidate_page") and nxt.get("ok"):
                last = (j, b)
    if last is None:
        return False
    j, w = last
    # no later rewrite of the same file (keeps the expected old generation simple)
    if any(b.get("op") == "rewrite" and b.get("f") == f for b in before[j + 1:]):
        return False
    # generation before that rewrite: the file's initial generation if this was the only rewrite
    if any(b.get("op") == "rewrite" and b.get("f") == f for b in before[:j]):
        return False
    g0 = next((b["gen"] for b in before if b.get("op") == "file" and b.get("f") == f), None)
    if g0 is None:
        return False
    lo, hi = max(e["off"], w["a"]), min(e["off"] + len(e["r"]), w["b"])
    if lo >= hi:
        return False
    for i in range(lo, hi):
        e["r"][i - e["off"]] = _byte(g0, i)
    return True


def c_cstore_value(reset, e, before):
    if reset.get("domain") == "cstore" and e.get("op") == "get" and e.get("ok"):
        e["r"] = {"len": e["r"]["len"], "h": [e["r"]["h"][0], (e["r"]["h"][1] + 1) % (1 << 30)]}
        return True
    return False


def selftest(ctx, module, files, fn, what, required=True):
    """corrupt one event of one recorded (strictly accepted) run, cut the run there: TLC must reject exactly that line"""
    for path in files:
        c = Corrupt(fn)
        n0 = len(ctx.cov["selftests"])
        try:
            ctx.selftest_corrupt(module, path, c, what)
        except vlib.ToolError as ex:
            if "no run suitable" in str(ex):
                continue
            raise
        st = ctx.cov["selftests"][n0]
        if st.get("at") != c.line:
            raise vlib.ToolError("binding self-test (%s): rejected at line %s, corrupted line %s" % (what, st.get("at"), c.line))
        return True
    if required:
        raise vlib.ToolError("binding self-test: no recorded run suitable for corruption (%s)" % what)
    ctx.cov["selftests"].append({"what": what, "rejected_as_expected": None, "note": "no suitable run recorded in this tier/seed"})
    return False


# ----------------------------------------------------------------------------- the check

def models(ctx):
    q = not ctx.thorough
    ctx.tlc_mc("MC_Lru", cfg="MC_Lru_quick.cfg" if q else "MC_Lru.cfg",
               note="Lru contract, capacity 1..3 x 4 keys x 2 values: capacity, callback exactly once / never for a retrievable entry, "
                    "victim = oldest logical-clock stamp, order = recency")
    sfx = "q" if q else "t"
    ctx.tlc_mc("MC_LruListMech", cfg="MC_LruListMech_fixed_%s.cfg" % sfx, timeout=1500,
               note="mechanism of lru_map.rs with the repaired clear(): refines Lru.tla, no node lost, put never refused")
    ctx.tlc_mc("MC_LruListMech", cfg="MC_LruListMech_code_refines_%s.cfg" % sfx, timeout=1500,
               note="mechanism of lru_map.rs as written: refines Lru.tla (a refused put changes nothing)")
    if not q:
        ctx.tlc_mc("MC_LruListMech", cfg="MC_LruListMech_code_lost_q.cfg", expect="NoLostNodes",
                   note="mechanism as written: after clear() free + in-use nodes < capacity")
    ctx.tlc_mc("MC_LruListMech", cfg="MC_LruListMech_code_refusal_q.cfg", expect="NoSpuriousRefusal",
               note="mechanism as written: clear() loses free nodes, a later put is refused although there is room (C17-KF4, patch C17-1)")


def merge_b2(ctx, gens, subject=None, sample=None, max_mismatch=None):
    """generate the behaviours of every (cfg, outdir) with TLC, replay them, add the summaries up"""
    tot = {"executions": 0, "events": 0, "runs": 0, "subjects": {}, "_outs": []}
    nbeh = 0
    for cfg, outdir in gens:
        beh, n = ctx.tlc_generate("MC_LruGen", cfg=cfg, timeout=3000, jvm="-Xmx12g", outfile=os.path.join(ctx.work, outdir + ".behaviours.ndjson"))
        if n == 0:
            raise vlib.ToolError("MC_LruGen/%s produced no behaviours" % cfg)
        nbeh += n
        extra = {"in": beh, "keys": 4, "sample": sample or (20000 if ctx.thorough else 4000),
                 "max_mismatch": max_mismatch or (3 if ctx.thorough else 2)}
        s = ctx.harness(BIN, "replay", outdir, extra=extra, timeout=3000, subject=subject)
        if s.get("behaviours") != n:
            raise vlib.ToolError("B2: harness read %s behaviours, TLC generated %d" % (s.get("behaviours"), n))
        os.remove(beh)
        tot["_outs"].append(s["_out"])
        for k in ("executions", "events", "runs"):
            tot[k] += s.get(k, 0)
        for name, d in s.get("subjects", {}).items():
            t = tot["subjects"].setdefault(name, {})
            for k, v in d.items():
                t[k] = t.get(k, 0) + v
    return tot, nbeh


def run(ctx):
    ctx.build(BIN)
    models(ctx)
    # --- B2: all histories of length L, expected results computed by TLC (thorough: L = 5, one TLC run per capacity)
    gens = [("MC_LruGen5_c%d.cfg" % c, "b2c%d" % c) for c in (1, 2, 3)] if ctx.thorough else [("MC_LruGen4.cfg", "b2")]
    s2, nbeh = merge_b2(ctx, gens)
    # --- B1: seeded random histories of all four domains
    s1 = ctx.harness(BIN, "drive", "b1")
    lru_b1 = sorted(glob.glob(os.path.join(s1["_out"], "lru-*.ndjson")))
    pc_b1 = sorted(glob.glob(os.path.join(s1["_out"], "pc-*.ndjson")))
    lru_b2 = sorted(f for o in s2["_outs"] for f in glob.glob(os.path.join(o, "*.ndjson")))
    ctx.validate(T_LRU, lru_b1 + lru_b2, what="LRU map / bounded store operation history")
    ctx.validate(T_PC, pc_b1, what="page cache / cached blob store operation history")
    # --- binding self-tests: a corrupted observation must be rejected at exactly that line
    selftest(ctx, T_LRU, lru_b1, c_evicted, "evicted-key list of a put altered (key + 1)")
    selftest(ctx, T_LRU, lru_b1, c_evicted_dropped, "eviction happened but the callback log is empty")
    selftest(ctx, T_LRU, lru_b1, c_get_value, "value returned by get changed by +1")
    selftest(ctx, T_LRU, lru_b1, c_fsa_value, "record returned by FsaCache::get_state changed")
    selftest(ctx, T_PC, pc_b1, c_page_byte, "one byte of a page-cache read result changed")
    selftest(ctx, T_PC, pc_b1, c_page_stale, "read after rewrite + invalidate returns the old bytes (stale page)", required=False)
    selftest(ctx, T_PC, pc_b1, c_cstore_value, "digest returned by CachedBlobStore::get changed")
    evidence(ctx, s1, s2, nbeh, lru_b1, lru_b2, pc_b1)


def evidence(ctx, s1, s2, nbeh, lru_b1, lru_b2, pc_b1):
    cov = ctx.cov
    cov["evaluations"] = s1.get("events", 0) + s2.get("executions", 0)
    cov["b2_behaviours"] = nbeh
    cov["b2_executions"] = s2.get("executions", 0)
    cov["b1_events"] = s1.get("events", 0)
    cov["b1_runs"] = s1.get("runs", 0)
    cov["subjects"] = {}
    nontrivial = 0
    vacuous = []
    refused = 0
    evictions = 0
    for name, d in s1.get("subjects", {}).items():
        b = s2.get("subjects", {}).get(name, {})
        cov["subjects"][name] = {"b1": d, "b2": b}
        refused += d.get("refused", 0)
        evictions += d.get("evictions", 0)
        # distinct non-trivial: (subject, TLC history) pairs in which a put succeeded + (subject, B1 run) with a required action succeeding
        nontrivial += b.get("mutating_behaviours", 0)
        if d.get("successes", 0) > 0:
            nontrivial += d.get("runs", 0) - d.get("not_constructed", 0)
        if d.get("successes", 0) == 0 and b.get("mutating_behaviours", 0) == 0:
            vacuous.append(name)
    evicting_b2 = sum(b.get("evicting_behaviours", 0) for b in s2.get("subjects", {}).values())
    cov["distinct_nontrivial"] = nontrivial
    cov["vacuous_subjects"] = vacuous
    cov["refused_puts_b1"] = refused
    cov["evictions_observed_b1"] = evictions
    cov["b2_behaviours_with_eviction"] = evicting_b2
    cov["exhaustive"] = True
    if evictions == 0 or evicting_b2 == 0:
        raise vlib.ToolError("vacuity: no eviction to make room was exercised (b1 %d, b2 %d)" % (evictions, evicting_b2))
    cov["rule"] = ("B2: every history of put/get/remove/clear of length %s over 4 keys x 2 values for every capacity 1..3, generated by TLC "
                   "from MC_LruGen with the expected result, eviction-callback log, content after every step and final recency order "
                   "(drain), executed on every single-shard LRU subject; distinct = (subject, history) pairs in which at least one put "
                   "succeeded.  B1: seeded random histories per subject (LruMap presets and ConcurrentLruMap shard counts/strategies with "
                   "capacities 1..4 and a recording eviction callback; FsaCache strategies x max_states; page caches of 1..3 pages over "
                   "files of up to 6 pages + partial page with unaligned/page-straddling/beyond-EOF reads, rewrites, invalidations, "
                   "prefetches; CachedBlobStore x write strategies), every event validated by TLC; a (subject, run) counts when a required "
                   "action (put / cache_state / read / get) succeeded in the subject.  exhaustive refers to the B2 history space."
                   % ("5" if ctx.thorough else "4"))
    for fl, n in ((lru_b1, 9), (pc_b1, 7), (lru_b2, 8)):
        if fl:
            ctx.sample_from_trace(fl[0], n)
    # long byte arrays make samples unreadable: shorten them
    for s in cov["samples"]:
        for e in s.get("first_events", []):
            if isinstance(e.get("r"), list) and len(e["r"]) > 24:
                e["r"] = e["r"][:24] + ["... %d bytes" % len(e["r"])]
    ctx.assumptions += [
        "TLC evaluates Lru.tla / PageCache.tla over the recorded events; the harness only projects (keys are ids, values u32, records digests)",
        "file contents are the pattern Byte(g, i) defined in PageCache.tla; the harness writes it, TLC compares every returned byte with its own definition",
        "the shard of a ConcurrentLruMap call is derived by TLC from logged before/after observations (shard_sizes, per-shard put/get counters), not computed by the harness",
        "B2 pre-filter compares with TLC-computed values for equality; every differing history without a refused put (up to 400 per subject and chunk), a capped number of those with a refused put and a seeded sample of matching ones are judged by TLC",
        "digest collisions (60 bit) are neglected for CachedBlobStore records",
        "bounded: histories <= L for B2, seeded random for B1; ConcurrentLruMap is driven one call at a time (no concurrent calls)",
        "src/cache/lru_cache.rs, page_cache.rs, sharding.rs, simple_impl.rs are not compiled into the crate (cache/mod.rs declares only config, stats, buffer, basic_cache): nothing to bind",
    ]


def replay(ctx, path):
    """re-execute the subject/seed of a replay file against the current tree and validate again"""
    rep = json.load(open(path))
    ctx.build(BIN)
    subj = rep.get("subject")
    reset = rep.get("reset", {})
    ctx.tier = rep.get("tier", ctx.tier)
    ctx.seed = rep.get("seed", ctx.seed)
    if reset.get("b2"):
        gens = [("MC_LruGen5_c%d.cfg" % c, "rp%d" % c) for c in (1, 2, 3)] if ctx.tier == "thorough" else [("MC_LruGen4.cfg", "rp")]
        s, _ = merge_b2(ctx, gens, subject=subj, sample=1000000, max_mismatch=20)
        outs = s["_outs"]
    else:
        s = ctx.harness(BIN, "drive", "rp", subject=subj)
        outs = [s["_out"]]
    lru = sorted(f for o in outs for f in glob.glob(os.path.join(o, "lru*.ndjson")))
    pc = sorted(f for o in outs for f in glob.glob(os.path.join(o, "pc-*.ndjson")))
    if lru:
        ctx.validate(T_LRU, lru, what="replay of " + os.path.basename(path))
    if pc:
        ctx.validate(T_PC, pc, what="replay of " + os.path.basename(path))
    ctx.cov["evaluations"] = s.get("events", 0)
    ctx.cov["distinct_nontrivial"] = s.get("runs", 0)
    ctx.cov["rule"] = "replay of one subject"
    ctx.sample({"replayed": path})
