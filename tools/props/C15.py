"""C15 — decoders and loaders reject malformed bytes with an error, never a crash.

spec/Parser.tla is the fault model (mutation descriptors per length class) and the contract
(outcome of every parser call in {ok, err}); MC_Parser checks the laws of the fault model;
MC_ParserGen is the generator: TLC enumerates every descriptor for the length classes of the
valid encodings the real encoders produced (and computes Apply for a test encoding, against which
the harness' apply() is compared for equality); harness bin c15 applies the descriptors and runs
every parser call in a child process (RLIMIT_AS 1 GiB, watchdog: 60 s of CPU time or 300 s blocked, catch_unwind); Trace_Parser
validates one batch event per (parser, expected-length variant, encoding, descriptor kind):
n_cases must equal the size of the descriptor class computed by TLC, the outcomes must add up,
and no outcome other than ok / err may occur.
"""
import glob
import json
import os

import vlib

LEVEL = "fault_enumeration"
BIN = "c15"
TRACE = "Trace_Parser"


def _clean_parse_events(run):
    return [e for e in run if e.get("op") == "parse" and not e.get("bad") and e["outcomes"]["ok"] + e["outcomes"]["err"] == e["n_cases"]]


def corrupt_outcome_panic(run):
    """one 'err' (or 'ok') outcome of a clean batch becomes 'panic' (the counts still add up)"""
    for e in _clean_parse_events(run):
        o = e["outcomes"] = dict(e["outcomes"])
        src = "err" if o["err"] > 0 else "ok"
        o[src] -= 1
        o["panic"] += 1
        return run
    return None


def corrupt_bad_list(run):
    """the bad-case list of a clean batch is made non-empty"""
    for e in _clean_parse_events(run):
        e["bad"] = [{"d": ["b"], "o": "signal", "msg": "signal 11", "in_len": 0}]
        return run
    return None


def corrupt_n_cases(run):
    """a batch claims one case fewer than the descriptor class has (one descriptor was not run)"""
    for e in _clean_parse_events(run):
        if e["kind"] in ("t", "s") and e["outcomes"]["err"] > 0:
            e["n_cases"] -= 1
            o = e["outcomes"] = dict(e["outcomes"])
            o["err"] -= 1
            return run
    return None


def _pipeline(ctx, subject=None, tag=""):
    ctx.build(BIN)
    s_enc = ctx.harness(BIN, "encode", "enc" + tag, subject=subject)
    params = os.path.join(s_enc["_out"], "params.json")
    encs = os.path.join(s_enc["_out"], "encs.ndjson")
    gen, nlines = ctx.tlc_generate("MC_ParserGen", env={"C15_PARAMS": params}, workers=4, timeout=2400, jvm="-Xmx8g")
    if nlines < 3:
        raise vlib.ToolError("MC_ParserGen produced no descriptor classes")
    # binding of the harness' apply(): equality with the results TLC computed
    s_ac = ctx.harness(BIN, "applycheck", "applycheck" + tag, extra={"in": gen})
    if s_ac.get("apply_mismatches", 1) != 0 or s_ac.get("apply_cases", 0) == 0:
        raise vlib.ToolError("harness apply() differs from Apply of Parser.tla")
    s = ctx.harness(BIN, "run", "run" + tag, extra={"in": gen, "encs": encs}, timeout=3400 if ctx.thorough else 900,
                    subject=subject, allow_fail=True)
    if s["_rc"] not in (0, 3):
        raise vlib.ToolError("harness c15 --mode run failed rc=%d\n%s" % (s["_rc"], s["_stdout"][-2000:]))
    for t in s.get("tool_errors", []):
        ctx.tool_errors.append("c15 run: " + t)
    files = sorted(glob.glob(os.path.join(s["_out"], "*.ndjson")))
    if not files:
        raise vlib.ToolError("c15 produced no trace")
    before = ctx.cov["events_validated"]
    nviol = len(ctx.violations)
    ctx.validate(TRACE, files, what="parser batch (outcome of every case must be ok or err)", timeout=600, max_reject_per_file=40)
    # every event must have been judged (accepted strictly, accepted through a listed deviation, or part of a
    # reported rejection): nothing may fall through the two-pass validation unexamined
    judged = ctx.cov["events_validated"] - before
    if judged < s.get("events", 0) and len(ctx.violations) == nviol:
        raise vlib.ToolError("only %d of %d events were judged by TLC" % (judged, s.get("events", 0)))
    return s_enc, s_ac, s, files, nlines


def run(ctx):
    ctx.tlc_mc("MC_Parser", workers=4, note="laws of the fault model: every descriptor kind on 43 test encodings, counting laws up to length 130")
    s_enc, s_ac, s, files, nlines = _pipeline(ctx)
    # --- binding self-tests: corrupted traces must be rejected
    ctx.selftest_corrupt(TRACE, files[0], corrupt_outcome_panic, "one outcome of a clean batch changed to panic")
    ctx.selftest_corrupt(TRACE, files[0], corrupt_bad_list, "bad-case list of a clean batch made non-empty")
    ctx.selftest_corrupt(TRACE, files[0], corrupt_n_cases, "n_cases one below the size of the descriptor class")
    # --- containment self-test: a hang, a SIGSEGV, an abort, a panic and a failed allocation produced by the
    # harness inside five calls of one parser must each be contained, attributed to that case, reported with
    # the right outcome - and the resulting trace must be rejected by the contract
    gen = os.path.join(ctx.work, "MC_ParserGen.replay.ndjson")
    encs = os.path.join(s_enc["_out"], "encs.ndjson")
    os.environ["C15_INJECT"] = "hang@60000,segv@60010,abort@60020,panic@60030,oom@60040"
    try:
        s_inj = ctx.harness(BIN, "run", "inject", extra={"in": gen, "encs": encs}, subject="varint.decode", allow_fail=True)
    finally:
        del os.environ["C15_INJECT"]
    got = s_inj.get("outcomes", {})
    want = {"timeout": 1, "signal": 1, "abort": 1, "panic": 1, "oom": 1}
    if any(got.get(k) != v for k, v in want.items()) or s_inj.get("tool_errors"):
        raise vlib.ToolError("containment self-test: injected failures were reported as %s" % got)
    inj_files = sorted(glob.glob(os.path.join(s_inj["_out"], "*.ndjson")))
    r = vlib.validate_one(TRACE, inj_files[-1], kf=True)
    if r["accepted"] or r["rejected_at"] is None:
        raise vlib.ToolError("containment self-test: the trace with injected crashes was not rejected: %s" % r)
    ctx.cov["selftests"].append({"what": "injected hang / SIGSEGV / abort / panic / failed allocation contained, attributed and rejected by TLC",
                                 "rejected_as_expected": True, "at": r["rejected_at"], "outcomes": {k: got.get(k) for k in want}})
    vlib.log("self-test ok: injected hang/segv/abort/panic/oom contained and rejected (line %s)" % r["rejected_at"])
    # --- evidence
    cov = ctx.cov
    cov["evaluations"] = s.get("cases", 0)
    cov["distinct_nontrivial"] = s.get("nontrivial_cases", 0)
    cov["exhaustive"] = True
    cov["parsers"] = len(s.get("subjects", {}))
    cov["families_with_findings"] = s.get("dirty_families", 0)
    cov["valid_encodings"] = s_enc.get("encodings", 0)
    cov["length_classes"] = s_enc.get("length_classes", 0)
    cov["descriptor_classes_generated"] = nlines
    cov["apply_binding_cases"] = s_ac.get("apply_cases", 0)
    cov["child_processes"] = s.get("children", 0)
    cov["outcomes"] = s.get("outcomes", {})
    cov["base_cases"] = s.get("base_cases", 0)
    cov["base_cases_ok_exact"] = s.get("base_cases_ok_exact", 0)
    cov["parsers_without_valid_encoding"] = s.get("parsers_without_valid_encoding", [])
    cov["subjects"] = s.get("subjects", {})
    cov["not_compiled"] = ["src/ffi/c_api.rs (feature ffi is not enabled in the harness build)",
                           "Lz4 (feature lz4 not enabled: Lz4Compressor::decompress returns NotSupported for every input, raw strings only)"]
    cov["no_byte_loader_in_tree"] = ["SortedUintVec (no load / from-bytes function exists in the pinned tree)",
                                     "dict_zip/reference_encoding.rs (encoders only)"]
    cov["rule"] = ("one case = (parser, expected-length variant, valid encoding E, descriptor d) with the parser called on Apply(E, d) in a "
                   "child process; descriptors enumerated by TLC from Parser.tla for the length class |E|: every truncation n < |E|, every "
                   "position x 7 substitution values, every 4/8-byte window (aligned and unaligned) in the first 96 bytes x 6 length "
                   "patterns, every 4-aligned 4/8-byte window x 20/38 multiplication-overflow values (2^64/es, 2^63/es, 2^32/es for element sizes "
                   "2..16 with -1/+1/+100, MAX-0/1/79/80), the same value in two adjacent 8-byte fields, the unaligned windows for the "
                   "microsecond parsers, 6 kinds of appended garbage, window x truncation combinations (%s), plus every byte string up to length %d "
                   "fed raw (length 3: the parsers without an expected-length argument whose call costs microseconds; the 20-50 ms-per-call "
                   "and file-backed parsers: up to length 1, in the quick tier length 0 and no combinations for them); parsers with an "
                   "expected-length argument run every class under 7 values (exact, 0, 1, -1, +1, 2^31, usize::MAX). "
                   "distinct_nontrivial = cases executed whose input is mutated or raw (kind != base case, not skipped); exhaustive refers "
                   "to the descriptor classes of each encoding." % ("all truncation points for |E| <= 320, else 4 classes" if ctx.thorough else "4 truncation classes per window", 3 if ctx.thorough else 2))
    for ev in s.get("samples", [])[:4]:
        ctx.sample(ev)
    ctx.sample_from_trace(files[0], 6)
    ctx.assumptions += [
        "TLC enumerates the descriptors and judges the recorded outcomes; the harness only applies descriptors (its apply() is compared with TLC's Apply on a 70-byte test encoding every run)",
        "a huge allocation is observed as a failed allocation under RLIMIT_AS = 1 GiB (outcome oom); allocations below the limit are not flagged",
        "timeout = 60 s of process CPU time inside one call (or 300 s blocked); wall time is not used because the sandbox stalls for seconds under load",
        "after 3 process-killing cases (2 timeouts) in one batch the rest of that batch is skipped and reported as skipped, never as passed",
        "valid encodings come from the real encoders on 2 (quick) / 4 (thorough) payloads; string inputs (hex, base64) are passed through from_utf8_lossy",
        "parsers that rebuild a 257x4096 decode table per call (huff.ctx.decode_xN / decode_with_interleaving) and the file-backed loaders (MmapVec, ZReorderMap, load_from_file, from_file) get raw strings up to length 1 only and, in the quick tier, no window x truncation combinations",
        "a loaded object must be usable: after a successful open / load the harness reads over the reported length, and for MmapVec also pops, pushes, resizes, shrinks, clears and syncs (mode open_mutate)",
        "low-level decoder steps that take a numeric state (FseTable::decode_symbol / renormalize_decode, Rans64Decoder::decode_symbol, BitReader::read_bits(width)) are driven with the state / width taken from the mutated bytes",
    ]


def replay(ctx, path):
    """re-execute every case of the parser named in a replay file against the current tree and validate again"""
    rep = json.load(open(path))
    subj = rep.get("subject")
    ctx.tier = rep.get("tier", ctx.tier)
    ctx.seed = rep.get("seed", ctx.seed)
    _, _, s, files, _ = _pipeline(ctx, subject=subj, tag="-rp")
    ctx.cov["evaluations"] = s.get("cases", 0)
    ctx.cov["distinct_nontrivial"] = s.get("nontrivial_cases", 0)
    ctx.cov["rule"] = "replay of every case of one parser"
    ctx.sample({"replayed": path, "outcomes": s.get("outcomes", {})})
