//! C17 — caches stay within capacity, evict least-recently-used, never serve stale data.
//! Runs the real zipora LruMap / ConcurrentLruMap / FsaCache / LruPageCache / SingleLruPageCache /
//! CachedBlobStore and logs every public call as one NDJSON event; TLC judges the events against
//! spec/Lru.tla (Trace_Lru.tla) and spec/PageCache.tla (Trace_PageCache.tla).
//!
//! modes:
//!   drive   seeded random histories (B1) of all four domains; trace files lru-*.ndjson (LRU maps and
//!           FsaCache) and pc-*.ndjson (page caches and cached blob stores)
//!   replay  execute TLC-generated behaviours of MC_LruGen (B2) on every single-shard LRU subject:
//!           --in <file of REPLAY json lines>.  Expected results, callback logs, contents and the
//!           final recency order were computed by TLC; the harness compares for equality only;
//!           behaviours that differ (and a seeded sample of all) are written as traces for TLC.
//!
//! The harness holds no model of a cache: the eviction callback only RECORDS what it is given, the
//! shard of a call is not computed but logged as before/after observations, file contents are a
//! position/generation pattern that PageCache.tla defines on its own.
use serde_json::{json, Value};
use std::io::{Seek, SeekFrom, Write};
use std::path::{Path, PathBuf};
use std::sync::atomic::Ordering;
use std::sync::mpsc;
use std::sync::{Arc, Mutex};
use zipora::blob_store::cached_store::CacheWriteStrategy;
use zipora::blob_store::{BlobStore, CachedBlobStore, MemoryBlobStore};
use zipora::cache::{BufferPool, CacheBuffer, LruPageCache, PageCacheConfig, SingleLruPageCache, PAGE_SIZE};
use zipora::containers::specialized::{
    ConcurrentLruMap, ConcurrentLruMapConfig, EvictionCallback, LoadBalancingStrategy, LruMap, LruMapConfig,
};
use zipora::fsa::cache::{CacheStrategy, CachedState, FsaCache, FsaCacheConfig, ZeroPathData};
use zv::*;

// ================================================================ LRU maps

/// Eviction callback that records what it is given, nothing else.
#[derive(Clone, Default)]
struct Recorder(Arc<Mutex<Vec<(u32, u32)>>>);
impl Recorder {
    fn take(&self) -> Vec<(u32, u32)> {
        std::mem::take(&mut *self.0.lock().unwrap_or_else(|e| e.into_inner()))
    }
}
impl EvictionCallback<u32, u32> for Recorder {
    fn on_evict(&self, k: &u32, v: &u32) {
        self.0.lock().unwrap_or_else(|e| e.into_inner()).push((*k, *v));
    }
}
fn skey(id: u32) -> String {
    format!("key-{id}")
}
impl EvictionCallback<String, u32> for Recorder {
    fn on_evict(&self, k: &String, v: &u32) {
        let id = k.strip_prefix("key-").and_then(|x| x.parse::<u32>().ok()).unwrap_or(999_999);
        self.0.lock().unwrap_or_else(|e| e.into_inner()).push((id, *v));
    }
}

/// per-shard observations of a ConcurrentLruMap: (shard_sizes, put counters, get counters)
type Obs = (Vec<u64>, Vec<u64>, Vec<u64>);

/// Uniform view of an LRU map under test; every method is a thin call-through.
trait LruSubj {
    fn put(&mut self, k: u32, v: u32) -> Result<Option<u32>, ()>;
    fn get(&mut self, k: u32) -> Option<u32>;
    fn remove(&mut self, k: u32) -> Option<u32>;
    fn contains(&mut self, k: u32) -> bool;
    fn len(&mut self) -> usize;
    fn capacity(&mut self) -> usize;
    fn clear(&mut self) -> bool;
    fn callbacks(&mut self) -> Vec<(u32, u32)>;
    fn obs(&mut self) -> Option<Obs> {
        None
    }
    fn is_empty(&mut self) -> bool;
    /// ConcurrentLruMap only: keys(), for_each_shard (does shard contain k? its len), rebalance()
    fn keys(&mut self) -> Option<Vec<u32>> {
        None
    }
    fn for_each(&mut self, _k: u32) -> Option<Result<(usize, Vec<usize>), ()>> {
        None
    }
    fn rebalance(&mut self) -> Option<bool> {
        None
    }
}

struct Single<E: EvictionCallback<u32, u32>> {
    m: LruMap<u32, u32, E>,
    rec: Option<Recorder>,
}
impl<E: EvictionCallback<u32, u32>> LruSubj for Single<E> {
    fn put(&mut self, k: u32, v: u32) -> Result<Option<u32>, ()> {
        self.m.put(k, v).map_err(|_| ())
    }
    fn get(&mut self, k: u32) -> Option<u32> {
        self.m.get(&k)
    }
    fn remove(&mut self, k: u32) -> Option<u32> {
        self.m.remove(&k)
    }
    fn contains(&mut self, k: u32) -> bool {
        self.m.contains_key(&k)
    }
    fn len(&mut self) -> usize {
        self.m.len()
    }
    fn capacity(&mut self) -> usize {
        self.m.capacity()
    }
    fn clear(&mut self) -> bool {
        self.m.clear().is_ok()
    }
    fn callbacks(&mut self) -> Vec<(u32, u32)> {
        self.rec.as_ref().map(|r| r.take()).unwrap_or_default()
    }
    fn is_empty(&mut self) -> bool {
        self.m.is_empty()
    }
}

struct StrSingle {
    m: LruMap<String, u32, Recorder>,
    rec: Recorder,
}
impl LruSubj for StrSingle {
    fn put(&mut self, k: u32, v: u32) -> Result<Option<u32>, ()> {
        self.m.put(skey(k), v).map_err(|_| ())
    }
    fn get(&mut self, k: u32) -> Option<u32> {
        self.m.get(&skey(k))
    }
    fn remove(&mut self, k: u32) -> Option<u32> {
        self.m.remove(&skey(k))
    }
    fn contains(&mut self, k: u32) -> bool {
        self.m.contains_key(&skey(k))
    }
    fn len(&mut self) -> usize {
        self.m.len()
    }
    fn capacity(&mut self) -> usize {
        self.m.capacity()
    }
    fn clear(&mut self) -> bool {
        self.m.clear().is_ok()
    }
    fn callbacks(&mut self) -> Vec<(u32, u32)> {
        self.rec.take()
    }
    fn is_empty(&mut self) -> bool {
        self.m.is_empty()
    }
}

type CMap = ConcurrentLruMap<u32, u32, Recorder>;
type Job = Box<dyn FnOnce() + Send>;

/// Two persistent OS threads; every call of the subject is executed on one of them, one call at a
/// time (the harness waits for the answer before it issues the next call).
struct Workers {
    tx: Vec<mpsc::Sender<Job>>,
    pick: Rng,
}
impl Workers {
    fn new(n: usize, seed: u64) -> Workers {
        let mut tx = vec![];
        for _ in 0..n {
            let (t, r) = mpsc::channel::<Job>();
            std::thread::spawn(move || {
                while let Ok(j) = r.recv() {
                    j()
                }
            });
            tx.push(t);
        }
        Workers { tx, pick: Rng::new(seed) }
    }
    fn run<T: Send + 'static>(&mut self, f: impl FnOnce() -> T + Send + 'static) -> T {
        let i = self.pick.below(self.tx.len() as u64) as usize;
        let (rt, rr) = mpsc::channel::<Result<T, String>>();
        let job: Job = Box::new(move || {
            let _ = rt.send(guard(f));
        });
        self.tx[i].send(job).expect("worker alive");
        match rr.recv().expect("worker answer") {
            Ok(v) => v,
            Err(m) => panic!("{m}"),
        }
    }
}

struct Conc {
    m: Arc<CMap>,
    rec: Recorder,
    stats: bool,
    workers: Option<Workers>,
}
impl Conc {
    fn call<T: Send + 'static>(&mut self, f: impl FnOnce(&CMap) -> T + Send + 'static) -> T {
        let m = Arc::clone(&self.m);
        match self.workers.as_mut() {
            None => f(&m),
            Some(w) => w.run(move || f(&m)),
        }
    }
}
impl LruSubj for Conc {
    fn put(&mut self, k: u32, v: u32) -> Result<Option<u32>, ()> {
        self.call(move |m| m.put(k, v).map_err(|_| ()))
    }
    fn get(&mut self, k: u32) -> Option<u32> {
        self.call(move |m| m.get(&k))
    }
    fn remove(&mut self, k: u32) -> Option<u32> {
        self.call(move |m| m.remove(&k))
    }
    fn contains(&mut self, k: u32) -> bool {
        self.call(move |m| m.contains_key(&k))
    }
    fn len(&mut self) -> usize {
        self.m.len()
    }
    fn capacity(&mut self) -> usize {
        self.m.capacity()
    }
    fn clear(&mut self) -> bool {
        self.m.clear().is_ok()
    }
    fn callbacks(&mut self) -> Vec<(u32, u32)> {
        self.rec.take()
    }
    fn is_empty(&mut self) -> bool {
        self.m.is_empty()
    }
    fn keys(&mut self) -> Option<Vec<u32>> {
        Some(self.m.keys())
    }
    fn for_each(&mut self, k: u32) -> Option<Result<(usize, Vec<usize>), ()>> {
        // the closure runs once per shard (on a thread of its own): it reports what it saw, nothing else
        let seen: Arc<Mutex<Vec<(bool, usize)>>> = Arc::new(Mutex::new(vec![]));
        let s2 = Arc::clone(&seen);
        let r = self.m.for_each_shard(move |sh| {
            s2.lock().unwrap_or_else(|e| e.into_inner()).push((sh.contains_key(&k), sh.len()));
            Ok(())
        });
        let v = seen.lock().unwrap_or_else(|e| e.into_inner()).clone();
        Some(r.map(|_| (v.iter().filter(|x| x.0).count(), v.iter().map(|x| x.1).collect())).map_err(|_| ()))
    }
    fn rebalance(&mut self) -> Option<bool> {
        Some(self.m.rebalance().is_ok())
    }
    fn obs(&mut self) -> Option<Obs> {
        let n = self.m.shard_count();
        let sz: Vec<u64> = self.m.shard_sizes().iter().map(|&x| x as u64).collect();
        let mut pc = vec![0u64; n];
        let mut gc = vec![0u64; n];
        if self.stats {
            for i in 0..n {
                if let Some(s) = self.m.shard_stats(i) {
                    pc[i] = s.put_count.load(Ordering::Relaxed);
                    gc[i] = s.get_count.load(Ordering::Relaxed);
                }
            }
        }
        Some((sz, pc, gc))
    }
}

struct LruMeta {
    shards: usize,
    has_cb: bool,
    strategy: &'static str,
    stats: bool,
    threads: usize,
}

fn lru_subjects() -> Vec<String> {
    let mut v: Vec<String> = ["lru:new", "lru:cfg_perf_nocb", "lru:cb", "lru:cb_perf", "lru:cb_mem", "lru:cb_sec", "lru:cb_str"]
        .iter()
        .map(|s| s.to_string())
        .collect();
    for st in ["hash", "rr", "aff"] {
        for n in [1, 2, 3, 4, 8] {
            v.push(format!("clru:{st}_{n}"));
        }
    }
    v.push("clru:new_2".into());
    v.push("clru:hash_4_mem".into());
    v.push("clru:hash_2_perf".into());
    v.push("clru:aff_4_2t".into());
    v.push("clru:newodd_2".into()); // new(total, shards) with total not divisible by the shard count
    v.push("clru:presetperf_0".into()); // ConcurrentLruMapConfig::performance_optimized(): 2 x cpus shards
    v.push("clru:presetmem_0".into()); // ConcurrentLruMapConfig::memory_optimized(): 4 shards, no statistics
    v
}

fn preset(name: &str, cap: usize) -> LruMapConfig {
    let base = match name {
        "perf" => LruMapConfig::performance_optimized(),
        "mem" => LruMapConfig::memory_optimized(),
        "sec" => LruMapConfig::security_optimized(),
        _ => LruMapConfig::default(),
    };
    LruMapConfig { capacity: cap, ..base }
}

/// build subject `name` with per-shard capacity `cap`; None = the constructor refused
fn make_lru(name: &str, cap: usize, seed: u64) -> Option<(Box<dyn LruSubj>, LruMeta)> {
    let (fam, var) = name.split_once(':')?;
    let rec = Recorder::default();
    let single = |has_cb: bool, stats: bool| LruMeta { shards: 1, has_cb, strategy: "none", stats, threads: 1 };
    match fam {
        "lru" => Some(match var {
            "new" => (Box::new(Single { m: LruMap::<u32, u32>::new(cap).ok()?, rec: None }) as Box<dyn LruSubj>, single(false, true)),
            "cfg_perf_nocb" => (Box::new(Single { m: LruMap::<u32, u32>::with_config(preset("perf", cap)).ok()?, rec: None }), single(false, true)),
            "cb" => (Box::new(Single { m: LruMap::with_eviction_callback(cap, rec.clone()).ok()?, rec: Some(rec) }), single(true, true)),
            "cb_perf" | "cb_mem" | "cb_sec" => {
                let c = preset(&var[3..], cap);
                let st = c.enable_statistics;
                (Box::new(Single { m: LruMap::with_config_and_callback(c, rec.clone()).ok()?, rec: Some(rec) }), single(true, st))
            }
            "cb_str" => (Box::new(StrSingle { m: LruMap::with_eviction_callback(cap, rec.clone()).ok()?, rec }), single(true, true)),
            _ => return None,
        }),
        "clru" => {
            let parts: Vec<&str> = var.split('_').collect();
            let n: usize = parts.get(1)?.parse().ok()?;
            let extra = parts.get(2).copied().unwrap_or("");
            if parts[0] == "presetperf" || parts[0] == "presetmem" {
                let mut cfg = if parts[0] == "presetperf" { ConcurrentLruMapConfig::performance_optimized() } else { ConcurrentLruMapConfig::memory_optimized() };
                cfg.base_config.capacity = cap;
                let (n, stats) = (cfg.shard_count, cfg.base_config.enable_statistics);
                let m = ConcurrentLruMap::with_config_and_callback(cfg, rec.clone()).ok()?;
                return Some((Box::new(Conc { m: Arc::new(m), rec, stats, workers: None }), LruMeta { shards: n, has_cb: true, strategy: "hash", stats, threads: 1 }));
            }
            if parts[0] == "new" || parts[0] == "newodd" {
                let total = if parts[0] == "new" { cap * n } else { cap * n + n - 1 };
                let m = ConcurrentLruMap::with_eviction_callback(total, n, rec.clone()).ok()?;
                return Some((Box::new(Conc { m: Arc::new(m), rec, stats: true, workers: None }), LruMeta { shards: n, has_cb: true, strategy: "hash", stats: true, threads: 1 }));
            }
            let (lb, sname) = match parts[0] {
                "hash" => (LoadBalancingStrategy::Hash, "hash"),
                "rr" => (LoadBalancingStrategy::RoundRobin, "rr"),
                "aff" => (LoadBalancingStrategy::ThreadAffinity, "aff"),
                _ => return None,
            };
            let base = preset(extra, cap);
            let stats = base.enable_statistics;
            let cfg = ConcurrentLruMapConfig { base_config: base, shard_count: n, load_balancing: lb };
            let m = ConcurrentLruMap::with_config_and_callback(cfg, rec.clone()).ok()?;
            let threads = if extra == "2t" { 2 } else { 1 };
            let workers = if threads > 1 { Some(Workers::new(threads, seed)) } else { None };
            Some((Box::new(Conc { m: Arc::new(m), rec, stats, workers }), LruMeta { shards: n, has_cb: true, strategy: sname, stats, threads }))
        }
        _ => None,
    }
}

fn pairs(v: &[(u32, u32)]) -> Value {
    Value::Array(v.iter().map(|(k, x)| json!([k, x])).collect())
}

/// Execute one operation and return the event to log.  A panic is data.
fn exec_lru(s: &mut Box<dyn LruSubj>, op: &str, k: u32, v: u32, universe: &[u32]) -> Value {
    let r = guard(|| {
        let before = s.obs();
        let mut e = match op {
            "put" => match s.put(k, v) {
                Ok(r) => json!({"op":"put","k":k,"v":v,"ok":true,"r":opt(r)}),
                Err(()) => json!({"op":"put","k":k,"v":v,"ok":false,"r":[]}),
            },
            "get" => json!({"op":"get","k":k,"r":opt(s.get(k))}),
            "remove" => json!({"op":"remove","k":k,"r":opt(s.remove(k))}),
            "contains" => json!({"op":"contains","k":k,"r":s.contains(k)}),
            "len" => json!({"op":"len","r":s.len()}),
            "capacity" => json!({"op":"capacity","r":s.capacity()}),
            "clear" => json!({"op":"clear","ok":s.clear()}),
            "is_empty" => json!({"op":"is_empty","r":s.is_empty()}),
            "keys" => match s.keys() {
                Some(ks) => json!({"op":"keys","r":ks}),
                None => json!({"op":"is_empty","r":s.is_empty()}),
            },
            "for_each_shard" => match s.for_each(k) {
                Some(Ok((hits, lens))) => json!({"op":"for_each_shard","k":k,"ok":true,"hits":hits,"lens":lens}),
                Some(Err(())) => json!({"op":"for_each_shard","k":k,"ok":false,"hits":0,"lens":[]}),
                None => json!({"op":"is_empty","r":s.is_empty()}),
            },
            "rebalance" => match s.rebalance() {
                Some(ok) => json!({"op":"rebalance","ok":ok}),
                None => json!({"op":"is_empty","r":s.is_empty()}),
            },
            _ => {
                // probe: contains_key of every key of the universe (no recency change) and len
                let c: Vec<Value> = universe.iter().map(|&x| json!([x, s.contains(x)])).collect();
                json!({"op":"probe","c":c,"len":s.len()})
            }
        };
        e["ev"] = pairs(&s.callbacks());
        if matches!(op, "put" | "get" | "remove" | "contains") {
            if let (Some(b), Some(a)) = (before, s.obs()) {
                e["sz0"] = json!(b.0);
                e["pc0"] = json!(b.1);
                e["gc0"] = json!(b.2);
                e["sz1"] = json!(a.0);
                e["pc1"] = json!(a.1);
                e["gc1"] = json!(a.2);
            }
        }
        e
    });
    match r {
        Ok(e) => e,
        Err(msg) => json!({"op":"panic","in":op,"k":k,"v":v,"msg":msg.chars().take(120).collect::<String>()}),
    }
}

fn lru_reset(tr: &mut Tracer, name: &str, cap: usize, meta: Option<&LruMeta>, extra: Value) {
    let (fam, var) = name.split_once(':').unwrap_or((name, ""));
    let mut cfg = match meta {
        Some(m) => json!({"fam":fam,"variant":var,"constructed":true,"cap":cap,"shards":m.shards,"has_cb":m.has_cb,
                          "strategy":m.strategy,"stats":m.stats,"threads":m.threads}),
        None => json!({"fam":fam,"variant":var,"constructed":false,"cap":cap,"shards":1,"has_cb":false,"strategy":"none","stats":false,"threads":1}),
    };
    if let (Some(o), Some(x)) = (cfg.as_object_mut(), extra.as_object()) {
        for (k, v) in x {
            o.insert(k.clone(), v.clone());
        }
    }
    tr.reset("lru", name, cfg);
}

#[derive(Default)]
struct Counts {
    events: usize,
    runs: usize,
    refused: usize,
    panics: usize,
    evictions: usize,
    successes: usize,
    not_constructed: usize,
}
impl Counts {
    fn json(&self) -> Value {
        json!({"events":self.events,"runs":self.runs,"refused":self.refused,"panics":self.panics,"evictions":self.evictions,
               "successes":self.successes,"not_constructed":self.not_constructed})
    }
}

fn drive_lru(a: &Args, tr: &mut Tracer, per_subject: &mut serde_json::Map<String, Value>) {
    let rng0 = Rng::new(a.seed);
    let (runs, steps) = if a.thorough() { (8, 120) } else { (3, 45) };
    for name in lru_subjects().iter().filter(|s| a.wants(s)) {
        let mut c = Counts::default();
        // capacities 1..4 force an eviction on nearly every put; one larger capacity (long recency lists,
        // many nodes recycled through the free list) for one plain and one sharded subject
        let mut caps: Vec<usize> = vec![1, 2, 3, 4];
        if name == "lru:cb" || name == "clru:hash_4" {
            caps.push(if name == "lru:cb" { 50 } else { 13 });
        }
        for cap in caps {
            let (runs, steps) = if cap > 4 { (1 + runs / 6, steps * 8) } else { (runs, steps) };
            for run in 0..runs {
                let mut rng = rng0.derive(&format!("{name}/{cap}/{run}"));
                let made = guard(|| make_lru(name, cap, a.seed ^ run as u64));
                let (mut s, meta) = match made {
                    Ok(Some(x)) => x,
                    _ => {
                        lru_reset(tr, name, cap, None, json!({"seed": a.seed}));
                        c.not_constructed += 1;
                        c.runs += 1;
                        break; // one record of the refusal per capacity is enough
                    }
                };
                if meta.shards > 8 && (cap > 2 || run > 0) {
                    continue; // the 2 x cpus shards preset: two small runs are enough
                }
                // enough keys to overflow every shard, few enough to revisit keys often
                let uni = (meta.shards * cap + 2 + run % 3 + cap / 4) as u32;
                let universe: Vec<u32> = (0..uni).collect();
                lru_reset(tr, name, cap, Some(&meta), json!({"seed": a.seed, "universe": uni}));
                c.runs += 1;
                let mut dead = false;
                let mut ops: Vec<(&str, u32, u32)> = vec![("capacity", 0, 0)];
                for _ in 0..steps {
                    let k = rng.below(uni as u64) as u32;
                    let v = rng.below(1000) as u32;
                    let op = match rng.below(100) {
                        0..=44 => "put",
                        45..=66 => "get",
                        67..=75 => "remove",
                        76..=83 => "contains",
                        84..=87 => "len",
                        88 => "is_empty",
                        // keys() is a recorded placeholder (C17-KF5): asked of two subjects only, so that the other
                        // sharded subjects are judged by the strict contract alone
                        89 if name == "clru:hash_2" || name == "clru:presetmem_0" => "keys",
                        89 => "is_empty",
                        90 => "for_each_shard",
                        91 => "rebalance",
                        92..=93 => "clear",
                        _ => "probe",
                    };
                    ops.push((op, k, v));
                }
                // drain: fresh keys push the whole content through the eviction callback
                for i in 0..(meta.shards * cap * 2) as u32 {
                    ops.push(("put", 1000 + i, 7));
                }
                ops.push(("len", 0, 0));
                for (op, k, v) in ops {
                    let e = exec_lru(&mut s, op, k, v, &universe);
                    if e["op"] == "panic" {
                        c.panics += 1;
                        dead = true;
                    }
                    if e["ok"] == json!(false) {
                        c.refused += 1;
                    } else if op == "put" {
                        c.successes += 1;
                    }
                    c.evictions += e["ev"].as_array().map_or(0, |x| x.len());
                    tr.ev(e);
                    c.events += 1;
                    if dead {
                        break;
                    }
                }
                if dead {
                    std::mem::forget(s);
                }
            }
        }
        per_subject.insert(name.clone(), c.json());
    }
}

// ================================================================ FsaCache (bounded id-keyed store)

fn fsa_subjects() -> Vec<String> {
    // *_nc: the other value of every remaining public FsaCacheConfig field (compressed_paths false, use_hugepages
    // true, max_memory_bytes 0) under each eviction strategy
    ["fsa:bfs", "fsa:dfs", "fsa:cf", "fsa:bfs_nc", "fsa:dfs_nc", "fsa:cf_nc", "fsa:small_preset", "fsa:large_preset", "fsa:memeff_preset"].iter().map(|s| s.to_string()).collect()
}

fn drive_fsa(a: &Args, tr: &mut Tracer, per_subject: &mut serde_json::Map<String, Value>) {
    let rng0 = Rng::new(a.seed);
    let (runs, steps) = if a.thorough() { (8, 150) } else { (2, 50) };
    for name in fsa_subjects().iter().filter(|s| a.wants(s)) {
        let var = name.split_once(':').map(|x| x.1).unwrap_or("");
        let mut c = Counts::default();
        let maxes: Vec<usize> = match var {
            "small_preset" => vec![10_000],
            "large_preset" => vec![10_000_000],
            "memeff_preset" => vec![100_000],
            "bfs_nc" | "dfs_nc" | "cf_nc" => vec![1, 2, 3, 12],
            _ => vec![1, 2, 3, 12, 25],
        };
        for &max in &maxes {
            for run in 0..runs {
                let mut rng = rng0.derive(&format!("{name}/{max}/{run}"));
                let cfg = match var {
                    "bfs" => FsaCacheConfig { max_states: max, strategy: CacheStrategy::BreadthFirst, ..Default::default() },
                    "dfs" => FsaCacheConfig { max_states: max, strategy: CacheStrategy::DepthFirst, ..Default::default() },
                    "cf" => FsaCacheConfig { max_states: max, strategy: CacheStrategy::CacheFriendly, ..Default::default() },
                    "bfs_nc" | "dfs_nc" | "cf_nc" => FsaCacheConfig {
                        max_states: max,
                        strategy: match var {
                            "bfs_nc" => CacheStrategy::BreadthFirst,
                            "dfs_nc" => CacheStrategy::DepthFirst,
                            _ => CacheStrategy::CacheFriendly,
                        },
                        compressed_paths: false,
                        use_hugepages: true,
                        max_memory_bytes: 0,
                    },
                    "large_preset" => FsaCacheConfig::large(),
                    "memeff_preset" => FsaCacheConfig::memory_efficient(),
                    _ => FsaCacheConfig::small(),
                };
                let mut cache = match guard(|| FsaCache::with_config(cfg)) {
                    Ok(Ok(x)) => x,
                    _ => {
                        c.not_constructed += 1;
                        continue;
                    }
                };
                tr.reset("fsa", name, json!({"fam":"fsa","variant":var,"max":max,"seed":a.seed}));
                c.runs += 1;
                let mut issued: Vec<u32> = vec![]; // the ids the cache handed out (only used to ASK about them)
                let mut dead = false;
                // every run starts with the life of one zero path: attached to a state, the state removed (even runs) or
                // evicted by filling the cache (odd runs), the id asked again, new states created until ids are recycled
                let pre = guard(|| -> Vec<Value> {
                    let mut evs = vec![];
                    let probe = |cache: &FsaCache, issued: &[u32]| -> Value {
                        let g: Vec<Value> = issued.iter().map(|&id| json!([id, opt(cache.get_state(id).map(|s| json!([s.child_base, s.parent(), s.is_terminal()]))),
                            opt(cache.get_zero_path(id).map(|z| bytes_json(&z.get_full_path())))])).collect();
                        json!({"op":"fsa_probe","g":g})
                    };
                    let live = |cache: &FsaCache, issued: &[u32]| -> Value {
                        Value::Array(issued.iter().filter_map(|&id| cache.get_state(id).map(|s| json!([id, s.child_base, s.parent(), s.is_terminal()]))).collect())
                    };
                    let make = |cache: &mut FsaCache, issued: &mut Vec<u32>, evs: &mut Vec<Value>, n: u32| -> Option<u32> {
                        match cache.cache_state(n, 100 + n, n % 2 == 0) {
                            Ok(id) => {
                                if !issued.contains(&id) {
                                    issued.push(id);
                                }
                                evs.push(json!({"op":"cache_state","p":n,"cb":100 + n,"t":n % 2 == 0,"ok":true,"id":id,"live":live(cache, issued)}));
                                Some(id)
                            }
                            Err(_) => {
                                evs.push(json!({"op":"cache_state","p":n,"cb":100 + n,"t":n % 2 == 0,"ok":false,"id":0,"live":[]}));
                                None
                            }
                        }
                    };
                    if let Some(id) = make(&mut cache, &mut issued, &mut evs, 1) {
                        let mut z = ZeroPathData::new();
                        let _ = z.add_segment(b"old");
                        let ok = cache.add_zero_path(id, z).is_ok();
                        evs.push(json!({"op":"add_zero_path","id":id,"segs":[bytes_json(b"old")],"ok":ok}));
                        if run % 2 == 0 {
                            evs.push(json!({"op":"remove_state","id":id,"r":cache.remove_state(id)}));
                        }
                        evs.push(probe(&cache, &issued));
                        for n in 2..(4 + max.min(12) as u32) {
                            make(&mut cache, &mut issued, &mut evs, n);
                            evs.push(probe(&cache, &issued));
                        }
                    }
                    evs
                });
                match pre {
                    Ok(evs) => {
                        for e in evs {
                            tr.ev(e);
                            c.events += 1;
                        }
                    }
                    Err(m) => {
                        tr.ev(json!({"op":"panic","in":"fsa","msg":m.chars().take(120).collect::<String>()}));
                        dead = true;
                    }
                }
                for _ in 0..(if dead { 0 } else { steps }) {
                    let x = rng.below(100);
                    let zp_turn = rng.chance(1, 4); // a quarter of the steps work on zero paths
                    let r = guard(|| -> Value {
                        let live = |cache: &FsaCache, issued: &[u32]| -> Value {
                            Value::Array(issued.iter().filter_map(|&id| cache.get_state(id).map(|s| json!([id, s.child_base, s.parent(), s.is_terminal()]))).collect())
                        };
                        let some_id = |rng: &mut Rng, issued: &[u32]| -> u32 {
                            if issued.is_empty() || rng.chance(1, 6) {
                                rng.below(40) as u32
                            } else {
                                *rng.pick(issued)
                            }
                        };
                        match x + 100 * (zp_turn as u64) {
                            100..=149 => {
                                // zero-path data of a state: stored for a live id only, dies with the state
                                let id = some_id(&mut rng, &issued);
                                let nseg = rng.below(4) as usize;
                                let segs: Vec<Vec<u8>> = (0..nseg).map(|_| { let n = *rng.pick(&[0usize, 1, 3, 17, 255]); rng.bytes(n) }).collect();
                                let mut z = ZeroPathData::new();
                                let mut built = true;
                                for sg in &segs {
                                    built &= z.add_segment(sg).is_ok();
                                }
                                if !built {
                                    return json!({"op":"add_zero_path","id":id,"segs":[],"ok":false});
                                }
                                let ok = cache.add_zero_path(id, z).is_ok();
                                json!({"op":"add_zero_path","id":id,"segs":segs.iter().map(|x| bytes_json(x)).collect::<Vec<_>>(),"ok":ok})
                            }
                            150..=199 => {
                                let id = some_id(&mut rng, &issued);
                                match cache.get_zero_path(id) {
                                    Some(z) => json!({"op":"get_zero_path","id":id,"r":[bytes_json(&z.get_full_path())],"total":z.total_length}),
                                    None => json!({"op":"get_zero_path","id":id,"r":[],"total":0}),
                                }
                            }
                            0..=54 => {
                                let (p, cb, t) = (rng.below(1 << 24) as u32, rng.below(1 << 30) as u32, rng.chance(1, 3));
                                match cache.cache_state(p, cb, t) {
                                    Ok(id) => {
                                        if !issued.contains(&id) {
                                            issued.push(id);
                                        }
                                        json!({"op":"cache_state","p":p,"cb":cb,"t":t,"ok":true,"id":id,"live":live(&cache, &issued)})
                                    }
                                    Err(_) => json!({"op":"cache_state","p":p,"cb":cb,"t":t,"ok":false,"id":0,"live":[]}),
                                }
                            }
                            55..=74 => {
                                let id = some_id(&mut rng, &issued);
                                let r = cache.get_state(id).map(|s| json!([s.child_base, s.parent(), s.is_terminal()]));
                                json!({"op":"get_state","id":id,"r":opt(r)})
                            }
                            75..=87 => {
                                let id = some_id(&mut rng, &issued);
                                json!({"op":"remove_state","id":id,"r":cache.remove_state(id)})
                            }
                            88..=89 => json!({"op":"is_full","r":cache.is_full()}),
                            90 => {
                                cache.clear();
                                json!({"op":"fsa_clear"})
                            }
                            91..=92 => {
                                // the value helpers of CachedState: pack, read back, mark free / used
                                let (p, cb, t, f) = (rng.below(1 << 24) as u32, rng.below(1 << 31) as u32, rng.chance(1, 2), rng.chance(1, 2));
                                let st = CachedState::new(cb, p, t, f);
                                let show = |s: &CachedState| json!([s.child_base, s.parent(), s.is_terminal(), s.is_free()]);
                                let got = show(&st);
                                let mut m = st;
                                m.mark_free();
                                let marked = show(&m);
                                m.mark_used();
                                json!({"op":"cstate","cb":cb,"p":p,"t":t,"f":f,"got":got,"marked":marked,"unmarked":show(&m)})
                            }
                            93..=99 => {
                                let g: Vec<Value> = issued.iter().map(|&id| json!([id, opt(cache.get_state(id).map(|s| json!([s.child_base, s.parent(), s.is_terminal()]))),
                                    opt(cache.get_zero_path(id).map(|z| bytes_json(&z.get_full_path())))])).collect();
                                json!({"op":"fsa_probe","g":g})
                            }
                            _ => json!({"op":"is_full","r":cache.is_full()}),
                        }
                    });
                    let e = match r {
                        Ok(e) => e,
                        Err(m) => {
                            dead = true;
                            c.panics += 1;
                            json!({"op":"panic","in":"fsa","msg":m.chars().take(120).collect::<String>()})
                        }
                    };
                    if e["op"] == "cache_state" {
                        if e["ok"] == json!(true) {
                            c.successes += 1;
                        } else {
                            c.refused += 1;
                        }
                    }
                    tr.ev(e);
                    c.events += 1;
                    if dead {
                        break;
                    }
                }
                if dead {
                    std::mem::forget(cache);
                }
            }
        }
        per_subject.insert(name.clone(), c.json());
    }
}

// ================================================================ page caches

/// byte i of a region written with generation g — the same pattern PageCache.tla defines (Byte(g, i));
/// the harness only WRITES it, TLC compares what reads returned with its own definition.
fn pattern(g: u64, i: u64) -> u8 {
    ((i + 31 * (i / 4096) + 97 * g + i / 251) % 251) as u8
}

fn pc_subjects() -> Vec<String> {
    ["pc:lru_balanced", "pc:lru_perf", "pc:lru_mem", "pc:lru_sec", "pc:lru_shards_8", "pc:lru_huge", "pc:lru_batch", "pc:lru_rwp", "pc:single_read", "pc:single_read_new"]
        .iter()
        .map(|s| s.to_string())
        .collect()
}

enum Pc {
    Lru(LruPageCache),
    Single(SingleLruPageCache, CacheBuffer),
}
impl Pc {
    fn open(&self, p: &Path) -> Result<u32, ()> {
        match self {
            Pc::Lru(c) => c.open_file(p).map_err(|_| ()),
            Pc::Single(c, _) => c.open_file(p).map_err(|_| ()),
        }
    }
    /// register_file(fd): fd = -1 asks for a virtual file id (no bytes behind it), a real descriptor is refused
    fn register(&self, fd: i32) -> Result<u32, ()> {
        match self {
            Pc::Lru(c) => c.register_file(fd).map_err(|_| ()),
            Pc::Single(c, _) => c.register_file(fd).map_err(|_| ()),
        }
    }
    /// read_batch with several requests at once (LruPageCache only)
    fn read_multi(&self, reqs: Vec<(u32, u64, usize)>) -> Option<Result<Vec<Vec<u8>>, ()>> {
        match self {
            Pc::Lru(c) => Some(c.read_batch(reqs).map(|v| v.iter().map(|b| b.data().to_vec()).collect()).map_err(|_| ())),
            Pc::Single(..) => None,
        }
    }
    /// returns the bytes of the answer and, when the API hands out a CacheBuffer, that buffer (the
    /// driver keeps it alive over later calls and logs its content again: "held" reads)
    fn read(&mut self, api: &str, fid: u32, off: u64, len: usize) -> Result<(Vec<u8>, Option<CacheBuffer>), ()> {
        let wrap = |b: CacheBuffer| (b.data().to_vec(), Some(b));
        match self {
            Pc::Lru(c) => match api {
                "batch" => c.read_batch(vec![(fid, off, len)]).map(|v| v.into_iter().next().map(wrap).unwrap_or_default()).map_err(|_| ()),
                "rwp" => c.read_with_prefetch(fid, off, len, PAGE_SIZE).map(wrap).map_err(|_| ()),
                _ => c.read(fid, off, len).map(wrap).map_err(|_| ()),
            },
            Pc::Single(c, buf) => match api {
                "read_new" => c.read_new(fid, off, len).map(wrap).map_err(|_| ()),
                _ => c.read(fid, off, len, buf).map(|_| (buf.data().to_vec(), None)).map_err(|_| ()),
            },
        }
    }
    fn prefetch(&self, fid: u32, off: u64, len: usize) -> bool {
        match self {
            Pc::Lru(c) => c.prefetch(fid, off, len).is_ok(),
            Pc::Single(c, _) => c.prefetch(fid, off, len).is_ok(),
        }
    }
    fn invalidate_range(&self, fid: u32, off: u64, len: usize) -> bool {
        match self {
            Pc::Lru(c) => c.invalidate_range(fid, off, len).is_ok(),
            Pc::Single(c, _) => c.invalidate_range(fid, off, len).is_ok(),
        }
    }
    fn invalidate_page(&self, fid: u32, page: u32) -> bool {
        match self {
            Pc::Lru(c) => c.invalidate_page(fid, page).is_ok(),
            Pc::Single(c, _) => c.invalidate_page(fid, page).is_ok(),
        }
    }
    fn mark_dirty(&self, fid: u32, page: u32) -> bool {
        match self {
            Pc::Lru(c) => c.mark_dirty(fid, page).is_ok(),
            Pc::Single(c, _) => c.mark_dirty(fid, page).is_ok(),
        }
    }
    fn flush_file(&self, fid: u32) -> bool {
        match self {
            Pc::Lru(c) => c.flush_file(fid).is_ok(),
            Pc::Single(c, _) => c.flush_file(fid).is_ok(),
        }
    }
    fn file_size(&self, fid: u32) -> Option<u64> {
        match self {
            Pc::Lru(c) => c.file_size(fid).ok(),
            Pc::Single(c, _) => c.file_size(fid).ok(),
        }
    }
    fn close_file(&self, fid: u32) -> bool {
        match self {
            Pc::Lru(c) => c.close_file(fid).is_ok(),
            Pc::Single(c, _) => c.close_file(fid).is_ok(),
        }
    }
    fn size(&self) -> Option<usize> {
        match self {
            Pc::Lru(_) => None,
            Pc::Single(c, _) => Some(c.size()),
        }
    }
}

fn make_pc(var: &str, cap_pages: usize, extra_bytes: usize) -> Option<Pc> {
    // a capacity that is not a multiple of the page size holds floor(capacity / PAGE_SIZE) pages
    let cap = if var == "lru_huge" { zipora::cache::HUGE_PAGE_SIZE } else { cap_pages * PAGE_SIZE + extra_bytes };
    let cfg = match var {
        "lru_huge" => PageCacheConfig::performance_optimized(), // use_huge_pages = true needs a capacity of 2 MiB
        "lru_perf" => PageCacheConfig::performance_optimized().with_huge_pages(false),
        "lru_mem" => PageCacheConfig::memory_optimized(),
        "lru_sec" => PageCacheConfig::security_optimized(),
        "lru_shards_8" => PageCacheConfig::balanced().with_shards(8).with_prefetch(false).with_statistics(false),
        _ => PageCacheConfig::balanced(),
    }
    .with_capacity(cap);
    Some(if var.starts_with("single") { Pc::Single(SingleLruPageCache::new(cfg).ok()?, CacheBuffer::new()) } else { Pc::Lru(LruPageCache::new(cfg).ok()?) })
}

fn tmp_dir() -> PathBuf {
    let d = PathBuf::from("/verif/work/C17-tmp").join(format!("{}", std::process::id()));
    std::fs::create_dir_all(&d).expect("create C17-tmp");
    d
}

struct HFile {
    fid: u32,
    path: PathBuf,
    size: u64,
}

fn drive_pc(a: &Args, tr: &mut Tracer, per_subject: &mut serde_json::Map<String, Value>) {
    let rng0 = Rng::new(a.seed);
    let dir = tmp_dir();
    let (runs, steps) = if a.thorough() { (8, 120) } else { (2, 60) };
    let p = PAGE_SIZE as u64;
    let sizes: [u64; 9] = [6 * p, 6 * p + 100, 5 * p + 1, 3 * p, 100, p, 2 * p - 1, 0, 1];
    for name in pc_subjects().iter().filter(|s| a.wants(s)) {
        let var = name.split_once(':').map(|x| x.1).unwrap_or("");
        let api = match var {
            "lru_batch" => "batch",
            "lru_rwp" => "rwp",
            "single_read_new" => "read_new",
            _ => "read",
        };
        let mut c = Counts::default();
        for cap_pages in 1..=3usize {
            if var == "lru_huge" && cap_pages > 1 {
                continue; // one capacity only: 2 MiB (512 pages), what huge pages require
            }
            let cap_pages = if var == "lru_huge" { zipora::cache::HUGE_PAGE_SIZE / PAGE_SIZE } else { cap_pages };
            for run in 0..runs {
                let mut rng = rng0.derive(&format!("{name}/{cap_pages}/{run}"));
                let mut pc = match guard(|| make_pc(var, cap_pages, if run % 2 == 1 { 100 } else { 0 })) {
                    Ok(Some(x)) => x,
                    _ => {
                        c.not_constructed += 1;
                        continue;
                    }
                };
                tr.reset("pagecache", name, json!({"fam":"pc","variant":var,"cap_pages":cap_pages,"page":PAGE_SIZE,"seed":a.seed}));
                c.runs += 1;
                let mut gen: u64 = 0;
                let mut files: Vec<HFile> = vec![];
                let mut budget: usize = 30_000; // bytes of read results logged per run
                let mut long_reads = 0;
                let mut dead = false;
                // a CacheBuffer kept alive over later calls: (buffer, file, offset, length, steps to keep it)
                let mut held: Option<(CacheBuffer, usize, u64, usize, u32)> = None;
                // two files, larger than the cache (and one tiny one now and then)
                for fi in 0..2 {
                    let size = if fi == 0 { sizes[(run + cap_pages) % 3] } else { *rng.pick(&sizes) };
                    gen += 1;
                    let path = dir.join(format!("{}-{}-{}-{}.bin", var, cap_pages, run, fi));
                    let data: Vec<u8> = (0..size).map(|i| pattern(gen, i)).collect();
                    std::fs::write(&path, &data).expect("write file");
                    match guard(|| pc.open(&path)) {
                        Ok(Ok(fid)) => {
                            tr.ev(json!({"op":"file","f":files.len() + 1,"fid":fid,"size":size,"gen":gen,"ok":true,"virtual":false}));
                            files.push(HFile { fid, path, size });
                        }
                        _ => tr.ev(json!({"op":"file","f":0,"fid":0,"size":size,"gen":gen,"ok":false,"virtual":false})),
                    }
                    c.events += 1;
                }
                // a virtual file id (register_file(-1), what CachedBlobStore uses): no bytes behind it, but an id of its
                // own; a real descriptor is refused by this implementation
                for fd in [-1, 7] {
                    match guard(|| pc.register(fd)) {
                        Ok(Ok(fid)) => {
                            tr.ev(json!({"op":"file","f":files.len() + 1,"fid":fid,"size":0,"gen":0,"ok":true,"virtual":true}));
                            files.push(HFile { fid, path: PathBuf::new(), size: 0 });
                        }
                        _ => tr.ev(json!({"op":"file","f":0,"fid":0,"size":0,"gen":0,"ok":false,"virtual":true})),
                    }
                    c.events += 1;
                }
                if files.is_empty() {
                    continue;
                }
                for step in 0..steps + 3 {
                    // step 5 of every run: the unaligned case on purpose - a 5-byte range that starts 2 bytes before a
                    // page boundary is read (both pages cached), rewritten, invalidated BY RANGE and read again
                    let force_spill = step == 5 && files[0].size >= 3 * p;
                    let fi = if force_spill { 0 } else { rng.below(files.len() as u64) as usize };
                    let (fid, size) = (files[fi].fid, files[fi].size);
                    let f = fi + 1;
                    let x = if step >= steps { [200, 201, 0][step - steps] } else if force_spill { 58 } else { rng.below(100) };
                    let offs = [0, 1, p - 1, p, p + 1, 2 * p - 3, 3 * p - 1, size.saturating_sub(5), size.saturating_sub(1), size, size + 10, rng.below(size + 1), rng.below(size + 1)];
                    let r = guard(|| -> Vec<Value> {
                        match x {
                            0..=57 => {
                                let off = *rng.pick(&offs);
                                let long = rng.chance(1, 8) && long_reads < 4 && budget > 3 * PAGE_SIZE;
                                let len = if long {
                                    long_reads += 1;
                                    *rng.pick(&[PAGE_SIZE - 1, PAGE_SIZE, PAGE_SIZE + 1, 2 * PAGE_SIZE + 5, 3 * PAGE_SIZE])
                                } else {
                                    *rng.pick(&[0usize, 1, 2, 7, 8, 33, 64, 200])
                                };
                                match pc.read(api, fid, off, len) {
                                    Ok((d, buf)) => {
                                        budget = budget.saturating_sub(d.len());
                                        if let (Some(b), true, true) = (buf, held.is_none(), d.len() <= 200 && rng.chance(1, 3)) {
                                            held = Some((b, f, off, len, 1 + rng.below(4) as u32));
                                        }
                                        vec![json!({"op":"read","api":api,"f":f,"off":off,"len":len,"ok":true,"r":bytes_json(&d)})]
                                    }
                                    Err(()) => vec![json!({"op":"read","api":api,"f":f,"off":off,"len":len,"ok":false,"r":[]})],
                                }
                            }
                            58..=67 if size > 0 => {
                                // the harness rewrites a byte range in place (same size), then usually invalidates it
                                let ra = rng.below(size);
                                let a0 = if force_spill { p - 2 + (run as u64 % 2) * p } else { *rng.pick(&[0, p - 2, p, 2 * p - 1, ra]) % size };
                                let l = if force_spill { 5 } else { *rng.pick(&[1u64, 5, p, p + 3, 2 * p, 40]) };
                                let b0 = (a0 + l).min(size);
                                // half of the time the range is read first (so that its pages are cached when the file
                                // changes underneath) and read again right after the invalidation: the staleness clause
                                let verify = (force_spill || rng.chance(1, 2)) && budget > 2 * ((b0 - a0) as usize) + 64 && (b0 - a0) as usize <= 2 * PAGE_SIZE + 8;
                                let mut pre: Vec<Value> = vec![];
                                if verify {
                                    let len = (b0 - a0) as usize;
                                    if let Ok((d, _)) = pc.read(api, fid, a0, len) {
                                        budget = budget.saturating_sub(d.len());
                                        pre.push(json!({"op":"read","api":api,"f":f,"off":a0,"len":len,"ok":true,"r":bytes_json(&d)}));
                                    }
                                }
                                gen += 1;
                                let data: Vec<u8> = (a0..b0).map(|i| pattern(gen, i)).collect();
                                let mut fh = std::fs::OpenOptions::new().write(true).open(&files[fi].path).expect("reopen file");
                                fh.seek(SeekFrom::Start(a0)).expect("seek");
                                fh.write_all(&data).expect("rewrite");
                                fh.sync_all().ok();
                                // a buffer handed out before the rewrite legitimately keeps the old bytes: stop watching it
                                if held.as_ref().map_or(false, |h| h.1 == f) {
                                    held = None;
                                }
                                let mut evs = pre;
                                evs.push(json!({"op":"rewrite","f":f,"a":a0,"b":b0,"gen":gen}));
                                let mut invalidated = true;
                                match if force_spill { 0 } else { rng.below(10) } {
                                    0..=5 => evs.push(json!({"op":"invalidate_range","f":f,"off":a0,"len":b0 - a0,"ok":pc.invalidate_range(fid, a0, (b0 - a0) as usize)})),
                                    6..=7 => {
                                        for pg in (a0 / p)..=((b0 - 1) / p) {
                                            evs.push(json!({"op":"invalidate_page","f":f,"page":pg,"ok":pc.invalidate_page(fid, pg as u32)}));
                                        }
                                    }
                                    _ => invalidated = false, // left stale for now: reads may see either version until an invalidation
                                }
                                if verify && invalidated {
                                    let len = (b0 - a0) as usize;
                                    if let Ok((d, _)) = pc.read(api, fid, a0, len) {
                                        budget = budget.saturating_sub(d.len());
                                        evs.push(json!({"op":"read","api":api,"f":f,"off":a0,"len":len,"ok":true,"r":bytes_json(&d)}));
                                    }
                                }
                                evs
                            }
                            58..=67 => vec![],
                            68..=73 => {
                                let off = *rng.pick(&offs);
                                let len = *rng.pick(&[1usize, PAGE_SIZE, 2 * PAGE_SIZE + 1, 64]);
                                vec![json!({"op":"invalidate_range","f":f,"off":off,"len":len,"ok":pc.invalidate_range(fid, off, len)})]
                            }
                            74..=76 => {
                                let pg = rng.below(8);
                                vec![json!({"op":"invalidate_page","f":f,"page":pg,"ok":pc.invalidate_page(fid, pg as u32)})]
                            }
                            77..=84 => {
                                let off = *rng.pick(&offs);
                                let len = *rng.pick(&[1usize, PAGE_SIZE, 3 * PAGE_SIZE, 64]);
                                vec![json!({"op":"prefetch","f":f,"off":off,"len":len,"ok":pc.prefetch(fid, off, len)})]
                            }
                            85..=87 => vec![json!({"op":"mark_dirty","f":f,"page":rng.below(7),"ok":pc.mark_dirty(fid, rng.below(7) as u32)})],
                            88..=89 => vec![json!({"op":"flush_file","f":f,"ok":pc.flush_file(fid)})],
                            90..=91 => vec![json!({"op":"file_size","f":f,"r":opt(pc.file_size(fid))})],
                            92..=95 => match pc.size() {
                                Some(n) => vec![json!({"op":"size","r":n})],
                                None => vec![],
                            },
                            96 => {
                                // an offset whose page number does not fit the 32-bit page id: far beyond every file
                                let far: u64 = (1u64 << 44) + *rng.pick(&[0u64, 5, p, p + 7, 3 * p - 1]);
                                match pc.read(api, fid, far, 16) {
                                    Ok((d, _)) => vec![json!({"op":"read_far","api":api,"f":f,"offl":limbs(far),"len":16,"ok":true,"r":bytes_json(&d)})],
                                    Err(()) => vec![json!({"op":"read_far","api":api,"f":f,"offl":limbs(far),"len":16,"ok":false,"r":[]})],
                                }
                            }
                            97 => {
                                let far: u64 = (1u64 << 44) + rng.below(4) * p;
                                vec![json!({"op":"invalidate_far","f":f,"offl":limbs(far),"len":10,"ok":pc.invalidate_range(fid, far, 10)})]
                            }
                            98 => {
                                // read_batch with three requests over the files: logged as three reads in request order
                                let reqs: Vec<(usize, u64, usize)> = (0..3).map(|_| { let g = rng.below(files.len() as u64) as usize; (g, *rng.pick(&offs) % (files[g].size + 3), *rng.pick(&[1usize, 9, 64, 130])) }).collect();
                                match pc.read_multi(reqs.iter().map(|&(g, o, l)| (files[g].fid, o, l)).collect()) {
                                    Some(Ok(rs)) => reqs.iter().zip(rs.iter()).map(|(&(g, o, l), d)| json!({"op":"read","api":"batch3","f":g + 1,"off":o,"len":l,"ok":true,"r":bytes_json(d)})).collect(),
                                    Some(Err(())) => vec![json!({"op":"read","api":"batch3","f":f,"off":0,"len":0,"ok":false,"r":[]})],
                                    None => vec![],
                                }
                            }
                            99 => {
                                // the whole file in one read (every page, more than the cache holds)
                                if size as usize + 64 > budget || size == 0 {
                                    return vec![];
                                }
                                match pc.read(api, fid, 0, size as usize + 5) {
                                    Ok((d, _)) => {
                                        budget = budget.saturating_sub(d.len());
                                        vec![json!({"op":"read","api":api,"f":f,"off":0,"len":size + 5,"ok":true,"r":bytes_json(&d)})]
                                    }
                                    Err(()) => vec![json!({"op":"read","api":api,"f":f,"off":0,"len":size + 5,"ok":false,"r":[]})],
                                }
                            }
                            200 => vec![json!({"op":"close_file","f":f,"ok":pc.close_file(fid)})],
                            _ => match pc.read(api, fid, 0, 16) {
                                Ok((d, _)) => vec![json!({"op":"read","api":api,"f":f,"off":0,"len":16,"ok":true,"r":bytes_json(&d)})],
                                Err(()) => vec![json!({"op":"read","api":api,"f":f,"off":0,"len":16,"ok":false,"r":[]})],
                            },
                        }
                    });
                    if let Some((b, hf, hoff, hlen, left)) = held.take() {
                                if left == 0 || step + 1 >= steps {
                                    // the buffer was handed out `left` calls ago; other pages were loaded and evicted meanwhile
                                    tr.ev(json!({"op":"read","api":"held","f":hf,"off":hoff,"len":hlen,"ok":true,"r":bytes_json(b.data())}));
                                    c.events += 1;
                                } else {
                                    held = Some((b, hf, hoff, hlen, left - 1));
                                }
                    }
                    match r {
                        Ok(evs) => {
                            for e in evs {
                                if e["op"] == "read" {
                                    if e["ok"] == json!(true) {
                                        c.successes += 1;
                                    } else {
                                        c.refused += 1;
                                    }
                                }
                                tr.ev(e);
                                c.events += 1;
                            }
                        }
                        Err(m) => {
                            tr.ev(json!({"op":"panic","in":"pagecache","msg":m.chars().take(120).collect::<String>()}));
                            c.panics += 1;
                            c.events += 1;
                            dead = true;
                        }
                    }
                    if dead {
                        break;
                    }
                }
                if dead {
                    std::mem::forget(pc);
                }
                for f in &files {
                    let _ = std::fs::remove_file(&f.path);
                }
            }
        }
        per_subject.insert(name.clone(), c.json());
    }
}

/// One LruPageCache shared by three reader threads (no rewrites): whatever the interleaving, every read must
/// return the bytes of its own (file, offset, length) - a page loaded or evicted by another thread at the same
/// moment must not show through.  The reads are independent of each other, so they are logged in completion order.
fn drive_pc_mt(a: &Args, tr: &mut Tracer, per_subject: &mut serde_json::Map<String, Value>) {
    let name = "pc:lru_mt";
    if !a.wants(name) {
        return;
    }
    let rng0 = Rng::new(a.seed);
    let dir = tmp_dir();
    let (runs, per_thread) = if a.thorough() { (12, 40) } else { (3, 25) };
    let p = PAGE_SIZE as u64;
    let mut c = Counts::default();
    for run in 0..runs {
        let cap_pages = 1 + run % 2;
        let pc = match LruPageCache::new(PageCacheConfig::balanced().with_capacity(cap_pages * PAGE_SIZE)) {
            Ok(x) => Arc::new(x),
            Err(_) => {
                c.not_constructed += 1;
                continue;
            }
        };
        tr.reset("pagecache", name, json!({"fam":"pc","variant":"lru_mt","cap_pages":cap_pages,"page":PAGE_SIZE,"seed":a.seed,"threads":3}));
        c.runs += 1;
        let mut files: Vec<(u32, u64, PathBuf)> = vec![];
        for (fi, size) in [4 * p + 7, 3 * p].iter().enumerate() {
            let path = dir.join(format!("mt-{run}-{fi}.bin"));
            let data: Vec<u8> = (0..*size).map(|i| pattern(fi as u64 + 1, i)).collect();
            std::fs::write(&path, &data).expect("write file");
            match pc.open_file(&path) {
                Ok(fid) => {
                    tr.ev(json!({"op":"file","f":files.len() + 1,"fid":fid,"size":size,"gen":fi + 1,"ok":true,"virtual":false}));
                    files.push((fid, *size, path));
                }
                Err(_) => tr.ev(json!({"op":"file","f":0,"fid":0,"size":size,"gen":fi + 1,"ok":false,"virtual":false})),
            }
            c.events += 1;
        }
        if files.len() < 2 {
            continue;
        }
        let out: Arc<Mutex<Vec<Value>>> = Arc::new(Mutex::new(vec![]));
        let meta: Vec<(u32, u64)> = files.iter().map(|f| (f.0, f.1)).collect();
        std::thread::scope(|sc| {
            for t in 0..3usize {
                let (pc, out, meta) = (Arc::clone(&pc), Arc::clone(&out), meta.clone());
                let mut rng = rng0.derive(&format!("{name}/{run}/{t}"));
                sc.spawn(move || {
                    for _ in 0..per_thread {
                        let fi = rng.below(2) as usize;
                        let (fid, size) = meta[fi];
                        let rnd = rng.below(size);
                        let off = *rng.pick(&[0, p - 3, p, 2 * p - 1, 3 * p - 2, size - 4, rnd]);
                        let len = *rng.pick(&[1usize, 6, 40, 300]);
                        let e = match guard(|| pc.read(fid, off, len).map(|b| b.data().to_vec())) {
                            Ok(Ok(d)) => json!({"op":"read","api":"mt","t":t,"f":fi + 1,"off":off,"len":len,"ok":true,"r":bytes_json(&d)}),
                            Ok(Err(_)) => json!({"op":"read","api":"mt","t":t,"f":fi + 1,"off":off,"len":len,"ok":false,"r":[]}),
                            Err(m) => json!({"op":"panic","in":"pc_mt","msg":m.chars().take(120).collect::<String>()}),
                        };
                        out.lock().unwrap_or_else(|e| e.into_inner()).push(e);
                    }
                });
            }
        });
        for e in out.lock().unwrap_or_else(|e| e.into_inner()).drain(..) {
            if e["ok"] == json!(true) {
                c.successes += 1;
            }
            tr.ev(e);
            c.events += 1;
        }
        for f in &files {
            let _ = std::fs::remove_file(&f.2);
        }
    }
    per_subject.insert(name.to_string(), c.json());
}

// ================================================================ cached blob store

fn cs_subjects() -> Vec<String> {
    ["cbs:through", "cbs:back", "cbs:around", "cbs:shared_cache", "cbs:shared_back", "cbs:shared_around"].iter().map(|s| s.to_string()).collect()
}

fn drive_cs(a: &Args, tr: &mut Tracer, per_subject: &mut serde_json::Map<String, Value>) {
    let rng0 = Rng::new(a.seed);
    let (runs, steps) = if a.thorough() { (10, 150) } else { (3, 60) };
    let empty = || digest(&[]);
    for name in cs_subjects().iter().filter(|s| a.wants(s)) {
        let var = name.split_once(':').map(|x| x.1).unwrap_or("");
        let mut c = Counts::default();
        for run in 0..runs {
            let mut rng = rng0.derive(&format!("{name}/{run}"));
            let cfg = PageCacheConfig::balanced().with_capacity((1 + run % 3) * PAGE_SIZE);
            let made = guard(|| match var {
                "through" => CachedBlobStore::with_write_strategy(MemoryBlobStore::new(), cfg, CacheWriteStrategy::WriteThrough).ok(),
                "back" => CachedBlobStore::with_write_strategy(MemoryBlobStore::new(), cfg, CacheWriteStrategy::WriteBack).ok(),
                "around" => CachedBlobStore::with_write_strategy(MemoryBlobStore::new(), cfg, CacheWriteStrategy::WriteAround).ok(),
                "shared_back" => LruPageCache::new(cfg).ok().and_then(|pc| CachedBlobStore::with_cache_and_strategy(MemoryBlobStore::new(), Arc::new(pc), CacheWriteStrategy::WriteBack).ok()),
                "shared_around" => LruPageCache::new(cfg).ok().and_then(|pc| CachedBlobStore::with_cache_and_strategy(MemoryBlobStore::new(), Arc::new(pc), CacheWriteStrategy::WriteAround).ok()),
                _ => LruPageCache::new(cfg).ok().and_then(|pc| CachedBlobStore::with_cache(MemoryBlobStore::new(), Arc::new(pc)).ok()),
            });
            let mut s = match made {
                Ok(Some(x)) => x,
                _ => {
                    c.not_constructed += 1;
                    continue;
                }
            };
            tr.reset("cstore", name, json!({"fam":"cbs","variant":var,"seed":a.seed}));
            c.runs += 1;
            let mut ids: Vec<u32> = vec![]; // ids the store handed out (only used to ASK about them)
            let mut dead = false;
            for _ in 0..steps {
                let x = rng.below(100);
                let pick_id = |rng: &mut Rng, ids: &[u32]| -> u32 {
                    if ids.is_empty() || rng.chance(1, 8) {
                        rng.below(50) as u32
                    } else {
                        *rng.pick(ids)
                    }
                };
                let r = guard(|| -> Value {
                    match x {
                        30..=34 => {
                            // a record written to the wrapped store behind the cache's back (inner_mut)
                            let n = *rng.pick(&[0usize, 7, 300, PAGE_SIZE + 9]);
                            let data = rng.bytes(n);
                            match s.inner_mut().put(&data) {
                                Ok(id) => {
                                    if !ids.contains(&id) {
                                        ids.push(id);
                                    }
                                    json!({"op":"put","via":"inner","d":digest(&data),"ok":true,"id":id})
                                }
                                Err(_) => json!({"op":"put","via":"inner","d":digest(&data),"ok":false,"id":0}),
                            }
                        }
                        67..=69 => {
                            // a record removed from the wrapped store behind the cache's back: the cached store must not
                            // keep serving it
                            let id = pick_id(&mut rng, &ids);
                            json!({"op":"remove","via":"inner","id":id,"ok":s.inner_mut().remove(id).is_ok()})
                        }
                        92..=93 => json!({"op":"is_empty","r":s.is_empty(),"ir":s.inner().is_empty()}),
                        96 => {
                            let st = *rng.pick(&[CacheWriteStrategy::WriteThrough, CacheWriteStrategy::WriteBack, CacheWriteStrategy::WriteAround]);
                            s.set_write_strategy(st);
                            json!({"op":"set_write_strategy","r":format!("{:?}", s.write_strategy()),"want":format!("{:?}", st)})
                        }
                        0..=34 => {
                            let rn = rng.below(600) as usize;
                            let n = *rng.pick(&[0usize, 1, 10, 300, PAGE_SIZE - 1, PAGE_SIZE, PAGE_SIZE + 1, 9000, rn]);
                            let data = rng.bytes(n);
                            match s.put(&data) {
                                Ok(id) => {
                                    if !ids.contains(&id) {
                                        ids.push(id);
                                    }
                                    json!({"op":"put","d":digest(&data),"ok":true,"id":id})
                                }
                                Err(_) => json!({"op":"put","d":digest(&data),"ok":false,"id":0}),
                            }
                        }
                        35..=69 => {
                            let id = pick_id(&mut rng, &ids);
                            let got = s.get(id);
                            let inner = s.inner().get(id);
                            json!({"op":"get","id":id,"ok":got.is_ok(),"r":got.as_ref().map(|d| digest(d)).unwrap_or_else(|_| empty()),
                                   "iok":inner.is_ok(),"ir":inner.as_ref().map(|d| digest(d)).unwrap_or_else(|_| empty())})
                        }
                        70..=79 => {
                            let id = pick_id(&mut rng, &ids);
                            json!({"op":"remove","id":id,"ok":s.remove(id).is_ok()})
                        }
                        80..=84 => {
                            let id = pick_id(&mut rng, &ids);
                            let f = |x: zipora::error::Result<Option<usize>>| -> Value {
                                match x {
                                    Ok(Some(n)) => json!([n]),
                                    Ok(None) => json!([]),
                                    Err(_) => json!([-1]),
                                }
                            };
                            json!({"op":"size","id":id,"r":f(s.size(id)),"ir":f(s.inner().size(id))})
                        }
                        85..=89 => {
                            let id = pick_id(&mut rng, &ids);
                            json!({"op":"contains","id":id,"r":s.contains(id),"ir":s.inner().contains(id)})
                        }
                        90..=93 => json!({"op":"len","r":s.len(),"ir":s.inner().len()}),
                        94..=95 => json!({"op":"flush","ok":s.flush().is_ok()}),
                        96..=97 => json!({"op":"prefetch_range","ok":s.prefetch_range(rng.below(20000), rng.below(9000) as usize).is_ok()}),
                        98 => {
                            s.disable_cache();
                            json!({"op":"flush","ok":true,"what":"disable_cache"})
                        }
                        _ => {
                            s.enable_cache();
                            json!({"op":"flush","ok":true,"what":"enable_cache"})
                        }
                    }
                });
                let e = match r {
                    Ok(e) => e,
                    Err(m) => {
                        dead = true;
                        c.panics += 1;
                        json!({"op":"panic","in":"cstore","msg":m.chars().take(120).collect::<String>()})
                    }
                };
                if e["op"] == "get" && e["ok"] == json!(true) {
                    c.successes += 1;
                }
                if e["op"] == "put" && e["ok"] == json!(false) {
                    c.refused += 1;
                }
                tr.ev(e);
                c.events += 1;
                if dead {
                    break;
                }
            }
            if dead {
                std::mem::forget(s);
            }
        }
        per_subject.insert(name.clone(), c.json());
    }
}

// ================================================================ CacheBuffer / BufferPool

/// the observations made on a buffer right after a call
fn buf_obs(op: &str, b: usize, d: Option<&[u8]>, buf: &CacheBuffer) -> Value {
    let mut e = json!({"op":op,"b":b,"data":bytes_json(buf.data()),"len":buf.len(),"empty":buf.is_empty(),"has":buf.has_data()});
    if let Some(d) = d {
        e["d"] = bytes_json(d);
    }
    e
}

/// CacheBuffer is what reads are delivered in: from_data / copy_from_slice / extend_from_slice / clear /
/// reserve / moves of the object, and recycling through BufferPool.  data() must always show the bytes put in.
fn drive_buf(a: &Args, tr: &mut Tracer, per_subject: &mut serde_json::Map<String, Value>) {
    let name = "buf:cache_buffer";
    if !a.wants(name) {
        return;
    }
    let rng0 = Rng::new(a.seed);
    let (runs, steps) = if a.thorough() { (30, 60) } else { (8, 40) };
    let mut c = Counts::default();
    for run in 0..runs {
        let mut rng = rng0.derive(&format!("{name}/{run}"));
        tr.reset("buffer", name, json!({"fam":"buf","variant":"cache_buffer","seed":a.seed}));
        c.runs += 1;
        let pool = BufferPool::new(2);
        let mut live: Vec<(usize, CacheBuffer)> = vec![];
        let mut next = 1usize;
        let mut dead = false;
        // payload sizes around the growth steps of a Vec and the page size
        let sizes = [0usize, 1, 7, 8, 9, 31, 32, 33, 64, 200, 1000, PAGE_SIZE];
        for _ in 0..steps {
            let x = rng.below(100);
            let n = *rng.pick(&sizes);
            let d = rng.bytes(n);
            let r = guard(|| -> Value {
                if live.is_empty() || x < 12 {
                    let b = next;
                    next += 1;
                    return match x % 3 {
                        0 => {
                            live.push((b, CacheBuffer::new()));
                            buf_obs("buf_new", b, None, &live.last().unwrap().1)
                        }
                        1 => {
                            live.push((b, pool.get())); // a recycled buffer must be empty
                            buf_obs("buf_new", b, None, &live.last().unwrap().1)
                        }
                        _ => {
                            live.push((b, CacheBuffer::from_data(d.clone())));
                            buf_obs("buf_from_data", b, Some(&d), &live.last().unwrap().1)
                        }
                    };
                }
                let i = rng.below(live.len() as u64) as usize;
                let b = live[i].0;
                match x {
                    12..=29 => {
                        live[i].1.copy_from_slice(&d);
                        buf_obs("buf_copy", b, Some(&d), &live[i].1)
                    }
                    30..=54 => {
                        live[i].1.extend_from_slice(&d);
                        buf_obs("buf_extend", b, Some(&d), &live[i].1)
                    }
                    55..=62 => {
                        live[i].1.clear();
                        buf_obs("buf_clear", b, None, &live[i].1)
                    }
                    63..=76 => {
                        // reserve far more than the buffer holds: the storage is reallocated
                        live[i].1.reserve(*rng.pick(&[1usize, 64, 5000, 100_000]));
                        buf_obs("buf_reserve", b, None, &live[i].1)
                    }
                    77..=88 => {
                        // move the object (into a Box and back): the content must follow
                        let (h, buf) = live.swap_remove(i);
                        let boxed = Box::new(buf);
                        live.push((h, *boxed));
                        buf_obs("buf_move", h, None, &live.last().unwrap().1)
                    }
                    _ => {
                        let (h, buf) = live.swap_remove(i);
                        pool.put(buf);
                        json!({"op":"pool_put","b":h})
                    }
                }
            });
            match r {
                Ok(e) => {
                    // C17-KF8 is fixed (b1d4d57): a buffer that went through reserve() stays live and keeps being
                    // observed (its data() must follow the moved storage)
                    let drop_it: Option<u64> = None;
                    tr.ev(e);
                    c.events += 1;
                    c.successes += 1;
                    if let Some(h) = drop_it {
                        if let Some(i) = live.iter().position(|x| x.0 as u64 == h) {
                            drop(live.swap_remove(i));
                            tr.ev(json!({"op":"buf_drop","b":h}));
                            c.events += 1;
                        }
                    }
                }
                Err(m) => {
                    tr.ev(json!({"op":"panic","in":"buffer","msg":m.chars().take(120).collect::<String>()}));
                    c.panics += 1;
                    dead = true;
                }
            }
            if dead {
                break;
            }
        }
        if dead {
            std::mem::forget(live);
        }
    }
    per_subject.insert(name.to_string(), c.json());
}

// ================================================================ LRU maps driven by several caller threads

thread_local! {
    /// callbacks run on the thread whose call evicts: each thread collects its own
    static MY_EVICTIONS: std::cell::RefCell<Vec<(u32, u32)>> = std::cell::RefCell::new(vec![]);
}
#[derive(Clone, Default)]
struct ThreadRecorder;
impl EvictionCallback<u32, u32> for ThreadRecorder {
    fn on_evict(&self, k: &u32, v: &u32) {
        MY_EVICTIONS.with(|e| e.borrow_mut().push((*k, *v)));
    }
}

fn lin_subjects() -> Vec<String> {
    ["lrumt:cb", "clrumt:hash_1", "clrumt:hash_2"].iter().map(|s| s.to_string()).collect()
}

/// Multi-threaded stress without schedule control: `threads` callers issue a few calls each on one shared
/// map; every call is logged with an invocation and a response stamp from one global counter.  TLC
/// (Trace_LruLin) searches a linearization of each run.
fn drive_lin_one(a: &Args, name: &String, tr: &mut Tracer) -> Counts {
    use std::sync::atomic::AtomicU64;
    let rng0 = Rng::new(a.seed);
    let (runs, per_thread) = if a.thorough() { (400, 7) } else { (60, 6) };
    let threads = 3usize;
    {
        let (fam, var) = name.split_once(':').unwrap_or((name, ""));
        let shards: usize = var.rsplit('_').next().and_then(|x| x.parse().ok()).unwrap_or(1);
        let mut c = Counts::default();
        let mut hung = false;
        for cap in 1..=2usize {
            for run in 0..runs {
                let single: Option<Arc<LruMap<u32, u32, ThreadRecorder>>> = if fam == "lrumt" { LruMap::with_eviction_callback(cap, ThreadRecorder).ok().map(Arc::new) } else { None };
                let conc: Option<Arc<ConcurrentLruMap<u32, u32, ThreadRecorder>>> = if fam == "clrumt" {
                    let cfg = ConcurrentLruMapConfig { base_config: LruMapConfig { capacity: cap, ..Default::default() }, shard_count: shards, load_balancing: LoadBalancingStrategy::Hash };
                    ConcurrentLruMap::with_config_and_callback(cfg, ThreadRecorder).ok().map(Arc::new)
                } else {
                    None
                };
                if single.is_none() && conc.is_none() {
                    c.not_constructed += 1;
                    continue;
                }
                let clock = Arc::new(AtomicU64::new(1));
                let barrier = Arc::new(std::sync::Barrier::new(threads));
                let uni = (shards * cap + 1) as u64;
                // what the threads have completed, and the call each of them is in (a call that never returns is data)
                let completed: Arc<Mutex<Vec<Value>>> = Arc::new(Mutex::new(vec![]));
                let current: Arc<Mutex<Vec<Option<Value>>>> = Arc::new(Mutex::new(vec![None; threads]));
                let (fin_tx, fin_rx) = mpsc::channel::<usize>();
                for t in 0..threads {
                    let (single, conc, clock, barrier) = (single.clone(), conc.clone(), Arc::clone(&clock), Arc::clone(&barrier));
                    let (completed, current, fin_tx) = (Arc::clone(&completed), Arc::clone(&current), fin_tx.clone());
                    let mut rng = rng0.derive(&format!("{name}/{cap}/{run}/{t}"));
                    std::thread::spawn(move || {
                        barrier.wait();
                        for _ in 0..per_thread {
                            let k = rng.below(uni) as u32;
                            let v = rng.below(1000) as u32;
                            let x = rng.below(100);
                            let opname = match x {
                                0..=49 => "put",
                                50..=74 => "get",
                                75..=84 => "remove",
                                85..=94 => "contains",
                                _ if shards == 1 => "len",
                                _ => "contains",
                            };
                            let inv = clock.fetch_add(1, Ordering::SeqCst);
                            current.lock().unwrap()[t] = Some(json!({"op":opname,"k":k,"v":v,"t":t,"inv":inv}));
                            let r = guard(|| -> Value {
                                macro_rules! on {
                                    ($m:ident => $e:expr) => {
                                        match (&single, &conc) {
                                            (Some($m), _) => $e,
                                            (_, Some($m)) => $e,
                                            _ => unreachable!(),
                                        }
                                    };
                                }
                                match opname {
                                    "put" => match on!(m => m.put(k, v).map_err(|_| ())) {
                                        Ok(r) => json!({"op":"put","k":k,"v":v,"ok":true,"r":opt(r)}),
                                        Err(()) => json!({"op":"put","k":k,"v":v,"ok":false,"r":[]}),
                                    },
                                    "get" => json!({"op":"get","k":k,"r":opt(on!(m => m.get(&k)))}),
                                    "remove" => json!({"op":"remove","k":k,"r":opt(on!(m => m.remove(&k)))}),
                                    "len" => json!({"op":"len","r":on!(m => m.len())}),
                                    _ => json!({"op":"contains","k":k,"r":on!(m => m.contains_key(&k))}),
                                }
                            });
                            let res = clock.fetch_add(1, Ordering::SeqCst);
                            let mut e = match r {
                                Ok(e) => e,
                                Err(m) => json!({"op":"panic","in":"lin","msg":m.chars().take(120).collect::<String>()}),
                            };
                            e["t"] = json!(t);
                            e["inv"] = json!(inv);
                            e["res"] = json!(res);
                            e["pending"] = json!(false);
                            e["ev"] = pairs(&MY_EVICTIONS.with(|q| std::mem::take(&mut *q.borrow_mut())));
                            current.lock().unwrap()[t] = None;
                            completed.lock().unwrap().push(e);
                        }
                        let _ = fin_tx.send(t);
                    });
                }
                // wait for the threads; "no call completed for 15 x 4 s while calls are in flight" = the callers hang
                // (generous on purpose: a loaded or briefly stalled machine must not look like a deadlock)
                let mut finished = 0usize;
                let mut stalled = 0;
                let mut seen = 0usize;
                while finished < threads && stalled < 15 {
                    match fin_rx.recv_timeout(std::time::Duration::from_secs(4)) {
                        Ok(_) => finished += 1,
                        Err(_) => {
                            let n = completed.lock().unwrap().len();
                            if n == seen {
                                stalled += 1;
                            } else {
                                stalled = 0;
                                seen = n;
                            }
                        }
                    }
                }
                let hang = finished < threads;
                let mut all: Vec<Value> = completed.lock().unwrap().clone();
                all.sort_by_key(|e| e["inv"].as_u64().unwrap_or(0));
                if hang {
                    // the calls that never returned: pending (they may or may not have taken effect), then the hang itself
                    let cur = current.lock().unwrap().clone();
                    let mut names = vec![];
                    for mut e in cur.into_iter().flatten() {
                        names.push(e["op"].clone());
                        e["res"] = json!(1 << 30);
                        e["pending"] = json!(true);
                        e["ok"] = json!(true);
                        e["r"] = json!([]);
                        e["ev"] = json!([]);
                        all.push(e);
                    }
                    all.push(json!({"op":"hang","stuck":names,"inv":(1 << 30) - 1,"res":1 << 30,"pending":false,"ev":[]}));
                    c.panics += 1;
                }
                tr.reset("lrulin", name, json!({"fam":fam,"variant":var,"constructed":true,"cap":cap,"shards":shards,"has_cb":true,"threads":threads,
                    "nops":all.len(),"seed":a.seed}));
                c.runs += 1;
                for e in all {
                    if e["op"] == "put" && e["ok"] == json!(true) {
                        c.successes += 1;
                    }
                    if e["ok"] == json!(false) {
                        c.refused += 1;
                    }
                    c.evictions += e["ev"].as_array().map_or(0, |x| x.len());
                    tr.ev(e);
                    c.events += 1;
                }
                tr.flush();
                if hang {
                    hung = true;
                    break; // the stuck threads stay behind (they own their map)
                }
            }
            if hung && !a.thorough() {
                break; // quick tier: one hang per subject is enough (each costs 8 s of waiting)
            }
        }
        c
    }
}

// ================================================================ B1 entry

fn drive(a: &Args) {
    let mut per_subject = serde_json::Map::new();
    let mut t1 = Tracer::new(&a.out, "lru");
    t1.max_events = 2500;
    drive_lru(a, &mut t1, &mut per_subject);
    drive_fsa(a, &mut t1, &mut per_subject);
    t1.close();
    let mut t2 = Tracer::new(&a.out, "pc");
    t2.max_events = 700;
    drive_pc(a, &mut t2, &mut per_subject);
    drive_pc_mt(a, &mut t2, &mut per_subject);
    let _ = std::fs::remove_dir_all(tmp_dir());
    drive_cs(a, &mut t2, &mut per_subject);
    drive_buf(a, &mut t2, &mut per_subject);
    t2.close();
    // the multi-threaded subjects run side by side (a hang costs seconds of waiting), one trace stem each
    let lin: Vec<String> = lin_subjects().into_iter().filter(|s| a.wants(s)).collect();
    let lin_results: Vec<(Counts, usize, usize, Vec<PathBuf>)> = std::thread::scope(|sc| {
        let hs: Vec<_> = lin.iter().enumerate().map(|(i, name)| sc.spawn(move || {
            let mut t = Tracer::new(&a.out, &format!("lin{i}"));
            t.max_events = 1200;
            let c = drive_lin_one(a, name, &mut t);
            t.close();
            (c, t.total_events, t.runs, t.files.clone())
        })).collect();
        hs.into_iter().map(|h| h.join().expect("lin driver")).collect()
    });
    let mut t3 = (0usize, 0usize, Vec::<PathBuf>::new());
    for (name, (c, ev, ru, fl)) in lin.iter().zip(lin_results.into_iter()) {
        per_subject.insert(name.clone(), c.json());
        t3.0 += ev;
        t3.1 += ru;
        t3.2.extend(fl);
    }
    let files: Vec<String> = t1.files.iter().chain(t2.files.iter()).chain(t3.2.iter()).map(|p| p.display().to_string()).collect();
    write_summary(&a.out, &json!({"mode":"drive","events":t1.total_events + t2.total_events + t3.0,"runs":t1.runs + t2.runs + t3.1,
        "lru_events":t1.total_events,"pc_events":t2.total_events,"lin_events":t3.0,"files":files,"subjects":per_subject}));
}

// ================================================================ B2: TLC behaviours

/// single-shard subjects; the quick tier leaves out three whose code path equals another one's
fn b2_subjects(a: &Args) -> Vec<String> {
    let skip_quick = ["lru:cfg_perf_nocb", "lru:cb_sec", "clru:aff_1"];
    lru_subjects().into_iter().filter(|s| s.starts_with("lru:") || s.ends_with("_1")).filter(|s| a.thorough() || !skip_quick.contains(&s.as_str())).collect()
}

/// per (thread, subject) counters of the B2 replay
#[derive(Default, Clone)]
struct B2Count {
    executed: usize,
    mismatching: usize,
    written_refusal: usize,
    written_other: usize,
    evicting: usize,
    mutating: usize,
}

/// a behaviour = {"cap":c,"steps":[{op,k,v,r,ev,st}],"drain":[[k,v]..]} with abstract keys "k1".. and values "v1"..
/// The file is streamed: thread t handles the lines with index = t (mod threads) and executes each of
/// them on every subject.
fn replay(a: &Args) {
    use std::io::BufRead;
    let input = a.input.clone().expect("--in");
    let subs: Vec<String> = b2_subjects(a).into_iter().filter(|s| a.wants(s)).collect();
    let nthreads = a.get_u64("threads", 14) as usize;
    let results = Mutex::new(Vec::<(Vec<B2Count>, usize, usize, usize, Vec<String>)>::new());
    std::thread::scope(|sc| {
        for t in 0..nthreads {
            let (subs, input, results) = (&subs, &input, &results);
            sc.spawn(move || {
                let mut tr = Tracer::new(&a.out, &format!("lrub2-{t:02}"));
                tr.max_events = 2500;
                let mut rng = Rng::new(a.seed).derive("b2sample").derive(&t.to_string());
                let mut counts = vec![B2Count::default(); subs.len()];
                let f = std::fs::File::open(input).expect("open behaviours");
                let mut lines = 0usize;
                for (bi, line) in std::io::BufReader::new(f).lines().enumerate() {
                    let line = line.expect("read behaviours");
                    if line.trim().is_empty() {
                        continue;
                    }
                    lines += 1;
                    if bi % nthreads != t {
                        continue;
                    }
                    let b: Value = serde_json::from_str(&line).expect("behaviour json");
                    for (si, name) in subs.iter().enumerate() {
                        replay_one(a, name, bi, &b, &mut counts[si], &mut tr, &mut rng);
                    }
                }
                tr.close();
                let files = tr.files.iter().map(|p| p.display().to_string()).collect();
                results.lock().unwrap().push((counts, lines, tr.total_events, tr.runs, files));
            });
        }
    });
    let mut total = vec![B2Count::default(); subs.len()];
    let (mut behaviours, mut events, mut runs) = (0usize, 0usize, 0usize);
    let mut files = vec![];
    for (counts, lines, ev, ru, f) in results.into_inner().unwrap() {
        behaviours = behaviours.max(lines);
        events += ev;
        runs += ru;
        files.extend(f);
        for (i, c) in counts.iter().enumerate() {
            total[i].executed += c.executed;
            total[i].mismatching += c.mismatching;
            total[i].written_refusal += c.written_refusal;
            total[i].written_other += c.written_other;
            total[i].evicting += c.evicting;
            total[i].mutating += c.mutating;
        }
    }
    let mut per_subject = serde_json::Map::new();
    let mut total_exec = 0;
    for (i, name) in subs.iter().enumerate() {
        let c = &total[i];
        per_subject.insert(name.clone(), json!({"behaviours": c.executed, "mismatching": c.mismatching,
            "mismatch_traces_written": c.written_refusal + c.written_other, "mismatch_traces_without_refusal": c.written_other,
            "evicting_behaviours": c.evicting, "mutating_behaviours": c.mutating}));
        total_exec += c.executed;
    }
    write_summary(&a.out, &json!({"mode":"replay","behaviours":behaviours,"executions":total_exec,"events":events,"runs":runs,
        "files":files,"subjects":per_subject}));
}

fn replay_one(a: &Args, name: &str, bi: usize, b: &Value, cnt: &mut B2Count, tr: &mut Tracer, rng: &mut Rng) {
    let sample_every = a.get_u64("sample", 2000);
    let max_mismatch_traces = a.get_u64("max_mismatch", 40) as usize; // per thread and subject
    let kid = |s: &Value| -> u32 { s.as_str().map(|x| x[1..].parse::<u32>().unwrap_or(1) - 1).unwrap_or(0) };
    let vid = |s: &Value| -> u32 { s.as_str().map(|x| x[1..].parse::<u32>().unwrap_or(1) * 10).unwrap_or(0) };
    let exp_pairs = |x: &Value| -> Value { Value::Array(x.as_array().map(|v| v.iter().map(|q| json!([kid(&q[0]), vid(&q[1])])).collect()).unwrap_or_default()) };
    let universe: Vec<u32> = (0..a.get_u64("keys", 4) as u32).collect();
    let cap = b["cap"].as_u64().unwrap_or(1) as usize;
    let steps = match b["steps"].as_array() {
        Some(x) => x,
        None => return,
    };
    let (mut s, meta) = match guard(|| make_lru(name, cap, a.seed)) {
        Ok(Some(x)) => x,
        _ => return,
    };
    let mut evs: Vec<Value> = vec![];
    let mut differs = false;
    let mut dead = false;
    let mut evicted_any = false;
    let mut refused_any = false;
    let mut put_ok = false;
    for st in steps {
        let op = st["op"].as_str().unwrap_or("");
        let (k, v) = (kid(&st["k"]), vid(&st["v"]));
        let e = exec_lru(&mut s, op, k, v, &universe);
        if e["op"] == "panic" {
            dead = true;
            differs = true;
            evs.push(e);
            break;
        }
        // expected result and callback log computed by TLC (equality only)
        if op != "clear" {
            let exp_r: Value = match st["r"].as_array() {
                Some(x) if !x.is_empty() => json!([vid(&x[0])]),
                _ => json!([]),
            };
            if e["ok"] == json!(false) || e["r"] != exp_r {
                differs = true;
            }
        }
        if e["ok"] == json!(false) {
            refused_any = true;
        } else if op == "put" {
            put_ok = true;
        }
        if meta.has_cb && e["ev"] != exp_pairs(&st["ev"]) {
            differs = true;
        }
        if st["ev"].as_array().map_or(false, |x| !x.is_empty()) {
            evicted_any = true;
        }
        evs.push(e);
        // expected content after the step, computed by TLC
        let p = exec_lru(&mut s, "probe", 0, 0, &universe);
        if p["op"] == "panic" {
            dead = true;
            differs = true;
            evs.push(p);
            break;
        }
        let want: Vec<u32> = st["st"].as_array().map(|x| x.iter().map(|q| kid(&q[0])).collect()).unwrap_or_default();
        let same_keys = p["c"].as_array().map_or(false, |c| c.iter().all(|q| q[1].as_bool().unwrap_or(false) == want.contains(&(q[0].as_u64().unwrap_or(0) as u32))));
        if !same_keys || p["len"].as_u64().unwrap_or(999) as usize != want.len() {
            differs = true;
        }
        evs.push(p);
    }
    if !dead {
        // drain: cap fresh keys push the whole content through the callback, least recently used first
        let mut seen: Vec<Value> = vec![];
        for i in 0..cap as u32 {
            let e = exec_lru(&mut s, "put", 100 + i, 5, &universe);
            if e["op"] == "panic" {
                dead = true;
                differs = true;
                evs.push(e);
                break;
            }
            if let Some(x) = e["ev"].as_array() {
                seen.extend(x.iter().cloned());
            }
            if e["ok"] == json!(false) {
                differs = true;
                refused_any = true;
            }
            evs.push(e);
        }
        if meta.has_cb && Value::Array(seen) != exp_pairs(&b["drain"]) {
            differs = true;
        }
    }
    if dead {
        std::mem::forget(s);
    }
    cnt.executed += 1;
    if evicted_any {
        cnt.evicting += 1;
    }
    if put_ok {
        cnt.mutating += 1;
    }
    if differs {
        cnt.mismatching += 1;
    }
    let sampled = rng.below(sample_every) == 0;
    // every behaviour that differs WITHOUT a refused put goes to the judge (up to 100 per thread and subject);
    // those that involve a refusal (accepted by the contract, counted) are capped separately
    let write_it = differs && if refused_any { cnt.written_refusal < max_mismatch_traces } else { cnt.written_other < 100 };
    if write_it || sampled {
        if differs && refused_any {
            cnt.written_refusal += 1;
        } else if differs {
            cnt.written_other += 1;
        }
        lru_reset(tr, name, cap, Some(&meta), json!({"behaviour": bi, "b2": true, "differs": differs, "universe": universe.len()}));
        for e in evs {
            tr.ev(e);
        }
    }
}

fn main() {
    let a = Args::parse();
    quiet_panics();
    match a.mode.as_str() {
        "drive" => drive(&a),
        "replay" => replay(&a),
        "subjects" => {
            for s in lru_subjects().into_iter().chain(fsa_subjects()).chain(pc_subjects()).chain(cs_subjects()).chain(lin_subjects()).chain(["pc:lru_mt".to_string(), "buf:cache_buffer".to_string()]) {
                println!("{s}");
            }
        }
        m => {
            eprintln!("c17: unknown mode {m}");
            std::process::exit(2)
        }
    }
}
