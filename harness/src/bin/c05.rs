//! C05 — a trie is exactly the set of keys inserted and not removed.  Runs real zipora tries /
//! automata, logs every public call as one NDJSON event; TLC judges the events against
//! spec/ByteSet.tla (Trace_ByteSet.tla).
//!
//! modes:
//!   drive   seeded random histories (B1) over a generated universe of ~40 byte-string keys
//!   replay  execute TLC-generated behaviours (B2): --in <REPLAY lines> --table <TABLE lines>; the
//!           expected result of every operation and the expected observable projection of the
//!           abstract state after it were computed by TLC (MC_ByteSetGen); the harness compares for
//!           equality only; behaviours that differ (and a seeded sample of all) are written as
//!           traces for TLC to judge.
//!   rerun   re-execute the calls stored in a replay file of a rejected run (--in <replay.json>)
//!   subjects  list the subject names
//!
//! Events: insert / remove / insert_all / build / clear / maintenance (mutators and no-op calls), single reads,
//! and after every mutating call the batch probes probe (len, its twins, contains), probe_keys (keys,
//! keys_with_prefix), probe_fsa (accepts, lookup, longest_prefix), probe_ids (lookup_node_id, restore_string).
//! The harness contains no model of a trie: it calls through, projects and compares for equality.
use serde_json::{json, Value};
use std::collections::HashMap;
use std::sync::Arc;
use zipora::concurrency::parallel_trie::ParallelTrieOps;
use zipora::concurrency::{ParallelLoudsTrie, ParallelTrieBuilder};
use zipora::fsa::simple_implementations::SimpleDawg;
use zipora::fsa::version_sync::VersionManager;
use zipora::fsa::{
    CompressedSparseTrie, ConcurrencyLevel, CritBitTrie, DawgConfig, DoubleArrayTrie, DoubleArrayTrieBuilder, DoubleArrayTrieConfig, FiniteStateAutomaton,
    StatisticsProvider,
    NestedLoudsTrie, NestedTrieDawg, NestingConfig, PatriciaTrie, Trie, TrieStrategy, ZiporaTrie, ZiporaTrieConfig,
};
use zv::*;

type Key = Vec<u8>;

// ---------------------------------------------------------------- subjects

/// Uniform view of a trie under test.  Every method is a thin call-through; `None` for an
/// operation the type does not offer.
trait Subj {
    fn insert(&mut self, k: &[u8]) -> Result<(), ()>;
    fn has_remove(&self) -> bool {
        false
    }
    fn remove(&mut self, _k: &[u8]) -> Option<Result<bool, ()>> {
        None
    }
    fn contains(&self, k: &[u8]) -> bool;
    fn len(&self) -> usize;
    fn keys(&self) -> Option<Vec<Key>> {
        None
    }
    fn keys_with_prefix(&self, _p: &[u8]) -> Option<Vec<Key>> {
        None
    }
    fn accepts(&self, _k: &[u8]) -> Option<bool> {
        None
    }
    fn lookup(&self, _k: &[u8]) -> Option<bool> {
        None
    }
    fn longest_prefix(&self, _q: &[u8]) -> Option<Option<usize>> {
        None
    }
    /// bulk insertion into the current content (bulk_insert)
    fn insert_all(&mut self, _ks: &[Key]) -> Option<Result<(), ()>> {
        None
    }
    fn has_build(&self) -> bool {
        false
    }
    /// construction from a list of keys, replacing the content (build_from_keys)
    fn build(&mut self, _ks: &[Key]) -> Option<Result<(), ()>> {
        None
    }
    /// the builder takes a chunk size / worker count (ParallelTrieBuilder)
    fn has_chunks(&self) -> bool {
        false
    }
    fn build_with(&mut self, ks: &[Key], _chunk: usize, _workers: usize) -> Option<Result<(), ()>> {
        self.build(ks)
    }
    /// true when a failed build leaves the object itself in an unspecified state (built in place)
    fn build_in_place(&self) -> bool {
        false
    }
    /// union with a second trie built from `ks` (ParallelTrieOps::merge_tries)
    fn merge_with(&mut self, _ks: &[Key]) -> Option<Result<(), ()>> {
        None
    }
    /// clear()
    fn clear(&mut self) -> bool {
        false
    }
    /// a call that must not change the content (shrink_to_fit, refresh_replicas); returns its name
    fn maintenance(&mut self) -> Option<&'static str> {
        None
    }
    /// every other way the type reports its number of keys (stats().num_keys, statistics(), ...)
    fn len_twins(&self) -> Vec<usize> {
        vec![]
    }
    fn is_empty_twins(&self) -> Vec<bool> {
        vec![]
    }
    /// node-id view: (lookup_node_id(k).is_some(), restore_string(id))
    fn node_id(&self, _k: &[u8]) -> Option<(bool, Option<Key>)> {
        None
    }
}

/// ZiporaTrie through its inherent API (`via_trait` = insert through `Trie::insert`)
struct Zt {
    t: ZiporaTrie,
    via_trait: bool,
    /// insert through insert_and_get_node_id, and probe lookup_node_id / restore_string
    node_ids: bool,
}
impl Subj for Zt {
    fn insert(&mut self, k: &[u8]) -> Result<(), ()> {
        if self.node_ids {
            self.t.insert_and_get_node_id(k).map(|_| ()).map_err(|_| ())
        } else if self.via_trait {
            <ZiporaTrie as Trie>::insert(&mut self.t, k).map(|_| ()).map_err(|_| ())
        } else {
            self.t.insert(k).map_err(|_| ())
        }
    }
    fn has_remove(&self) -> bool {
        true
    }
    fn remove(&mut self, k: &[u8]) -> Option<Result<bool, ()>> {
        Some(self.t.remove(k).map_err(|_| ()))
    }
    fn contains(&self, k: &[u8]) -> bool {
        if self.via_trait {
            <ZiporaTrie as Trie>::contains(&self.t, k)
        } else {
            self.t.contains(k)
        }
    }
    fn len(&self) -> usize {
        self.t.len()
    }
    fn keys(&self) -> Option<Vec<Key>> {
        Some(if self.via_trait { self.t.iter_all().collect() } else { self.t.keys() })
    }
    fn keys_with_prefix(&self, p: &[u8]) -> Option<Vec<Key>> {
        Some(if self.via_trait { self.t.iter_prefix(p).collect() } else { self.t.keys_with_prefix(p) })
    }
    fn accepts(&self, k: &[u8]) -> Option<bool> {
        Some(self.t.accepts(k))
    }
    fn lookup(&self, k: &[u8]) -> Option<bool> {
        Some(self.t.lookup(k).is_some())
    }
    fn longest_prefix(&self, q: &[u8]) -> Option<Option<usize>> {
        Some(self.t.longest_prefix(q))
    }
    fn maintenance(&mut self) -> Option<&'static str> {
        self.t.shrink_to_fit();
        Some("shrink_to_fit")
    }
    fn len_twins(&self) -> Vec<usize> {
        vec![self.t.stats().num_keys, <ZiporaTrie as Trie>::len(&self.t)]
    }
    fn is_empty_twins(&self) -> Vec<bool> {
        vec![self.t.is_empty(), <ZiporaTrie as Trie>::is_empty(&self.t)]
    }
    fn node_id(&self, k: &[u8]) -> Option<(bool, Option<Key>)> {
        if !self.node_ids {
            return None;
        }
        Some(match self.t.lookup_node_id(k) {
            Some(id) => (true, self.t.restore_string(id)),
            None => (false, None),
        })
    }
}

/// the legacy wrapper types: insert / contains / lookup / len + automaton view
macro_rules! wrapper_subject {
    ($name:ident, $ty:ty) => {
        struct $name {
            t: $ty,
            via_trait: bool,
        }
        impl Subj for $name {
            fn insert(&mut self, k: &[u8]) -> Result<(), ()> {
                if self.via_trait {
                    <$ty as Trie>::insert(&mut self.t, k).map(|_| ()).map_err(|_| ())
                } else {
                    self.t.insert(k).map_err(|_| ())
                }
            }
            fn contains(&self, k: &[u8]) -> bool {
                if self.via_trait {
                    <$ty as Trie>::contains(&self.t, k)
                } else {
                    self.t.contains(k)
                }
            }
            fn len(&self) -> usize {
                self.t.len()
            }
            fn accepts(&self, k: &[u8]) -> Option<bool> {
                Some(self.t.accepts(k))
            }
            fn lookup(&self, k: &[u8]) -> Option<bool> {
                Some(if self.via_trait { <$ty as Trie>::lookup(&self.t, k).is_some() } else { self.t.lookup(k).is_some() })
            }
            fn longest_prefix(&self, q: &[u8]) -> Option<Option<usize>> {
                Some(self.t.longest_prefix(q))
            }
            fn len_twins(&self) -> Vec<usize> {
                vec![self.t.stats().num_keys, <$ty as Trie>::len(&self.t)]
            }
            fn is_empty_twins(&self) -> Vec<bool> {
                vec![self.t.is_empty(), <$ty as Trie>::is_empty(&self.t)]
            }
        }
    };
}
wrapper_subject!(WDarray, DoubleArrayTrie);
wrapper_subject!(WLouds, NestedLoudsTrie<u8>);
wrapper_subject!(WSparse, CompressedSparseTrie);

/// CompressedSparseTrie through its token API
struct WSparseTok {
    t: CompressedSparseTrie,
    vm: Box<VersionManager>,
}
impl Subj for WSparseTok {
    fn insert(&mut self, k: &[u8]) -> Result<(), ()> {
        let tok = self.vm.acquire_writer_token().map_err(|_| ())?;
        self.t.insert_with_token(k, &tok).map_err(|_| ())
    }
    fn contains(&self, k: &[u8]) -> bool {
        match self.vm.acquire_reader_token() {
            Ok(tok) => self.t.contains_with_token(k, &tok),
            Err(_) => self.t.contains(k),
        }
    }
    fn len(&self) -> usize {
        self.t.len()
    }
    fn accepts(&self, k: &[u8]) -> Option<bool> {
        Some(self.t.accepts(k))
    }
    fn lookup(&self, k: &[u8]) -> Option<bool> {
        match self.vm.acquire_reader_token() {
            Ok(tok) => Some(self.t.lookup_with_token(k, &tok).is_some()),
            Err(_) => Some(self.t.lookup(k).is_some()),
        }
    }
    fn longest_prefix(&self, q: &[u8]) -> Option<Option<usize>> {
        Some(self.t.longest_prefix(q))
    }
}

/// NestedTrieDawg through its Trie / FiniteStateAutomaton implementation
struct Dawg {
    t: NestedTrieDawg,
}
impl Subj for Dawg {
    fn insert(&mut self, k: &[u8]) -> Result<(), ()> {
        Trie::insert(&mut self.t, k).map(|_| ()).map_err(|_| ())
    }
    fn contains(&self, k: &[u8]) -> bool {
        Trie::contains(&self.t, k)
    }
    fn len(&self) -> usize {
        Trie::len(&self.t)
    }
    fn accepts(&self, k: &[u8]) -> Option<bool> {
        Some(self.t.accepts(k))
    }
    fn longest_prefix(&self, q: &[u8]) -> Option<Option<usize>> {
        Some(self.t.longest_prefix(q))
    }
    fn has_build(&self) -> bool {
        true
    }
    fn build(&mut self, ks: &[Key]) -> Option<Result<(), ()>> {
        Some(self.t.build_from_keys(ks.iter()).map_err(|_| ()))
    }
    fn build_in_place(&self) -> bool {
        true
    }
    fn clear(&mut self) -> bool {
        self.t.clear();
        true
    }
    fn len_twins(&self) -> Vec<usize> {
        vec![self.t.statistics().num_keys, StatisticsProvider::stats(&self.t).num_keys]
    }
    fn is_empty_twins(&self) -> Vec<bool> {
        vec![Trie::is_empty(&self.t)]
    }
}

/// builders that return a new object: DoubleArrayTrieBuilder, NestedLoudsTrie::builder()
struct BuiltDarray {
    t: DoubleArrayTrie,
    how: &'static str,
}
impl Subj for BuiltDarray {
    fn insert(&mut self, k: &[u8]) -> Result<(), ()> {
        self.t.insert(k).map_err(|_| ())
    }
    fn contains(&self, k: &[u8]) -> bool {
        self.t.contains(k)
    }
    fn len(&self) -> usize {
        self.t.len()
    }
    fn accepts(&self, k: &[u8]) -> Option<bool> {
        Some(self.t.accepts(k))
    }
    fn lookup(&self, k: &[u8]) -> Option<bool> {
        Some(self.t.lookup(k).is_some())
    }
    fn longest_prefix(&self, q: &[u8]) -> Option<Option<usize>> {
        Some(self.t.longest_prefix(q))
    }
    fn has_build(&self) -> bool {
        true
    }
    fn build(&mut self, ks: &[Key]) -> Option<Result<(), ()>> {
        let mut c = DoubleArrayTrieConfig::default();
        c.initial_capacity = 2;
        let r = match self.how {
            // the caller of build_from_sorted supplies sorted keys: ordering the input is input preparation
            "sorted" => {
                let mut v = ks.to_vec();
                v.sort();
                DoubleArrayTrieBuilder::new().build_from_sorted(v)
            }
            "unsorted" => DoubleArrayTrieBuilder::with_config(c).build_from_unsorted(ks.to_vec()),
            _ => DoubleArrayTrieBuilder::new_compact().build_from_unsorted(ks.to_vec()),
        };
        Some(r.map(|t| self.t = t).map_err(|_| ()))
    }
    fn maintenance(&mut self) -> Option<&'static str> {
        self.t.shrink_to_fit();
        Some("shrink_to_fit")
    }
    fn len_twins(&self) -> Vec<usize> {
        vec![self.t.stats().num_keys]
    }
    fn is_empty_twins(&self) -> Vec<bool> {
        vec![self.t.is_empty()]
    }
}

struct BuiltLouds {
    t: NestedLoudsTrie<u8>,
}
impl Subj for BuiltLouds {
    fn insert(&mut self, k: &[u8]) -> Result<(), ()> {
        self.t.insert(k).map_err(|_| ())
    }
    fn contains(&self, k: &[u8]) -> bool {
        self.t.contains(k)
    }
    fn len(&self) -> usize {
        self.t.len()
    }
    fn accepts(&self, k: &[u8]) -> Option<bool> {
        Some(self.t.accepts(k))
    }
    fn lookup(&self, k: &[u8]) -> Option<bool> {
        Some(self.t.lookup(k).is_some())
    }
    fn longest_prefix(&self, q: &[u8]) -> Option<Option<usize>> {
        Some(self.t.longest_prefix(q))
    }
    fn has_build(&self) -> bool {
        true
    }
    fn build(&mut self, ks: &[Key]) -> Option<Result<(), ()>> {
        Some(NestedLoudsTrie::<u8>::builder().build_from_iter(ks.to_vec()).map(|t| self.t = t).map_err(|_| ()))
    }
    fn len_twins(&self) -> Vec<usize> {
        let p = self.t.performance_stats();
        vec![self.t.stats().num_keys, p.key_count, p.num_keys]
    }
    fn is_empty_twins(&self) -> Vec<bool> {
        vec![self.t.is_empty()]
    }
}

struct SDawg {
    t: SimpleDawg,
}
impl Subj for SDawg {
    fn insert(&mut self, k: &[u8]) -> Result<(), ()> {
        self.t.insert(k).map_err(|_| ())
    }
    fn contains(&self, k: &[u8]) -> bool {
        self.t.contains(k)
    }
    fn len(&self) -> usize {
        self.t.num_keys()
    }
}

/// ParallelLoudsTrie (async API) driven on a current-thread tokio runtime
struct Par {
    t: ParallelLoudsTrie,
    rt: tokio::runtime::Runtime,
    batch: bool,
    /// how `build` constructs the object: "" (not offered), "builder" (ParallelTrieBuilder), "from_trie"
    how: &'static str,
    /// contains() through parallel_process
    process: bool,
}
impl Subj for Par {
    fn insert(&mut self, k: &[u8]) -> Result<(), ()> {
        self.rt.block_on(self.t.insert(k)).map(|_| ()).map_err(|_| ())
    }
    fn contains(&self, k: &[u8]) -> bool {
        if self.process {
            let key = k.to_vec();
            let ops = vec![move |t: &ZiporaTrie| -> zipora::error::Result<bool> { Ok(t.contains(&key)) }];
            self.rt.block_on(self.t.parallel_process(ops)).into_iter().next().and_then(|r| r.ok()).unwrap_or(false)
        } else if self.batch {
            self.rt.block_on(self.t.parallel_contains(vec![k.to_vec()])).first().copied().unwrap_or(false)
        } else {
            self.rt.block_on(self.t.contains(k))
        }
    }
    fn len(&self) -> usize {
        self.rt.block_on(self.t.len())
    }
    fn keys(&self) -> Option<Vec<Key>> {
        self.keys_with_prefix(&[])
    }
    fn keys_with_prefix(&self, p: &[u8]) -> Option<Vec<Key>> {
        self.rt.block_on(self.t.parallel_prefix_search(vec![p.to_vec()])).into_iter().next()
    }
    fn insert_all(&mut self, ks: &[Key]) -> Option<Result<(), ()>> {
        Some(self.rt.block_on(self.t.bulk_insert(ks.to_vec())).map(|_| ()).map_err(|_| ()))
    }
    fn has_build(&self) -> bool {
        !self.how.is_empty()
    }
    fn has_chunks(&self) -> bool {
        self.how == "builder"
    }
    fn build(&mut self, ks: &[Key]) -> Option<Result<(), ()>> {
        self.build_with(ks, 0, 0)
    }
    /// chunk = 0: the builder's default chunk size (10 000); workers = 0: default
    fn build_with(&mut self, ks: &[Key], chunk: usize, workers: usize) -> Option<Result<(), ()>> {
        match self.how {
            "builder" => {
                let mut b = ParallelTrieBuilder::new();
                if chunk > 0 {
                    b = b.chunk_size(chunk);
                }
                if workers > 0 {
                    b = b.max_workers(workers);
                }
                Some(self.rt.block_on(b.build_louds_trie(ks.to_vec())).map(|t| self.t = t).map_err(|_| ()))
            }
            "from_trie" => {
                let mut z = ZiporaTrie::new();
                for k in ks {
                    if z.insert(k).is_err() {
                        return Some(Err(()));
                    }
                }
                self.t = ParallelLoudsTrie::from_trie(z);
                Some(Ok(()))
            }
            _ => None,
        }
    }
    fn merge_with(&mut self, ks: &[Key]) -> Option<Result<(), ()>> {
        let other = ParallelLoudsTrie::new();
        if self.rt.block_on(other.bulk_insert(ks.to_vec())).is_err() {
            return Some(Err(()));
        }
        let mine = std::mem::replace(&mut self.t, ParallelLoudsTrie::new());
        // on Err both inputs are consumed: the subject continues with the fresh empty trie, which the
        // driver treats like a failed in-place build (the run ends)
        Some(self.rt.block_on(ParallelTrieOps::merge_tries(vec![mine, other])).map(|t| self.t = t).map_err(|_| ()))
    }
    fn build_in_place(&self) -> bool {
        true
    }
    fn maintenance(&mut self) -> Option<&'static str> {
        self.rt.block_on(self.t.refresh_replicas()).ok()?;
        Some("refresh_replicas")
    }
    fn is_empty_twins(&self) -> Vec<bool> {
        vec![self.rt.block_on(self.t.is_empty())]
    }
}

/// all subject names `<family>:<variant>`; the family is the storage strategy behind the type
fn subjects() -> Vec<String> {
    [
        "patricia:default",
        "patricia:default_trait_api",
        "patricia:cache_optimized",
        "patricia:alias_patricia_trie",
        "patricia:alias_critbit_trie",
        "patricia:short_paths",
        "darray:strategy",
        "darray:strategy_trait_api",
        "darray:concurrent_high_performance",
        "darray:wrapper_new",
        "darray:wrapper_cfg_cap4",
        "louds:space_optimized",
        "louds:space_optimized_trait_api",
        "louds:wrapper_nested_new",
        "louds:wrapper_nested_cfg",
        "sparse:sparse_optimized",
        "sparse:wrapper_new",
        "sparse:wrapper_tokens",
        "critbit:string_specialized",
        "dawg:nested_new",
        "dawg:nested_rooted",
        "dawg:nested_dense_rooted",
        "sdawg:simple",
        "par:parallel_louds",
        "par:parallel_louds_batch_api",
        "par:parallel_process_api",
        "par:builder",
        "par:from_trie",
        "patricia:node_id_api",
        "louds:node_id_api",
        "darray:node_id_api",
        "darray:builder_sorted",
        "darray:builder_unsorted",
        "darray:builder_compact",
        "louds:builder_iter",
        "sparse:wrapper_memory_pool",
        "dawg:memory_efficient",
        "dawg:performance_optimized",
    ]
    .iter()
    .map(|s| s.to_string())
    .collect()
}

fn fam_of(name: &str) -> String {
    name.split(':').next().unwrap_or("").to_string()
}
fn variant_of(name: &str) -> String {
    name.split(':').nth(1).unwrap_or("").to_string()
}

fn darray_cfg(cap: usize) -> ZiporaTrieConfig {
    let mut c = ZiporaTrieConfig::default();
    c.trie_strategy = TrieStrategy::DoubleArray { initial_capacity: cap, growth_factor: 1.5, free_list_management: true, auto_shrink: false };
    c
}

fn make(name: &str) -> Option<Box<dyn Subj>> {
    let (fam, var) = name.split_once(':')?;
    let pool = || zipora::memory::SecureMemoryPool::new(zipora::memory::SecurePoolConfig::small_secure()).ok();
    let zt = |c: ZiporaTrieConfig, via_trait: bool| -> Box<dyn Subj> { Box::new(Zt { t: ZiporaTrie::with_config(c), via_trait, node_ids: false }) };
    Some(match (fam, var) {
        ("patricia", "default") => Box::new(Zt { t: ZiporaTrie::new(), via_trait: false, node_ids: false }),
        ("patricia", "default_trait_api") => zt(ZiporaTrieConfig::default(), true),
        ("patricia", "cache_optimized") => zt(ZiporaTrieConfig::cache_optimized(), false),
        ("patricia", "alias_patricia_trie") => Box::new(Zt { t: PatriciaTrie::new(), via_trait: false, node_ids: false }),
        ("patricia", "alias_critbit_trie") => Box::new(Zt { t: CritBitTrie::new(), via_trait: false, node_ids: false }),
        ("patricia", "short_paths") => {
            let mut c = ZiporaTrieConfig::default();
            c.trie_strategy = TrieStrategy::Patricia { max_path_length: 2, compression_threshold: 1, adaptive_compression: false };
            zt(c, false)
        }
        ("darray", "strategy") => zt(darray_cfg(256), false),
        ("darray", "strategy_trait_api") => zt(darray_cfg(256), true),
        ("darray", "concurrent_high_performance") => zt(ZiporaTrieConfig::concurrent_high_performance(Arc::clone(&pool()?)), false),
        ("darray", "wrapper_new") => Box::new(WDarray { t: DoubleArrayTrie::new(), via_trait: false }),
        ("darray", "wrapper_cfg_cap4") => {
            let mut c = DoubleArrayTrieConfig::default();
            c.initial_capacity = 4;
            c.auto_shrink = true;
            Box::new(WDarray { t: DoubleArrayTrie::with_config(c), via_trait: true })
        }
        ("louds", "space_optimized") => zt(ZiporaTrieConfig::space_optimized(), false),
        ("louds", "space_optimized_trait_api") => zt(ZiporaTrieConfig::space_optimized(), true),
        ("louds", "wrapper_nested_new") => Box::new(WLouds { t: NestedLoudsTrie::<u8>::new().ok()?, via_trait: false }),
        ("louds", "wrapper_nested_cfg") => {
            let c = NestingConfig::builder().max_levels(2).cache_optimization(false).build().ok()?;
            Box::new(WLouds { t: NestedLoudsTrie::<u8>::with_config(c).ok()?, via_trait: true })
        }
        ("sparse", "sparse_optimized") => zt(ZiporaTrieConfig::sparse_optimized(), false),
        ("sparse", "wrapper_new") => Box::new(WSparse { t: CompressedSparseTrie::new(ConcurrencyLevel::SingleThreadStrict).ok()?, via_trait: true }),
        ("sparse", "wrapper_tokens") => Box::new(WSparseTok {
            t: CompressedSparseTrie::new(ConcurrencyLevel::OneWriteMultiRead).ok()?,
            vm: Box::new(VersionManager::new(ConcurrencyLevel::OneWriteMultiRead)),
        }),
        ("critbit", "string_specialized") => zt(ZiporaTrieConfig::string_specialized(), false),
        ("dawg", "nested_new") => Box::new(Dawg { t: NestedTrieDawg::new().ok()? }),
        ("dawg", "nested_rooted") => {
            let mut t = NestedTrieDawg::new().ok()?;
            t.build_from_keys(Vec::<Key>::new()).ok()?;
            Box::new(Dawg { t })
        }
        ("dawg", "nested_dense_rooted") => {
            let mut c = DawgConfig::default();
            c.compressed_storage = false;
            c.max_states = 4096;
            c.use_rank_select = false;
            c.enable_cache = false;
            let mut t = NestedTrieDawg::with_config(c).ok()?;
            t.build_from_keys(Vec::<Key>::new()).ok()?;
            Box::new(Dawg { t })
        }
        ("sdawg", "simple") => Box::new(SDawg { t: SimpleDawg::new() }),
        ("par", v @ ("parallel_louds" | "parallel_louds_batch_api" | "parallel_process_api" | "builder" | "from_trie")) => Box::new(Par {
            t: ParallelLoudsTrie::new(),
            rt: tokio::runtime::Builder::new_current_thread().enable_all().build().ok()?,
            batch: v == "parallel_louds_batch_api" || v == "builder",
            how: match v {
                "builder" => "builder",
                "from_trie" => "from_trie",
                _ => "",
            },
            process: v == "parallel_process_api",
        }),
        ("patricia", "node_id_api") => Box::new(Zt { t: ZiporaTrie::new(), via_trait: false, node_ids: true }),
        ("louds", "node_id_api") => Box::new(Zt { t: ZiporaTrie::with_config(ZiporaTrieConfig::space_optimized()), via_trait: false, node_ids: true }),
        ("darray", "node_id_api") => Box::new(Zt { t: ZiporaTrie::with_config(darray_cfg(256)), via_trait: false, node_ids: true }),
        ("darray", "builder_sorted") => Box::new(BuiltDarray { t: DoubleArrayTrieBuilder::new().build_from_sorted(vec![]).ok()?, how: "sorted" }),
        ("darray", "builder_unsorted") => Box::new(BuiltDarray { t: DoubleArrayTrieBuilder::new().build_from_unsorted(vec![]).ok()?, how: "unsorted" }),
        ("darray", "builder_compact") => Box::new(BuiltDarray { t: DoubleArrayTrieBuilder::new_compact().build_from_sorted(vec![]).ok()?, how: "compact" }),
        ("louds", "builder_iter") => Box::new(BuiltLouds { t: NestedLoudsTrie::<u8>::builder().build_from_iter(Vec::<Key>::new()).ok()? }),
        ("sparse", "wrapper_memory_pool") => Box::new(WSparse { t: CompressedSparseTrie::with_memory_pool(ConcurrencyLevel::SingleThreadStrict, Arc::clone(&pool()?)).ok()?, via_trait: false }),
        ("dawg", v @ ("memory_efficient" | "performance_optimized")) => {
            let c = if v == "memory_efficient" { DawgConfig::memory_efficient() } else { DawgConfig::performance_optimized() };
            let mut t = NestedTrieDawg::with_config(c).ok()?;
            t.build_from_keys(Vec::<Key>::new()).ok()?;
            Box::new(Dawg { t })
        }
        _ => return None,
    })
}

// ---------------------------------------------------------------- executing operations

fn kj(k: &[u8]) -> Value {
    bytes_json(k)
}
fn listing(v: &[Key]) -> Value {
    Value::Array(v.iter().map(|k| kj(k)).collect())
}

/// what is probed after every mutating step
struct ProbePlan {
    universe: Vec<Key>,
    absent: Vec<Key>,
    prefixes: Vec<Key>,
    queries: Vec<Key>,
}

/// bookkeeping of the harness's own successful calls in the current run (no model: plain counters of
/// what was called).  Logged with every event; used only by the guards of the known-finding deviations.
#[derive(Clone, Copy, Default)]
struct Ctr {
    /// keys passed to successful insert / insert_all calls since the last build (or reset)
    ins_ok: usize,
    /// a build_from_keys call has succeeded in this run
    built: bool,
    /// keys inserted by insert / insert_all since that build
    ins_after_build: usize,
}
impl Ctr {
    fn j(&self) -> Value {
        json!({"ins_ok": self.ins_ok, "built": self.built, "iab": self.ins_after_build})
    }
    fn tag(&self, mut e: Value) -> Value {
        if let Some(o) = e.as_object_mut() {
            o.insert("ctr".into(), self.j());
        }
        e
    }
    /// account for a logged mutating event
    fn note(&mut self, e: &Value, nkeys: usize) {
        if e["ok"] != json!(true) && e["op"] != "clear" {
            return;
        }
        match e["op"].as_str().unwrap_or("") {
            "insert" => {
                self.ins_ok += 1;
                if self.built {
                    self.ins_after_build += 1;
                }
            }
            "insert_all" => {
                self.ins_ok += nkeys;
                if self.built {
                    self.ins_after_build += nkeys;
                }
            }
            "build" => {
                self.ins_ok = nkeys;
                self.built = true;
                self.ins_after_build = 0;
            }
            "clear" => {
                self.ins_ok = 0;
                self.built = false;
                self.ins_after_build = 0;
            }
            _ => {}
        }
    }
}

/// one mutating / single read operation -> event (a panic is data)
fn exec(s: &mut Box<dyn Subj>, op: &str, k: &[u8], ks: &[Key], ctr: &Ctr) -> Option<Value> {
    let r = guard(|| -> Option<Value> {
        Some(match op {
            // "after" = contains(k) right after the call: the semantic trigger of the stub deviations
            "insert" => match s.insert(k) {
                Ok(()) => json!({"op":"insert","k":kj(k),"ok":true,"after":s.contains(k)}),
                Err(()) => json!({"op":"insert","k":kj(k),"ok":false,"after":s.contains(k)}),
            },
            "remove" => match s.remove(k)? {
                Ok(r) => json!({"op":"remove","k":kj(k),"ok":true,"r":r}),
                Err(()) => json!({"op":"remove","k":kj(k),"ok":false,"r":false}),
            },
            "insert_all" => match s.insert_all(ks)? {
                Ok(()) => json!({"op":"insert_all","keys":listing(ks),"ok":true}),
                Err(()) => json!({"op":"insert_all","keys":listing(ks),"ok":false}),
            },
            "build" => match s.build(ks)? {
                Ok(()) => json!({"op":"build","keys":listing(ks),"ok":true}),
                Err(()) => json!({"op":"build","keys":listing(ks),"ok":false}),
            },
            "merge_with" => match s.merge_with(ks)? {
                Ok(()) => json!({"op":"insert_all","keys":listing(ks),"ok":true,"via":"merge_tries"}),
                Err(()) => json!({"op":"insert_all","keys":listing(ks),"ok":false,"via":"merge_tries"}),
            },
            "clear" => {
                if !s.clear() {
                    return None;
                }
                json!({"op":"clear"})
            }
            "maintenance" => json!({"op":"maintenance","what":s.maintenance()?}),
            "contains" => json!({"op":"contains","k":kj(k),"r":s.contains(k)}),
            "len" => json!({"op":"len","r":s.len()}),
            "keys" => json!({"op":"keys","r":listing(&s.keys()?)}),
            "keys_with_prefix" => json!({"op":"keys_with_prefix","p":kj(k),"r":listing(&s.keys_with_prefix(k)?)}),
            "accepts" => json!({"op":"accepts","k":kj(k),"r":s.accepts(k)?}),
            "lookup" => json!({"op":"lookup","k":kj(k),"r":s.lookup(k)?}),
            "longest_prefix" => json!({"op":"longest_prefix","q":kj(k),"r":opt(s.longest_prefix(k)?)}),
            _ => return None,
        })
    });
    match r {
        Ok(x) => x.map(|e| ctr.tag(e)),
        Err(msg) => Some(json!({"op":"panic","in":op,"k":kj(k),"msg":msg.chars().take(120).collect::<String>()})),
    }
}

/// build through a builder with a chunk size / worker count (0 = the builder's default)
fn exec_build(s: &mut Box<dyn Subj>, ks: &[Key], chunk: usize, workers: usize, ctr: &Ctr) -> Option<Value> {
    let r = guard(|| s.build_with(ks, chunk, workers).map(|r| json!({"op":"build","keys":listing(ks),"ok":r.is_ok(),"chunk":chunk,"workers":workers})));
    match r {
        Ok(x) => x.map(|e| ctr.tag(e)),
        Err(msg) => Some(json!({"op":"panic","in":"build","msg":msg.chars().take(120).collect::<String>()})),
    }
}

/// the full observable projection as up to three batch events (probe / probe_keys / probe_fsa)
fn probe(s: &Box<dyn Subj>, p: &ProbePlan, ctr: &Ctr) -> Vec<Value> {
    let mut out = vec![];
    let r = guard(|| {
        let c: Vec<bool> = p.universe.iter().map(|k| s.contains(k)).collect();
        let ab: Vec<Value> = p.absent.iter().map(|k| json!([kj(k), s.contains(k)])).collect();
        json!({"op":"probe","len":s.len(),"len_twins":s.len_twins(),"is_empty":s.is_empty_twins(),"contains":c,"absent":ab,"ctr":ctr.j()})
    });
    match r {
        Ok(e) => out.push(e),
        Err(msg) => {
            out.push(json!({"op":"panic","in":"probe","msg":msg.chars().take(120).collect::<String>()}));
            return out;
        }
    }
    let r = guard(|| {
        let ks = s.keys()?;
        let mut pf = vec![];
        for q in &p.prefixes {
            pf.push(json!([kj(q), listing(&s.keys_with_prefix(q)?)]));
        }
        Some(json!({"op":"probe_keys","keys":listing(&ks),"prefix":pf,"ctr":ctr.j()}))
    });
    match r {
        Ok(Some(e)) => out.push(e),
        Ok(None) => {}
        Err(msg) => {
            out.push(json!({"op":"panic","in":"keys","msg":msg.chars().take(120).collect::<String>()}));
            return out;
        }
    }
    let r = guard(|| {
        let mut a = vec![];
        let mut lk = vec![];
        let has_lookup = s.lookup(&[]).is_some();
        for k in &p.universe {
            let acc = s.accepts(k)?;
            a.push(acc);
            // a type without lookup() repeats accepts(): the field is always present
            lk.push(if has_lookup { s.lookup(k)? } else { acc });
        }
        let mut ab = vec![];
        for k in &p.absent {
            let acc = s.accepts(k)?;
            ab.push(json!([kj(k), acc, if has_lookup { s.lookup(k)? } else { acc }]));
        }
        let mut lp = vec![];
        for q in &p.queries {
            lp.push(json!([kj(q), opt(s.longest_prefix(q)?)]));
        }
        Some(json!({"op":"probe_fsa","accepts":a,"lookup":lk,"has_lookup":has_lookup,"absent":ab,"longest":lp,"ctr":ctr.j()}))
    });
    match r {
        Ok(Some(e)) => out.push(e),
        Ok(None) => {}
        Err(msg) => {
            out.push(json!({"op":"panic","in":"fsa","msg":msg.chars().take(120).collect::<String>()}));
            return out;
        }
    }
    // node-id view: lookup_node_id(k) and restore_string of the id, for universe and absent keys
    let r = guard(|| {
        let mut ids = vec![];
        for k in p.universe.iter().chain(p.absent.iter()) {
            let (found, restored) = s.node_id(k)?;
            ids.push(json!([kj(k), found, opt(restored.map(|x| kj(&x)))]));
        }
        Some(json!({"op":"probe_ids","ids":ids,"ctr":ctr.j()}))
    });
    match r {
        Ok(Some(e)) => out.push(e),
        Ok(None) => {}
        Err(msg) => out.push(json!({"op":"panic","in":"ids","msg":msg.chars().take(120).collect::<String>()})),
    }
    out
}

fn is_panic(e: &Value) -> bool {
    e["op"] == "panic"
}

// ---------------------------------------------------------------- B1: random driver

/// key universe: shared prefixes, 0x00 / 0xFF bytes, the empty key, chains of prefixes, a few keys of
/// 255 / 256 / 300+ bytes (beyond path-compression and one-byte length limits)
fn gen_universe(rng: &mut Rng, n: usize) -> Vec<Key> {
    let mut u: Vec<Key> = vec![vec![], vec![97], vec![97, 98], vec![97, 98, 99], vec![98], vec![98, 98], vec![0], vec![255], vec![0, 0], vec![255, 255], vec![0, 255], vec![255, 0]];
    if n >= 30 {
        let mut long1 = vec![120u8; 300];
        u.push(long1.clone());
        long1[299] = 121;
        u.push(long1.clone());
        long1.truncate(150);
        u.push(long1);
        let mut l2: Key = vec![97, 98];
        l2.extend((0..320).map(|i| (i % 251) as u8));
        u.push(l2);
        u.push(vec![7u8; 255]);
        u.push(vec![7u8; 256]);
    }
    let alphabet = [0u8, 1, 97, 98, 99, 254, 255];
    let mut guard_n = 0;
    while u.len() < n && guard_n < 10_000 {
        guard_n += 1;
        let k: Key = match rng.below(3) {
            // extend an existing key by one or two bytes (chains of prefixes)
            0 => {
                let mut k = rng.pick(&u).clone();
                if k.len() > 280 {
                    continue;
                }
                for _ in 0..rng.range(1, 2) {
                    k.push(*rng.pick(&alphabet));
                }
                k
            }
            // a proper prefix of an existing key
            1 => {
                let k = rng.pick(&u).clone();
                if k.len() < 2 {
                    continue;
                }
                let cut = rng.range(1, (k.len() - 1).min(6) as u64) as usize;
                k[..cut].to_vec()
            }
            // a short random key over a small alphabet
            _ => (0..rng.range(1, 6)).map(|_| *rng.pick(&alphabet)).collect(),
        };
        if !u.contains(&k) {
            u.push(k);
        }
    }
    u.truncate(n.max(1));
    u
}

fn plan_for(rng: &mut Rng, universe: Vec<Key>) -> ProbePlan {
    // probes outside the universe: extensions of members, and a fresh key
    let mut absent: Vec<Key> = vec![];
    let mut tries = 0;
    while absent.len() < 3 && tries < 100 {
        tries += 1;
        let mut k = rng.pick(&universe).clone();
        k.truncate(40);
        k.push(rng.range(2, 96) as u8);
        if !universe.contains(&k) && !absent.contains(&k) {
            absent.push(k);
        }
    }
    let mut prefixes: Vec<Key> = vec![vec![], vec![97], vec![120; 10]];
    let mut queries: Vec<Key> = vec![vec![], vec![97, 98, 99, 100, 101]];
    for _ in 0..3 {
        let k = rng.pick(&universe).clone();
        let cut = if k.is_empty() { 0 } else { rng.below(k.len().min(8) as u64 + 1) as usize };
        prefixes.push(k[..cut].to_vec());
        let mut q = k.clone();
        q.truncate(310);
        q.push(rng.below(256) as u8);
        queries.push(q);
        queries.push(rng.pick(&universe).clone());
    }
    ProbePlan { universe, absent, prefixes, queries }
}

fn reset_cfg(name: &str, p: &ProbePlan, extra: Value) -> Value {
    let mut v = json!({"fam": fam_of(name), "variant": variant_of(name), "universe": listing(&p.universe)});
    if let (Some(o), Some(x)) = (v.as_object_mut(), extra.as_object()) {
        for (k, val) in x {
            o.insert(k.clone(), val.clone());
        }
    }
    v
}

fn drive(a: &Args) {
    let subs: Vec<String> = subjects().into_iter().filter(|s| a.wants(s)).collect();
    let next = std::sync::atomic::AtomicUsize::new(0);
    let results = std::sync::Mutex::new(Vec::<(usize, String, Value, usize, usize, Vec<String>)>::new());
    let nthreads = a.get_u64("threads", 8) as usize;
    std::thread::scope(|sc| {
        for _ in 0..nthreads {
            sc.spawn(|| loop {
                let i = next.fetch_add(1, std::sync::atomic::Ordering::SeqCst);
                if i >= subs.len() {
                    break;
                }
                let r = drive_subject(a, &subs[i], i);
                results.lock().unwrap().push((i, subs[i].clone(), r.0, r.1, r.2, r.3));
            });
        }
    });
    let mut res = results.into_inner().unwrap();
    res.sort_by_key(|r| r.0);
    let mut per_subject = serde_json::Map::new();
    let (mut events, mut runs) = (0usize, 0usize);
    let mut files = vec![];
    for (_, name, v, ev, ru, f) in res {
        per_subject.insert(name, v);
        events += ev;
        runs += ru;
        files.extend(f);
    }
    write_summary(&a.out, &json!({"mode":"drive","events":events,"runs":runs,"files":files,"subjects":per_subject}));
}

/// Deterministic sweep over the bulk builders: key lists of 0..13 keys (sorted / unsorted with
/// duplicates) and, for builders that split the input into chunks, every chunk size on both sides of
/// the key count (1, 2, 3, n-1, n, n+1) with 1 / 2 / 4 workers; each build is followed by a full probe,
/// then a few inserts, a maintenance call and a merge.  For the chunked builder one run uses the
/// builder's default chunk size (10 000) with 10 000 and 10 001 keys (thorough tier only).
/// Returns (events, refusals, probes with members).
fn builder_sweep(a: &Args, name: &str, tr: &mut Tracer) -> (usize, usize, usize) {
    let rng0 = Rng::new(a.seed);
    let (mut nev, mut refused, mut members) = (0usize, 0usize, 0usize);
    let mut log = |tr: &mut Tracer, e: Value, nev: &mut usize, refused: &mut usize, members: &mut usize| -> bool {
        let p = is_panic(&e);
        if e["ok"] == json!(false) {
            *refused += 1;
        }
        if e["op"] == "probe" && e["contains"].as_array().map_or(false, |c| c.iter().any(|x| x == &json!(true))) {
            *members += 1;
        }
        tr.ev(e);
        *nev += 1;
        p
    };
    let sizes: &[usize] = if a.thorough() { &[0, 1, 2, 3, 4, 5, 7, 8, 9, 13, 21] } else { &[0, 1, 2, 3, 5, 8, 13] };
    for (li, &n) in sizes.iter().enumerate() {
        let mut urng = rng0.derive(&format!("sweep-universe/{li}"));
        let universe = gen_universe(&mut urng, (n + 6).max(12));
        let plan = plan_for(&mut urng, universe);
        let mut rng = rng0.derive(&format!("{name}/sweep/{li}"));
        let mut pool = plan.universe.clone();
        rng.shuffle(&mut pool);
        let mut keys: Vec<Key> = pool[..n.min(pool.len())].to_vec();
        if li % 2 == 0 {
            keys.sort(); // the documented input of the builders is sorted; the odd lists are not, and repeat a key
        } else if n >= 2 {
            keys.push(keys[0].clone());
        }
        let mut s = match guard(|| make(name)) {
            Ok(Some(s)) => s,
            _ => return (nev, refused, members),
        };
        let nk = keys.len();
        let mut chunks: Vec<usize> = if s.has_chunks() { vec![1, 2, 3, nk.saturating_sub(1), nk, nk + 1] } else { vec![0] };
        chunks.retain(|&c| c > 0 || !s.has_chunks());
        chunks.sort();
        chunks.dedup();
        tr.reset("byteset", name, reset_cfg(name, &plan, json!({"regime": "sweep", "list": li, "seed": a.seed, "b2": false})));
        let mut ctr = Ctr::default();
        let mut dead = false;
        for (ci, &chunk) in chunks.iter().enumerate() {
            let workers = if s.has_chunks() { [1usize, 2, 4][(ci + li) % 3] } else { 0 };
            let e = match exec_build(&mut s, &keys, chunk, workers, &ctr) {
                Some(e) => e,
                None => break,
            };
            let failed = e["ok"] == json!(false);
            ctr.note(&e, keys.len());
            dead |= log(tr, e, &mut nev, &mut refused, &mut members);
            if dead || (failed && s.build_in_place()) {
                dead = true;
                break;
            }
            for e in probe(&s, &plan, &ctr) {
                dead |= log(tr, e, &mut nev, &mut refused, &mut members);
            }
            if dead {
                break;
            }
        }
        // the built object keeps working as a trie
        let follow: [(&str, usize); 6] = [("insert", 0), ("maintenance", 0), ("insert", 1), ("merge_with", 2), ("insert", 3), ("clear", 0)];
        for (op, j) in follow {
            if dead {
                break;
            }
            let k = plan.universe[(j * 5 + li) % plan.universe.len()].clone();
            let batch: Vec<Key> = if op == "merge_with" { plan.universe.iter().skip(li % 3).step_by(4).cloned().collect() } else { vec![] };
            let e = match exec(&mut s, op, &k, &batch, &ctr) {
                Some(e) => e,
                None => continue,
            };
            let broken = op == "merge_with" && e["ok"] == json!(false);
            ctr.note(&e, batch.len());
            dead |= log(tr, e, &mut nev, &mut refused, &mut members);
            if dead || broken {
                dead = true;
                break;
            }
            for e in probe(&s, &plan, &ctr) {
                dead |= log(tr, e, &mut nev, &mut refused, &mut members);
            }
        }
        if dead {
            std::mem::forget(s);
        }
    }
    // the default chunk size: 10 000 keys are one chunk, 10 001 need the merge of two partial tries
    if guard(|| make(name)).ok().flatten().map_or(false, |s| s.has_chunks()) {
        // (thorough only: ZiporaTrie::insert recomputes its statistics over all nodes on every call, so the 16
        // replicas of a 10 000-key trie take minutes to clone)
        let big: &[usize] = if a.thorough() { &[10_000, 10_001] } else { &[] };
        for &n in big {
            // n distinct 3-byte keys in sorted order
            let keys: Vec<Key> = (0..n).map(|i| vec![(i / 1600) as u8 + 33, ((i / 40) % 40) as u8 + 60, (i % 40) as u8 * 5]).collect();
            // probes: keys around the chunk boundaries, the ends, and a few non-members
            let mut universe: Vec<Key> = [0usize, 1, 4999, 9998, 9999, 10_000, 10_001 % n, n / 2, n - 2, n - 1].iter().filter(|&&i| i < n).map(|&i| keys[i].clone()).collect();
            universe.dedup();
            universe.extend([vec![], vec![33], vec![33, 60], vec![33, 60, 1], vec![200, 1, 1]]);
            let plan = ProbePlan { universe, absent: vec![vec![33, 60, 0, 0], vec![32]], prefixes: vec![vec![33, 60], vec![39], vec![255]], queries: vec![vec![33, 60, 5, 9], vec![39, 99, 195, 1], vec![33]] };
            let mut s = match guard(|| make(name)) {
                Ok(Some(s)) => s,
                _ => break,
            };
            tr.reset("byteset", name, reset_cfg(name, &plan, json!({"regime": "sweep-default-chunk", "n": n, "seed": a.seed, "b2": false})));
            let ctr0 = Ctr::default();
            let mut ctr = ctr0;
            if let Some(e) = exec_build(&mut s, &keys, 0, 0, &ctr) {
                let ok = e["ok"] == json!(true);
                ctr.note(&e, keys.len());
                let dead = log(tr, e, &mut nev, &mut refused, &mut members);
                if ok && !dead {
                    for e in probe(&s, &plan, &ctr) {
                        log(tr, e, &mut nev, &mut refused, &mut members);
                    }
                }
            }
        }
    }
    (nev, refused, members)
}

/// one subject = one tracer (own files): a rejection re-validates only that subject in KF mode
fn drive_subject(a: &Args, name: &str, idx: usize) -> (Value, usize, usize, Vec<String>) {
    let mut tr = Tracer::new(&a.out, &format!("bset-{idx:03}"));
    tr.max_events = if a.thorough() { 2500 } else { 100_000 };
    let rng0 = Rng::new(a.seed);
    // (universe size, steps, runs): the small universe forces re-insertion after removal and dense
    // prefix chains; the 40-key universe carries the long keys
    let regimes: Vec<(usize, usize, usize)> = if a.thorough() { vec![(8, 80, 16), (40, 250, 8), (40, 600, 2)] } else { vec![(8, 40, 3), (40, 80, 2)] };
    {
        let (mut nev, mut panics, mut refused, mut ins_total, mut rem_true, mut members_seen) = (0usize, 0usize, 0usize, 0usize, 0usize, 0usize);
        let mut constructed = true;
        if guard(|| make(name)).ok().flatten().map_or(false, |s| s.has_build()) {
            let (e, r, m) = builder_sweep(a, name, &mut tr);
            nev += e;
            refused += r;
            members_seen += m;
        }
        for (ri, &(uni, steps, runs)) in regimes.iter().enumerate() {
            // the DAWG is cheap to run and its build / insert interplay needs many small histories
            let runs = if ri == 0 && fam_of(name) == "dawg" { runs * 4 } else { runs };
            for run in 0..runs {
                let mut rng = rng0.derive(&format!("{name}/{ri}/{run}"));
                let mut s = match guard(|| make(name)) {
                    Ok(Some(s)) => s,
                    _ => {
                        constructed = false;
                        continue;
                    }
                };
                let mut urng = rng0.derive(&format!("universe/{ri}/{run}"));
                let universe = gen_universe(&mut urng, uni);
                let plan = plan_for(&mut urng, universe);
                tr.reset("byteset", name, reset_cfg(name, &plan, json!({"regime": ri, "seed": a.seed, "b2": false})));
                let mut ctr = Ctr::default();
                let mut dead = false;
                let has_remove = s.has_remove();
                // a freshly constructed object is probed too
                for e in probe(&s, &plan, &ctr) {
                    dead |= is_panic(&e);
                    tr.ev(e);
                    nev += 1;
                }
                for step in 0..steps {
                    if dead {
                        break;
                    }
                    let k = rng.pick(&plan.universe).clone();
                    let c = rng.below(100);
                    let op = match c {
                        // the DAWG is meant to be built from a key list: do that often
                        0..=24 if s.has_build() && step % 2 == 0 => "build",
                        0..=45 => "insert",
                        46..=48 => "maintenance",
                        49 => "clear",
                        50..=79 => {
                            if has_remove {
                                "remove"
                            } else {
                                "insert"
                            }
                        }
                        80..=82 => "contains",
                        83..=84 => "len",
                        85..=86 => "keys",
                        87..=89 => "keys_with_prefix",
                        90..=91 => "accepts",
                        92..=93 => "lookup",
                        94..=96 => "longest_prefix",
                        97 => {
                            if step % 2 == 0 {
                                "insert_all"
                            } else {
                                "merge_with"
                            }
                        }
                        _ => {
                            if step < 3 {
                                "build"
                            } else {
                                "insert"
                            }
                        }
                    };
                    let batch: Vec<Key> = if op == "insert_all" || op == "build" || op == "merge_with" { (0..rng.range(0, if op == "build" { 12 } else { 5 })).map(|_| rng.pick(&plan.universe).clone()).collect() } else { vec![] };
                    let e = match exec(&mut s, op, &k, &batch, &ctr) {
                        Some(e) => e,
                        None => continue,
                    };
                    let mutating = matches!(op, "insert" | "remove" | "insert_all" | "build" | "merge_with" | "clear" | "maintenance");
                    // a failed build / merge that works in place leaves the object unspecified: the run ends
                    let broken = matches!(op, "build" | "merge_with") && e["ok"] == json!(false) && s.build_in_place();
                    if is_panic(&e) {
                        panics += 1;
                        dead = true;
                    }
                    if e["ok"] == json!(false) {
                        refused += 1;
                    }
                    if e["op"] == "insert" && e["ok"] == json!(true) {
                        ins_total += 1;
                    }
                    ctr.note(&e, batch.len());
                    if e["op"] == "remove" && e["r"] == json!(true) {
                        rem_true += 1;
                    }
                    tr.ev(e);
                    nev += 1;
                    if broken {
                        break;
                    }
                    if mutating && !dead {
                        for e in probe(&s, &plan, &ctr) {
                            if is_panic(&e) {
                                panics += 1;
                                dead = true;
                            }
                            // vacuity: probes in which the subject reported at least one member
                            if e["op"] == "probe" && e["contains"].as_array().map_or(false, |c| c.iter().any(|x| x == &json!(true))) {
                                members_seen += 1;
                            }
                            tr.ev(e);
                            nev += 1;
                        }
                    }
                }
                if dead {
                    std::mem::forget(s); // the object may be inconsistent after a panic
                }
            }
        }
        tr.close();
        let v = json!({"constructed": constructed, "events": nev, "panics": panics, "refused": refused, "inserts_ok": ins_total, "removes_true": rem_true, "probes_with_members": members_seen});
        let files = tr.files.iter().map(|p| p.display().to_string()).collect();
        (v, tr.total_events, tr.runs, files)
    }
}

// ---------------------------------------------------------------- B2: TLC behaviours

/// expected observable projection of one abstract state, as computed by TLC (TABLE row)
struct Row {
    len: u64,
    keys: Vec<Key>,
    absent: Vec<bool>,
    pf: Vec<Vec<Key>>,
    lp: Vec<Value>,
}

fn to_key(v: &Value) -> Key {
    v.as_array().map(|a| a.iter().map(|x| x.as_u64().unwrap_or(0) as u8).collect()).unwrap_or_default()
}
fn to_keys_sorted(v: &Value) -> Vec<Key> {
    let mut r: Vec<Key> = v.as_array().map(|a| a.iter().map(to_key).collect()).unwrap_or_default();
    r.sort();
    r
}
fn sorted(mut v: Vec<Key>) -> Vec<Key> {
    v.sort();
    v
}
fn st_id(v: &Value) -> Vec<u64> {
    let mut r: Vec<u64> = v.as_array().map(|a| a.iter().map(|x| x.as_u64().unwrap_or(0)).collect()).unwrap_or_default();
    r.sort();
    r
}

struct Table {
    plan: ProbePlan,
    rows: HashMap<Vec<u64>, Row>,
}

fn load_table(p: &std::path::Path) -> Table {
    let mut plan = None;
    let mut rows = HashMap::new();
    for v in read_ndjson(p) {
        if let Some(h) = v.get("header") {
            let l = |f: &str| -> Vec<Key> { h[f].as_array().map(|a| a.iter().map(to_key).collect()).unwrap_or_default() };
            plan = Some(ProbePlan { universe: l("universe"), absent: l("absent"), prefixes: l("prefixes"), queries: l("queries") });
        } else if let Some(r) = v.get("row") {
            rows.insert(
                st_id(&r["st"]),
                Row {
                    len: r["len"].as_u64().unwrap_or(u64::MAX),
                    keys: to_keys_sorted(&r["keys"]),
                    absent: r["absent"].as_array().map(|a| a.iter().map(|x| x.as_bool().unwrap_or(false)).collect()).unwrap_or_default(),
                    pf: r["pf"].as_array().map(|a| a.iter().map(to_keys_sorted).collect()).unwrap_or_default(),
                    lp: r["lp"].as_array().cloned().unwrap_or_default(),
                },
            );
        }
    }
    Table { plan: plan.expect("TABLE header"), rows }
}

/// the components of the probe events that differ from the TLC-computed row (empty = all equal)
fn compare(evs: &[Value], st: &[u64], row: &Row) -> Vec<&'static str> {
    let mut d: Vec<&'static str> = vec![];
    let member = |i: usize| st.contains(&(i as u64 + 1));
    for e in evs {
        match e["op"].as_str().unwrap_or("") {
            "probe" => {
                if e["len"].as_u64() != Some(row.len) {
                    d.push("len");
                }
                if e["contains"].as_array().unwrap().iter().enumerate().any(|(i, x)| x.as_bool().unwrap() != member(i)) {
                    d.push("contains");
                }
                if e["absent"].as_array().unwrap().iter().enumerate().any(|(i, x)| x[1].as_bool().unwrap() != row.absent[i]) {
                    d.push("contains_absent");
                }
            }
            "probe_keys" => {
                if to_keys_sorted(&e["keys"]) != row.keys {
                    d.push("keys");
                }
                if e["prefix"].as_array().unwrap().iter().enumerate().any(|(i, x)| to_keys_sorted(&x[1]) != row.pf[i]) {
                    d.push("keys_with_prefix");
                }
            }
            "probe_fsa" => {
                if e["accepts"].as_array().unwrap().iter().enumerate().any(|(i, x)| x.as_bool().unwrap() != member(i)) {
                    d.push("accepts");
                }
                if e["lookup"].as_array().unwrap().iter().enumerate().any(|(i, x)| x.as_bool().unwrap() != member(i)) {
                    d.push("lookup");
                }
                if e["absent"].as_array().unwrap().iter().enumerate().any(|(i, x)| x[1].as_bool().unwrap() != row.absent[i] || x[2].as_bool().unwrap() != row.absent[i]) {
                    d.push("accepts_absent");
                }
                if e["longest"].as_array().unwrap().iter().enumerate().any(|(i, x)| x[1] != row.lp[i]) {
                    d.push("longest_prefix");
                }
            }
            "probe_ids" => {
                // universe keys first, then the absent probes; restored = the key itself or None
                let nu = e["ids"].as_array().map_or(0, |a| a.len().saturating_sub(row.absent.len()));
                for (i, x) in e["ids"].as_array().unwrap().iter().enumerate() {
                    let exp = if i < nu { member(i) } else { row.absent[i - nu] };
                    if x[1].as_bool().unwrap() != exp {
                        d.push("node_id");
                        break;
                    }
                    let restored = x[2].as_array().unwrap();
                    if !restored.is_empty() && (!exp || restored[0] != x[0]) {
                        d.push("restore_string");
                        break;
                    }
                }
            }
            _ => d.push("panic"),
        }
    }
    d
}

fn replay(a: &Args) {
    let input = a.input.clone().expect("--in");
    let table = load_table(std::path::Path::new(a.get("table").expect("--table")));
    let text = std::fs::read_to_string(&input).expect("read behaviours");
    let behaviours: Vec<Value> = text.lines().filter(|l| !l.trim().is_empty()).map(|l| serde_json::from_str(l).expect("behaviour json")).collect();
    let subs: Vec<String> = subjects().into_iter().filter(|s| a.wants(s)).collect();
    let next = std::sync::atomic::AtomicUsize::new(0);
    let results = std::sync::Mutex::new(Vec::<(String, Value, usize, usize, usize, Vec<String>)>::new());
    let nthreads = a.get_u64("threads", 12) as usize;
    std::thread::scope(|sc| {
        for _ in 0..nthreads {
            sc.spawn(|| loop {
                let i = next.fetch_add(1, std::sync::atomic::Ordering::SeqCst);
                if i >= subs.len() {
                    break;
                }
                let r = replay_subject(a, &subs[i], i, &behaviours, &table);
                results.lock().unwrap().push(r);
            });
        }
    });
    let mut per_subject = serde_json::Map::new();
    let (mut total_exec, mut events, mut runs) = (0usize, 0usize, 0usize);
    let mut files = vec![];
    for (name, v, ex, ev, ru, f) in results.into_inner().unwrap() {
        per_subject.insert(name, v);
        total_exec += ex;
        events += ev;
        runs += ru;
        files.extend(f);
    }
    write_summary(&a.out, &json!({"mode":"replay","behaviours":behaviours.len(),"executions":total_exec,"events":events,"runs":runs,"files":files,"subjects":per_subject}));
}

fn replay_subject(a: &Args, name: &str, idx: usize, behaviours: &[Value], table: &Table) -> (String, Value, usize, usize, usize, Vec<String>) {
    let mut tr = Tracer::new(&a.out, &format!("bsetb2-{idx:03}"));
    tr.max_events = 1500;
    let mut rng = Rng::new(a.seed).derive("b2sample").derive(name);
    let sample_every = a.get_u64("sample", 400);
    // mismatching behaviours are written per *signature* (the set of (operation, differing component)
    // pairs of the whole behaviour), so that a flood of one recorded deviation cannot crowd out a
    // behaviour that differs in any other way
    let per_signature = a.get_u64("per_signature", 4) as usize;
    let mut written_by_sig: HashMap<String, usize> = HashMap::new();
    let plan = &table.plan;
    let (mut mism, mut written, mut unsupported, mut executed, mut refusals) = (0usize, 0usize, 0usize, 0usize, 0usize);
    let offers_remove = match guard(|| make(name)) {
        Ok(Some(s)) => s.has_remove(),
        _ => false,
    };
    // --only <index>: execute and write just that behaviour (replay of a stored rejection)
    let only = a.get("only").and_then(|x| x.parse::<usize>().ok());
    let gen = a.get_u64("gen", 0);
    for (bi, b) in behaviours.iter().enumerate() {
        if only.map_or(false, |o| o != bi) {
            continue;
        }
        let steps = match b.as_array() {
            Some(x) => x,
            None => continue,
        };
        if !offers_remove && steps.iter().any(|st| st["op"] == "remove") {
            unsupported += 1; // operation not offered by this subject
            continue;
        }
        let mut s = match guard(|| make(name)) {
            Ok(Some(s)) => s,
            _ => break,
        };
        let mut evs: Vec<Value> = vec![];
        let mut sigset: std::collections::BTreeSet<String> = Default::default();
        let mut dead = false;
        let mut ctr = Ctr::default();
        for st in steps {
            let op = st["op"].as_str().unwrap_or("");
            let ki = st["k"].as_u64().unwrap_or(1) as usize - 1;
            let e = match exec(&mut s, op, &plan.universe[ki], &[], &ctr) {
                Some(e) => e,
                None => break,
            };
            if is_panic(&e) {
                dead = true;
                sigset.insert(format!("{op}/panic"));
                evs.push(e);
                break;
            }
            // expected result computed by TLC (equality only): insert -> Ok, remove -> Ok(r)
            let exp_r = st["r"].as_bool().unwrap_or(false);
            let got_ok = e["ok"].as_bool().unwrap_or(false);
            if !got_ok {
                refusals += 1;
            }
            if !got_ok || (op == "remove" && e["r"].as_bool() != Some(exp_r)) {
                sigset.insert(format!("{op}/result"));
            }
            ctr.note(&e, 0);
            evs.push(e);
            // expected observable projection of the state after the step, computed by TLC
            let id = st_id(&st["st"]);
            let row = table.rows.get(&id).expect("TABLE row for state");
            let pe = probe(&s, plan, &ctr);
            for d in compare(&pe, &id, row) {
                sigset.insert(format!("{op}/{d}"));
            }
            let p = pe.iter().any(is_panic);
            evs.extend(pe);
            if p {
                dead = true;
                break;
            }
        }
        if dead {
            std::mem::forget(s);
        }
        executed += 1;
        let sig = sigset.iter().cloned().collect::<Vec<_>>().join(" ");
        let differs = !sig.is_empty();
        let sampled = only.is_some() || rng.below(sample_every) == 0;
        let mut write = sampled;
        if differs {
            mism += 1;
            let c = written_by_sig.entry(sig.clone()).or_insert(0);
            if *c < per_signature {
                *c += 1;
                written += 1;
                write = true;
            }
        }
        if write {
            tr.reset("byteset", name, reset_cfg(name, plan, json!({"behaviour": bi, "gen": gen, "b2": true, "differs": differs, "signature": sig})));
            for e in evs {
                tr.ev(e);
            }
        }
    }
    tr.close();
    let sigs: serde_json::Map<String, Value> = written_by_sig.iter().map(|(k, v)| (k.clone(), json!(v))).collect();
    let v = json!({"behaviours": executed, "unsupported": unsupported, "mismatching": mism, "mismatch_traces_written": written, "signatures": sigs, "refusals": refusals});
    let files = tr.files.iter().map(|p| p.display().to_string()).collect();
    (name.to_string(), v, executed, tr.total_events, tr.runs, files)
}

// ---------------------------------------------------------------- replay of a stored rejection

/// re-execute the operations stored in a replay file (written by the orchestration for a rejected
/// run): same subject, same universe, the logged calls in the logged order, full probe after every
/// mutating call; the new trace is judged by TLC again.
fn rerun(a: &Args) {
    let rep: Value = serde_json::from_str(&std::fs::read_to_string(a.input.clone().expect("--in")).expect("read replay")).expect("replay json");
    let name = rep["subject"].as_str().unwrap_or("").to_string();
    let evs = rep["events"].as_array().cloned().unwrap_or_default();
    let lk = |v: &Value| -> Vec<Key> { v.as_array().map(|x| x.iter().map(to_key).collect()).unwrap_or_default() };
    let first = |op: &str| evs.iter().find(|e| e["op"] == op);
    let col0 = |v: &Value| -> Vec<Key> { v.as_array().map(|x| x.iter().map(|p| to_key(&p[0])).collect()).unwrap_or_default() };
    let plan = ProbePlan {
        universe: lk(&rep["reset"]["universe"]),
        absent: first("probe").map(|e| col0(&e["absent"])).unwrap_or_default(),
        prefixes: first("probe_keys").map(|e| col0(&e["prefix"])).unwrap_or_else(|| vec![vec![]]),
        queries: first("probe_fsa").map(|e| col0(&e["longest"])).unwrap_or_else(|| vec![vec![]]),
    };
    let mut tr = Tracer::new(&a.out, "bset-rerun");
    let mut s = match guard(|| make(&name)) {
        Ok(Some(s)) => s,
        _ => {
            eprintln!("c05: unknown subject {name}");
            std::process::exit(2)
        }
    };
    tr.reset("byteset", &name, reset_cfg(&name, &plan, json!({"rerun": true})));
    let mut ctr = Ctr::default();
    let mut dead = false;
    for e in probe(&s, &plan, &ctr) {
        dead |= is_panic(&e);
        tr.ev(e);
    }
    for old in &evs {
        if dead {
            break;
        }
        let op = match old["op"].as_str().unwrap_or("") {
            "reset" | "probe" | "probe_keys" | "probe_fsa" => continue,
            "panic" => old["in"].as_str().unwrap_or(""),
            x => x,
        };
        let k = to_key(if old.get("k").is_some() { &old["k"] } else if old.get("p").is_some() { &old["p"] } else { &old["q"] });
        let ks = lk(&old["keys"]);
        let e = match exec(&mut s, op, &k, &ks, &ctr) {
            Some(e) => e,
            None => continue,
        };
        dead |= is_panic(&e);
        ctr.note(&e, ks.len());
        tr.ev(e);
        if matches!(op, "insert" | "remove" | "insert_all" | "build") && !dead {
            for e in probe(&s, &plan, &ctr) {
                dead |= is_panic(&e);
                tr.ev(e);
            }
        }
    }
    if dead {
        std::mem::forget(s);
    }
    tr.close();
    write_summary(&a.out, &json!({"mode":"rerun","events":tr.total_events,"runs":tr.runs,"files":tr.files.iter().map(|p|p.display().to_string()).collect::<Vec<_>>()}));
}

fn main() {
    let a = Args::parse();
    quiet_panics();
    match a.mode.as_str() {
        "drive" => drive(&a),
        "replay" => replay(&a),
        "rerun" => rerun(&a),
        "subjects" => {
            for s in subjects() {
                println!("{s}");
            }
        }
        m => {
            eprintln!("c05: unknown mode {m}");
            std::process::exit(2)
        }
    }
}
