//! C14 — accelerated code paths compute the same function as the scalar definition.
//!
//! Runs the real SIMD / BMI2 / POPCNT / CRC32 kernels of zipora on generated inputs and logs
//! every answer as an NDJSON event; TLC recomputes the DEFINITION (spec/Kernels.tla) for the
//! logged inputs and judges (Trace_Kernels.tla).  The harness contains no reference
//! implementation of any kernel: it generates inputs, places them in memory (alignment,
//! page-straddling, PROT_NONE guard pages), calls, and projects the answers.
//!
//! Placement: every input buffer lives in an arena whose data pages lie between two
//! PROT_NONE guard pages.  `g` = the buffer ENDS exactly at the rear guard page (an over-read
//! or over-write of one byte is a SIGSEGV), `f` = it STARTS at the front guard page,
//! a number k = it starts k bytes after a 64-byte boundary in the middle of the arena, with
//! canary bytes on both sides.  One event reports the answer together with the list of
//! placements at which this very answer was obtained; different answers at different
//! placements give different events (each judged by TLC).
//!
//! modes:
//!   drive   parent: runs every group of subjects in a child process (zv::run_child); a child
//!           killed by a signal is re-run with the crashing (subject, op) recorded: the re-run
//!           logs a `signal` event for it and continues without guard placements for that op.
//!   child   --group <g>: the actual work.
use serde_json::{json, Map, Value};
use std::path::Path;
use zv::*;

include!("c14_parts/infra.rs");
include!("c14_parts/mem.rs");
include!("c14_parts/search.rs");
include!("c14_parts/text.rs");
include!("c14_parts/bits.rs");
include!("c14_parts/fastsearch.rs");
include!("c14_parts/more.rs");

const GROUPS: &[&str] = &["copy", "compare", "findbyte", "findsub", "findany", "utf8", "crc", "codec", "bits", "hash", "fastsearch", "bmi2text", "unicode"];

fn run_group(cx: &mut Cx, g: &str) {
    match g {
        "copy" => {
            fam_copy(cx);
            mem_extras(cx);
        }
        "compare" => fam_compare(cx),
        "findbyte" => fam_findbyte(cx),
        "findsub" => fam_findsub(cx),
        "findany" => fam_findany(cx),
        "utf8" => fam_utf8(cx),
        "crc" => fam_crc(cx),
        "codec" => {
            fam_codec(cx);
            hex_extras(cx);
        }
        "bits" => {
            fam_bits(cx);
            bit_extras(cx);
        }
        "hash" => fam_hash(cx),
        "fastsearch" => fam_fastsearch(cx),
        "bmi2text" => fam_bmi2text(cx),
        "unicode" => {
            fam_unicode(cx);
            accessor_twins(cx);
        }
        _ => {
            eprintln!("c14: unknown group {g}");
            std::process::exit(2)
        }
    }
}

fn child(args: &Args) {
    let g = args.get("group").unwrap_or("copy").to_string();
    quiet_panics();
    let mut cx = Cx::new(args, &g);
    run_group(&mut cx, &g);
    cx.finish(&g);
}

fn drive(args: &Args) {
    std::fs::create_dir_all(&args.out).expect("out dir");
    let mut merged = json!({"events":0,"runs":0,"calls":0,"answers":0,"cases":0,"signals":0,"panics":0,"refused":0,
                            "subjects":{}, "groups":{}, "reruns":0});
    for g in GROUPS {
        if let Some(only) = args.get("group") {
            if only != *g {
                continue;
            }
        }
        let skip_path = args.out.join(format!("skip-{g}.json"));
        let mut skips: Vec<Value> = vec![];
        let mut attempts = 0;
        loop {
            attempts += 1;
            std::fs::write(&skip_path, serde_json::to_vec(&skips).unwrap()).expect("write skips");
            // stale traces of a crashed attempt must not survive
            if let Ok(rd) = std::fs::read_dir(&args.out) {
                for e in rd.flatten() {
                    let n = e.file_name().to_string_lossy().to_string();
                    if n.starts_with(&format!("{g}-")) && n.ends_with(".ndjson") {
                        let _ = std::fs::remove_file(e.path());
                    }
                }
            }
            let pend_path = args.out.join(format!("pending-{g}.bin"));
            let _ = std::fs::remove_file(&pend_path);
            let mut a: Vec<String> = vec![
                "--mode".into(), "child".into(), "--group".into(), g.to_string(),
                "--seed".into(), args.seed.to_string(), "--tier".into(), args.tier.clone(),
                "--out".into(), args.out.to_string_lossy().to_string(),
            ];
            if let Some(s) = &args.subject {
                a.push("--subject".into());
                a.push(s.clone());
            }
            let outcome = run_child(&a, if args.thorough() { 1500 } else { 400 }, 0, false);
            match outcome {
                ChildOutcome::Exit(0) => break,
                ChildOutcome::Timeout => {
                    eprintln!("c14: group {g} timed out");
                    std::process::exit(2)
                }
                other => {
                    let sig = match other {
                        ChildOutcome::Signal(s) => s,
                        ChildOutcome::Exit(c) => -c,
                        _ => 0,
                    };
                    match read_pending(&pend_path) {
                        Some((desc, p)) if attempts < 40 => {
                            eprintln!("c14: group {g}: child died ({other:?}) in {}", desc);
                            skips.push(json!({"subject": desc["subject"], "op": desc["op"], "sig": sig, "desc": desc, "p": p}));
                            merged["reruns"] = json!(merged["reruns"].as_u64().unwrap() + 1);
                        }
                        _ => {
                            eprintln!("c14: group {g}: child died ({other:?}) outside a recorded call");
                            std::process::exit(2)
                        }
                    }
                }
            }
        }
        // merge the summary of the group
        let sp = args.out.join(format!("summary-{g}.json"));
        if let Ok(b) = std::fs::read(&sp) {
            let s: Value = serde_json::from_slice(&b).unwrap();
            for k in ["events", "runs", "calls", "answers", "cases", "signals", "panics", "refused"] {
                merged[k] = json!(merged[k].as_u64().unwrap() + s[k].as_u64().unwrap_or(0));
            }
            if let Some(m) = s["subjects"].as_object() {
                for (k, v) in m {
                    merged["subjects"][k] = v.clone();
                }
            }
            merged["groups"][*g] = json!({"events": s["events"], "calls": s["calls"], "answers": s["answers"], "cases": s["cases"]});
            merged["tier"] = s["tier"].clone();
        }
    }
    write_summary(&args.out, &merged);
}

fn main() {
    let args = Args::parse();
    match args.mode.as_str() {
        "drive" => drive(&args),
        "child" => child(&args),
        m => {
            eprintln!("c14: unknown mode {m}");
            std::process::exit(2)
        }
    }
}
