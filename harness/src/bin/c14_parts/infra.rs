// ------------------------------------------------------------------ arenas and placement

const PAGE: usize = 4096;
const DATA_PAGES: usize = 3;
const CAN: u8 = 0xA5;
const INIT: u8 = 0x5A;
const MARGIN: usize = 64;
const MID: usize = 1024; // offset of the 64-byte aligned anchor of the `k` placements
const AL: [usize; 10] = [0, 1, 7, 8, 15, 16, 31, 32, 33, 63];

#[derive(Clone, Copy, PartialEq, Eq, Debug)]
enum Pl {
    G,        // ends at the rear guard page
    F,        // starts at the front guard page
    A(usize), // starts k bytes after a 64-byte boundary in the middle
}
impl Pl {
    fn code(&self) -> String {
        match self {
            Pl::G => "g".into(),
            Pl::F => "f".into(),
            Pl::A(k) => k.to_string(),
        }
    }
    fn guarded(&self) -> bool {
        !matches!(self, Pl::A(_))
    }
}

/// data pages between two PROT_NONE pages
struct Arena {
    base: *mut u8,
}
impl Arena {
    fn new() -> Arena {
        unsafe {
            let len = (DATA_PAGES + 2) * PAGE;
            let p = libc::mmap(std::ptr::null_mut(), len, libc::PROT_READ | libc::PROT_WRITE,
                               libc::MAP_PRIVATE | libc::MAP_ANONYMOUS, -1, 0);
            assert!(p != libc::MAP_FAILED, "mmap");
            let base = p as *mut u8;
            assert_eq!(libc::mprotect(base as *mut _, PAGE, libc::PROT_NONE), 0);
            assert_eq!(libc::mprotect(base.add((DATA_PAGES + 1) * PAGE) as *mut _, PAGE, libc::PROT_NONE), 0);
            std::ptr::write_bytes(base.add(PAGE), CAN, DATA_PAGES * PAGE);
            Arena { base }
        }
    }
    fn lo(&self) -> usize {
        self.base as usize + PAGE
    }
    fn hi(&self) -> usize {
        self.lo() + DATA_PAGES * PAGE
    }
    fn start(&self, pl: Pl, len: usize) -> usize {
        assert!(len + MID + 2 * MARGIN < DATA_PAGES * PAGE);
        match pl {
            Pl::G => self.hi() - len,
            Pl::F => self.lo(),
            Pl::A(k) => self.lo() + MID + k,
        }
    }
    /// put `bytes` at the placement, canaries in the margins on both sides
    #[allow(clippy::mut_from_ref)]
    fn place(&self, pl: Pl, bytes: &[u8]) -> &'static mut [u8] {
        let s = self.start(pl, bytes.len());
        let e = s + bytes.len();
        let ps = s.saturating_sub(MARGIN).max(self.lo());
        let pe = (e + MARGIN).min(self.hi());
        unsafe {
            std::ptr::write_bytes(ps as *mut u8, CAN, s - ps);
            std::ptr::write_bytes(e as *mut u8, CAN, pe - e);
            std::ptr::copy_nonoverlapping(bytes.as_ptr(), s as *mut u8, bytes.len());
            std::slice::from_raw_parts_mut(s as *mut u8, bytes.len())
        }
    }
    /// the distinct byte values found in the margins before / after the buffer
    fn margins(&self, pl: Pl, len: usize) -> (Value, Value) {
        let s = self.start(pl, len);
        let e = s + len;
        let ps = s.saturating_sub(MARGIN).max(self.lo());
        let pe = (e + MARGIN).min(self.hi());
        let d = |a: usize, b: usize| {
            let sl = unsafe { std::slice::from_raw_parts(a as *const u8, b - a) };
            let mut v: Vec<u8> = sl.to_vec();
            v.sort_unstable();
            v.dedup();
            bytes_json(&v)
        };
        (d(ps, s), d(e, pe))
    }
}

// ------------------------------------------------------------------ crash descriptor (shared mapping)

struct Pending {
    ptr: *mut u8,
}
const PEND_SIZE: usize = 16384;
impl Pending {
    fn open(path: &Path) -> Pending {
        use std::os::unix::io::AsRawFd;
        let f = std::fs::OpenOptions::new().read(true).write(true).create(true).truncate(true).open(path).expect("pending file");
        f.set_len(PEND_SIZE as u64).unwrap();
        let p = unsafe {
            libc::mmap(std::ptr::null_mut(), PEND_SIZE, libc::PROT_READ | libc::PROT_WRITE, libc::MAP_SHARED, f.as_raw_fd(), 0)
        };
        assert!(p != libc::MAP_FAILED);
        Pending { ptr: p as *mut u8 }
    }
    fn set(&self, desc: &Value) {
        let s = serde_json::to_vec(desc).unwrap();
        let n = s.len().min(PEND_SIZE - 8);
        unsafe {
            std::ptr::copy_nonoverlapping(s.as_ptr(), self.ptr.add(8), n);
            (self.ptr.add(4) as *mut u32).write_volatile(0);
            (self.ptr as *mut u32).write_volatile(n as u32);
        }
    }
    #[inline]
    fn set_p(&self, p: usize) {
        unsafe { (self.ptr.add(4) as *mut u32).write_volatile(p as u32) }
    }
    fn clear(&self) {
        unsafe { (self.ptr as *mut u32).write_volatile(0) }
    }
}
fn read_pending(path: &Path) -> Option<(Value, u32)> {
    let b = std::fs::read(path).ok()?;
    if b.len() < 8 {
        return None;
    }
    let n = u32::from_le_bytes([b[0], b[1], b[2], b[3]]) as usize;
    let p = u32::from_le_bytes([b[4], b[5], b[6], b[7]]);
    if n == 0 || 8 + n > b.len() {
        return None;
    }
    serde_json::from_slice(&b[8..8 + n]).ok().map(|v| (v, p))
}

// ------------------------------------------------------------------ context

#[derive(Default, Clone)]
struct SubjStat {
    events: u64,
    calls: u64,
    answers: u64,
    cases: u64,
    refused: u64,
    signals: u64,
    panics: u64,
}

struct Cx {
    args: Args,
    tr: Tracer,
    rng: Rng,
    pend: Pending,
    skips: Vec<Value>,
    signalled: Vec<(String, String)>,
    a1: Arena,
    a2: Arena,
    thorough: bool,
    subject: String,
    stats: std::collections::BTreeMap<String, SubjStat>,
    case_no: usize,
    tier: String,
    /// quick tier: a second route to an implementation already driven in full gets the lengths around the vector widths only
    lite: bool,
}

impl Cx {
    fn new(args: &Args, group: &str) -> Cx {
        let skips: Vec<Value> = std::fs::read(args.out.join(format!("skip-{group}.json")))
            .ok().and_then(|b| serde_json::from_slice(&b).ok()).unwrap_or_default();
        let f = zipora::system::get_cpu_features();
        let tier = format!("{:?}/avx512f={},avx2={},sse42={},bmi2={},popcnt={}",
                           zipora::memory::SimdMemOps::new().tier(), f.has_avx512f, f.has_avx2, f.has_sse42, f.has_bmi2, f.has_popcnt);
        let mut tr = Tracer::new(&args.out, group);
        tr.max_events = 700;
        Cx {
            args: args.clone(),
            tr,
            rng: Rng::new(args.seed).derive(group),
            pend: Pending::open(&args.out.join(format!("pending-{group}.bin"))),
            skips,
            signalled: vec![],
            a1: Arena::new(),
            a2: Arena::new(),
            thorough: args.thorough(),
            subject: String::new(),
            stats: Default::default(),
            case_no: 0,
            tier,
            lite: false,
        }
    }
    /// start the run of one subject; false when the subject filter excludes it
    fn subject(&mut self, name: &str, fam: &str, variant: &str) -> bool {
        if !self.args.wants(name) {
            return false;
        }
        self.subject = name.to_string();
        self.lite = !self.thorough && ["@default", "@instance", "@global", "@noprefetch", "@unmonitored"].iter().any(|t| name.contains(t));
        self.tr.reset("kernels", name, json!({"fam": fam, "variant": variant, "tier": self.tier, "seed": self.args.seed}));
        self.stats.entry(name.to_string()).or_default();
        true
    }
    fn st(&mut self) -> &mut SubjStat {
        self.stats.get_mut(&self.subject).unwrap()
    }
    fn skip_entry(&self, op: &str) -> Option<Value> {
        self.skips.iter().find(|s| s["subject"] == self.subject.as_str() && s["op"] == op).cloned()
    }
    /// placements for the case: quick = guard pair, front pair, aligned pair and two rotating
    /// sampled alignment pairs; thorough = the guard combinations and all 100 sampled pairs
    fn pls2(&mut self) -> Vec<(Pl, Pl)> {
        self.case_no += 1;
        let i = self.case_no;
        let mut v = vec![(Pl::G, Pl::G), (Pl::F, Pl::F), (Pl::A(0), Pl::A(0))];
        if self.thorough {
            v.push((Pl::G, Pl::F));
            v.push((Pl::F, Pl::G));
            for &a in AL.iter() {
                v.push((Pl::G, Pl::A(a)));
                v.push((Pl::A(a), Pl::G));
                for &b in AL.iter() {
                    if (a, b) != (0, 0) {
                        v.push((Pl::A(a), Pl::A(b)));
                    }
                }
            }
        } else {
            v.push((Pl::A(AL[i % 10]), Pl::A(AL[(i / 10 + 3 * i + 1) % 10])));
            v.push((Pl::G, Pl::A(AL[(i * 7) % 10])));
            v.push((Pl::A(AL[(i * 3 + 5) % 10]), Pl::G));
        }
        v
    }
    fn pls1(&mut self) -> Vec<(Pl, Pl)> {
        self.case_no += 1;
        let i = self.case_no;
        let mut v = vec![(Pl::G, Pl::G), (Pl::F, Pl::F), (Pl::A(0), Pl::A(0))];
        if self.thorough {
            for &a in AL.iter().skip(1) {
                v.push((Pl::A(a), Pl::A(a)));
            }
        } else {
            v.push((Pl::A(AL[i % 10]), Pl::A(AL[i % 10])));
            v.push((Pl::A(AL[(i * 3 + 4) % 10]), Pl::A(AL[(i * 3 + 4) % 10])));
        }
        v
    }

    /// Run one case at every placement, group the placements by the answer obtained and log one
    /// event per distinct answer.  `inputs`: the logged arguments; `f` returns the result fields.
    /// `answers`: individual answers in one result (batch size); `nontrivial`: counted as a case.
    fn case(&mut self, op: &str, inputs: Value, small: Value, pls: &[(Pl, Pl)], answers: usize, nontrivial: bool,
            f: &mut dyn FnMut(&Arena, &Arena, Pl, Pl, &Pending) -> Value) {
        let mut pls: Vec<(Pl, Pl)> = pls.to_vec();
        pls.dedup();
        if let Some(sk) = self.skip_entry(op) {
            let key = (self.subject.clone(), op.to_string());
            if !self.signalled.contains(&key) {
                self.signalled.push(key);
                self.tr.ev(json!({"op":"signal","in":op,"sig":sk["sig"],"desc":sk["desc"],"p":sk["p"]}));
                let st = self.st();
                st.signals += 1;
                st.events += 1;
            }
            pls.retain(|(a, b)| !a.guarded() && !b.guarded());
        }
        let mut groups: Vec<(Result<Value, String>, Vec<String>)> = vec![];
        for &(ps, pd) in pls.iter() {
            if ps.guarded() || pd.guarded() {
                let mut d = small.clone();
                d["subject"] = json!(self.subject);
                d["op"] = json!(op);
                d["pl"] = json!(format!("{}/{}", ps.code(), pd.code()));
                d["ps"] = json!(ps.code());
                d["pd"] = json!(pd.code());
                self.pend.set(&d);
            }
            let (a1, a2, pend) = (&self.a1, &self.a2, &self.pend);
            let r = guard(|| f(a1, a2, ps, pd, pend));
            self.pend.clear();
            let code = format!("{}/{}", ps.code(), pd.code());
            match groups.iter_mut().find(|(g, _)| *g == r) {
                Some((_, l)) => l.push(code),
                None => groups.push((r, vec![code])),
            }
        }
        let ncalls = (pls.len() * answers.max(1)) as u64;
        for (r, l) in groups {
            let np = l.len();
            let pl = l.join(",");
            match r {
                Ok(res) => {
                    let mut e: Map<String, Value> = Map::new();
                    e.insert("op".into(), json!(op));
                    if let Some(o) = inputs.as_object() {
                        for (k, v) in o {
                            e.insert(k.clone(), v.clone());
                        }
                    }
                    let mut refused = false;
                    if let Some(o) = res.as_object() {
                        for (k, v) in o {
                            if k == "ok" && v == &json!(false) {
                                refused = true;
                            }
                            e.insert(k.clone(), v.clone());
                        }
                    }
                    e.insert("np".into(), json!(np));
                    e.insert("pl".into(), json!(pl));
                    self.tr.ev(Value::Object(e));
                    let st = self.st();
                    st.events += 1;
                    st.answers += answers.max(1) as u64;
                    if refused {
                        st.refused += 1;
                    }
                }
                Err(msg) => {
                    self.tr.ev(json!({"op":"panic","in":op,"msg":msg,"small":small,"np":np,"pl":pl}));
                    let st = self.st();
                    st.events += 1;
                    st.panics += 1;
                }
            }
        }
        let st = self.st();
        st.calls += ncalls;
        if nontrivial {
            st.cases += answers.max(1) as u64;
        }
    }

    fn finish(&mut self, group: &str) {
        self.tr.close();
        let mut subjects = Map::new();
        let mut tot = SubjStat::default();
        for (k, s) in self.stats.iter() {
            subjects.insert(k.clone(), json!({"events": s.events, "calls": s.calls, "answers": s.answers, "cases": s.cases,
                                              "refused": s.refused, "signals": s.signals, "panics": s.panics}));
            tot.events += s.events;
            tot.calls += s.calls;
            tot.answers += s.answers;
            tot.cases += s.cases;
            tot.refused += s.refused;
            tot.signals += s.signals;
            tot.panics += s.panics;
        }
        let v = json!({"group": group, "events": tot.events, "runs": self.tr.runs, "calls": tot.calls, "answers": tot.answers,
                       "cases": tot.cases, "refused": tot.refused, "signals": tot.signals, "panics": tot.panics,
                       "subjects": subjects, "tier": self.tier});
        std::fs::write(self.args.out.join(format!("summary-{group}.json")), serde_json::to_vec_pretty(&v).unwrap()).unwrap();
    }
}

// ------------------------------------------------------------------ input generators

/// lengths around the vector widths
fn lengths(cx: &Cx) -> Vec<usize> {
    if cx.thorough {
        (0..=130).collect()
    } else if cx.lite {
        vec![0, 1, 15, 16, 17, 31, 32, 33, 35, 36, 63, 64, 65, 130]
    } else {
        vec![0, 1, 2, 3, 7, 8, 9, 15, 16, 17, 31, 32, 33, 35, 36, 37, 47, 48, 49, 63, 64, 65, 66, 95, 96, 97, 127, 128, 129, 130]
    }
}
const CLASSES: [&str; 4] = ["zeros", "ramp", "high", "random"];
fn content(class: &str, n: usize, rng: &mut Rng) -> Vec<u8> {
    match class {
        "zeros" => vec![0u8; n],
        "ramp" => (0..n).map(|i| (i % 256) as u8).collect(),
        "high" => (0..n).map(|i| 0x80 | ((i * 37 + 11) % 128) as u8).collect(),
        "ascii" => (0..n).map(|i| 0x20 + ((i * 7) % 64) as u8).collect(),
        _ => rng.bytes(n),
    }
}
fn sign(x: i32) -> i32 {
    x.signum()
}
fn ord(o: std::cmp::Ordering) -> i32 {
    o as i32
}
fn optu(o: Option<usize>) -> Value {
    match o {
        None => json!([]),
        Some(v) => json!([v]),
    }
}
fn opti(o: Option<usize>) -> i64 {
    match o {
        None => -1,
        Some(v) => v as i64,
    }
}
fn w32(x: u32) -> Value {
    json!([x >> 16, x & 0xffff])
}
