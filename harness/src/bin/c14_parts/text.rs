// ------------------------------------------------------------------ UTF-8

use zipora::io::simd_encoding::base64 as io64;
use zipora::io::simd_validation::{checksum as crcm, utf8 as ioutf8};
use zipora::system::base64 as sys64;

type ValidFn = Box<dyn Fn(&[u8]) -> bool>;
type CountFn = Box<dyn Fn(&[u8]) -> Option<usize>>;

/// class representatives of the property text
const UTF8_ALPHA: [u8; 12] = [0x00, 0x41, 0x7F, 0x80, 0xBF, 0xC0, 0xC2, 0xE0, 0xED, 0xF0, 0xF4, 0xF5];

fn utf8_subjects() -> Vec<(&'static str, ValidFn)> {
    let v = ioutf8::Utf8Validator::new_unmonitored();
    let b = zipora::string::Bmi2StringProcessor::new();
    vec![
        ("ioutf8:validate_utf8", Box::new(|s| ioutf8::validate_utf8(s).unwrap_or(false))),
        ("ioutf8:is_valid_utf8", Box::new(|s| ioutf8::is_valid_utf8(s))),
        ("ioutf8@unmonitored:validate_utf8", Box::new(move |s| v.validate_utf8(s).unwrap_or(false))),
        ("bmi2:validate_utf8_bmi2", Box::new(move |s| b.validate_utf8_bmi2(s))),
        ("bmi2@global:validate_utf8_bmi2", Box::new(|s| zipora::string::validate_utf8_bmi2(s))),
        // the standard library's verdict, judged against the same definition (validates the definition)
        ("std:from_utf8", Box::new(|s| std::str::from_utf8(s).is_ok())),
    ]
}
fn utf8count_subjects() -> Vec<(&'static str, CountFn)> {
    let b = zipora::string::Bmi2StringProcessor::new();
    vec![
        ("unicode:validate_utf8_and_count_chars", Box::new(|s| zipora::string::validate_utf8_and_count_chars(s).ok())),
        ("bmi2:count_utf8_chars_bmi2", Box::new(move |s| b.count_utf8_chars_bmi2(s).ok())),
        ("bmi2@global:count_utf8_chars_bmi2", Box::new(|s| zipora::string::count_utf8_chars_bmi2(s).ok())),
        ("std:chars_count", Box::new(|s| std::str::from_utf8(s).ok().map(|t| t.chars().count()))),
    ]
}

/// (frame length, offset, k): every string of length k over the alphabet, written over the
/// frame at the offset
fn utf8_plans(cx: &Cx) -> Vec<(usize, usize, usize)> {
    let mut v = vec![(0, 0, 0), (1, 0, 1), (2, 0, 2), (3, 0, 3), (4, 0, 4)];
    if cx.lite {
        v.push((70, 62, 3));
        return v;
    }
    let offs: Vec<usize> = if cx.thorough { vec![0, 13, 14, 15, 29, 30, 31, 32, 45, 61, 62, 63, 64, 66, 67] } else { vec![30, 62, 67] };
    for o in offs {
        v.push((70, o, 3));
        if cx.thorough {
            v.push((70, o, 2));
            v.push((70, o + 2, 1));
        }
    }
    if cx.thorough {
        v.push((70, 30, 4));
        v.push((70, 66, 4));
        v.push((130, 62, 3));
        v.push((130, 127, 3));
    } else {
        v.push((70, 0, 2));
        v.push((70, 69, 1));
        v.push((70, 68, 2));
        v.push((130, 127, 2));
    }
    v
}

fn nth_string(k: usize, idx: usize) -> Vec<u8> {
    let b = UTF8_ALPHA.len();
    (0..k).map(|j| UTF8_ALPHA[(idx / b.pow((k - 1 - j) as u32)) % b]).collect()
}

/// well-formed text from random scalar values around the encoding boundaries
fn random_text(rng: &mut Rng, max: usize) -> Vec<u8> {
    let edges: [u32; 14] = [0, 0x41, 0x7F, 0x80, 0x7FF, 0x800, 0xD7FF, 0xE000, 0xFFFD, 0xFFFF, 0x10000, 0x10FFFF, 0x20AC, 0x1F980];
    let mut out = Vec::new();
    let target = rng.below(max as u64 + 1) as usize;
    while out.len() < target {
        let cp = if rng.chance(1, 2) { edges[rng.below(14) as usize] } else { rng.below(0x110000) as u32 };
        if let Some(c) = char::from_u32(cp) {
            let mut buf = [0u8; 4];
            out.extend_from_slice(c.encode_utf8(&mut buf).as_bytes());
        }
    }
    out
}

fn fam_utf8(cx: &mut Cx) {
    let frame_of = |n: usize| -> Vec<u8> { (0..n).map(|i| b'a' + (i % 26) as u8).collect() };
    let mut rng0 = cx.rng.derive("utf8-inputs");
    let nsingles = if cx.thorough { 1500 } else { 200 };
    let mut singles: Vec<Vec<u8>> = vec![];
    for i in 0..nsingles {
        let mut t = random_text(&mut rng0, 130);
        match i % 4 {
            0 => {}
            1 if !t.is_empty() => {
                let p = rng0.below(t.len() as u64) as usize;
                t[p] = rng0.next() as u8;
            }
            2 if !t.is_empty() => {
                let cut = rng0.below(t.len() as u64) as usize;
                t.truncate(cut);
            }
            _ => {
                let p = rng0.below(t.len() as u64 + 1) as usize;
                t.insert(p, [0x80u8, 0xBF, 0xC0, 0xED, 0xF4, 0xFF, 0xA0, 0x90][rng0.below(8) as usize]);
            }
        }
        singles.push(t);
    }
    for (name, f) in utf8_subjects() {
        if !cx.subject(name, "utf8", "") {
            continue;
        }
        let plans = utf8_plans(cx);
        for &(fl, off, k) in plans.iter() {
            let frame = frame_of(fl);
            let cnt = UTF8_ALPHA.len().pow(k as u32);
            let pls = cx.pls1();
            cx.case("utf8_batch", json!({"frame": bytes_json(&frame), "off": off, "alpha": bytes_json(&UTF8_ALPHA), "k": k}),
                    json!({"frame": fl, "off": off, "k": k}), &pls, cnt, true, &mut |a1, _, ps, _, pend| {
                let buf = a1.place(ps, &frame);
                let mut r = Vec::with_capacity(cnt);
                for idx in 0..cnt {
                    pend.set_p(idx);
                    let q = nth_string(k, idx);
                    buf[off..off + k].copy_from_slice(&q);
                    r.push(f(buf));
                }
                json!({"r": r})
            });
        }
        for t in singles.iter() {
            let pls = cx.pls1();
            cx.case("utf8", json!({"s": bytes_json(t)}), json!({"len": t.len()}), &pls, 1, !t.is_empty(), &mut |a1, _, ps, _, _| {
                let buf = a1.place(ps, t);
                json!({"r": f(buf)})
            });
        }
    }
    for (name, f) in utf8count_subjects() {
        if !cx.subject(name, "utf8_count", "") {
            continue;
        }
        let plans = utf8_plans(cx);
        for &(fl, off, k) in plans.iter() {
            let frame = frame_of(fl);
            let cnt = UTF8_ALPHA.len().pow(k as u32);
            let pls = cx.pls1();
            cx.case("utf8count_batch", json!({"frame": bytes_json(&frame), "off": off, "alpha": bytes_json(&UTF8_ALPHA), "k": k}),
                    json!({"frame": fl, "off": off, "k": k}), &pls, cnt, true, &mut |a1, _, ps, _, pend| {
                let buf = a1.place(ps, &frame);
                let mut r = Vec::with_capacity(cnt);
                for idx in 0..cnt {
                    pend.set_p(idx);
                    let q = nth_string(k, idx);
                    buf[off..off + k].copy_from_slice(&q);
                    r.push(opti(f(buf)));
                }
                json!({"r": r})
            });
        }
        for t in singles.iter() {
            let pls = cx.pls1();
            cx.case("utf8_count", json!({"s": bytes_json(t)}), json!({"len": t.len()}), &pls, 1, !t.is_empty(), &mut |a1, _, ps, _, _| {
                let buf = a1.place(ps, t);
                json!({"r": opti(f(buf))})
            });
        }
    }
    // decoders: Ok / Err is a validity verdict, Ok carries the code points / UTF-16 units
    let b1 = zipora::string::Bmi2StringProcessor::new();
    let b2 = zipora::string::Bmi2StringProcessor::new();
    let decoders: Vec<(&'static str, Box<dyn Fn(&[u8]) -> Option<Vec<u32>>>)> = vec![
        ("bmi2:extract_utf8_chars_bmi2", Box::new(move |s| b1.extract_utf8_chars_bmi2(s).ok())),
        ("std:chars", Box::new(|s| std::str::from_utf8(s).ok().map(|t| t.chars().map(|c| c as u32).collect()))),
    ];
    for (name, f) in decoders {
        if !cx.subject(name, "utf8_decode", "") {
            continue;
        }
        let plans = utf8_plans(cx);
        for &(fl, off, k) in plans.iter() {
            if k == 4 && fl == 4 && !cx.thorough && name.starts_with("std") {
                continue;
            }
            let frame = frame_of(fl);
            let cnt = UTF8_ALPHA.len().pow(k as u32);
            let pls = cx.pls1();
            cx.case("utf8count_batch", json!({"frame": bytes_json(&frame), "off": off, "alpha": bytes_json(&UTF8_ALPHA), "k": k, "api": "decode"}),
                    json!({"frame": fl, "off": off, "k": k}), &pls, cnt, true, &mut |a1, _, ps, _, pend| {
                let buf = a1.place(ps, &frame);
                let mut r: Vec<i64> = Vec::with_capacity(cnt);
                for idx in 0..cnt {
                    pend.set_p(idx);
                    let q = nth_string(k, idx);
                    buf[off..off + k].copy_from_slice(&q);
                    r.push(f(buf).map(|v| v.len() as i64).unwrap_or(-1));
                }
                json!({"r": r})
            });
        }
        for t in singles.iter() {
            let pls = cx.pls1();
            cx.case("utf8_decode", json!({"s": bytes_json(t)}), json!({"len": t.len()}), &pls, 1, !t.is_empty(), &mut |a1, _, ps, _, _| {
                let buf = a1.place(ps, t);
                match f(buf) {
                    Some(v) => json!({"ok": true, "r": v}),
                    None => json!({"ok": false, "r": []}),
                }
            });
        }
    }
    let to16: Vec<(&'static str, Box<dyn Fn(&[u8]) -> Option<Vec<u16>>>)> = vec![
        ("bmi2:utf8_to_utf16_bmi2", Box::new(move |s| b2.utf8_to_utf16_bmi2(s).ok())),
        ("std:encode_utf16", Box::new(|s| std::str::from_utf8(s).ok().map(|t| t.encode_utf16().collect()))),
    ];
    for (name, f) in to16 {
        if !cx.subject(name, "utf16", "") {
            continue;
        }
        for t in singles.iter() {
            let pls = cx.pls1();
            cx.case("utf16", json!({"s": bytes_json(t)}), json!({"len": t.len()}), &pls, 1, !t.is_empty(), &mut |a1, _, ps, _, _| {
                let buf = a1.place(ps, t);
                match f(buf) {
                    Some(v) => json!({"ok": true, "r": v}),
                    None => json!({"ok": false, "r": []}),
                }
            });
        }
    }
}

// ------------------------------------------------------------------ CRC-32C

fn fam_crc(cx: &mut Cx) {
    if !cx.subject("crc:crc32c", "crc", "") {
        return;
    }
    let mut rng = cx.rng.derive("crc");
    let all: Vec<usize> = (0..=130).collect();
    let lens = lengths(cx);
    // one shot, every length
    for &n in all.iter() {
        let classes: Vec<&str> = if cx.thorough || n % 16 <= 1 || n % 16 == 15 { vec!["random", "zeros", "high"] } else { vec!["random"] };
        for class in classes {
            let d = content(class, n, &mut rng);
            let pls = cx.pls1();
            cx.case("crc_hash", json!({"data": bytes_json(&d), "class": class}), json!({"len": n, "class": class}), &pls, 1, n > 0,
                    &mut |a1, _, ps, _, _| {
                let b = a1.place(ps, &d);
                match crcm::crc32c_hash(b) {
                    Ok(v) => json!({"r": w32(v)}),
                    Err(_) => json!({"r": [-1, -1]}),
                }
            });
        }
    }
    // raw register update from an arbitrary initial value
    for &n in lens.iter() {
        for init in [0u32, 0xFFFF_FFFF, rng.next() as u32, 0x8000_0001] {
            let d = content("random", n, &mut rng);
            let pls = cx.pls1();
            cx.case("crc", json!({"init": w32(init), "data": bytes_json(&d)}), json!({"len": n, "init": init}), &pls, 1, n > 0,
                    &mut |a1, _, ps, _, _| {
                let b = a1.place(ps, &d);
                match crcm::crc32c(b, init) {
                    Ok(v) => json!({"r": w32(v)}),
                    Err(_) => json!({"r": [-1, -1]}),
                }
            });
        }
    }
    // the streaming entry point itself, from adversarial register values (0 is a legitimate register)
    let regs: Vec<u32> = vec![0, 1, 0xFFFF_FFFF, 0x8000_0000, 0x0000_FFFF, rng.next() as u32, rng.next() as u32];
    for &n in [0usize, 1, 3, 4, 7, 8, 9, 16, 33, 64, 65, 130].iter() {
        for &init in regs.iter() {
            let d = content("random", n, &mut rng);
            let pls = cx.pls1();
            cx.case("crc", json!({"init": w32(init), "data": bytes_json(&d), "api": "crc32c_update"}), json!({"len": n, "init": init, "api": "update"}), &pls, 1, true,
                    &mut |a1, _, ps, _, _| {
                let b = a1.place(ps, &d);
                match crcm::crc32c_update(init, b) {
                    Ok(v) => json!({"r": w32(v)}),
                    Err(_) => json!({"r": [-1, -1]}),
                }
            });
        }
    }
    // the fold: every register of the stream is logged.  Streams built to pass through register 0 at a cut:
    // FF FF FF FF first (0xFFFFFFFF xor FFFFFFFF = 0), and a prefix followed by the little-endian bytes of its own
    // raw register (taken from the code under test: it only constructs the input, TLC judges every register)
    let mut streams: Vec<(u32, Vec<Vec<u8>>)> = vec![];
    let payload = content("random", 40, &mut rng);
    streams.push((0xFFFF_FFFF, vec![vec![0xFF; 4], payload.clone()]));
    streams.push((0xFFFF_FFFF, vec![vec![0xFF; 4], vec![], payload[..7].to_vec(), vec![], payload[7..].to_vec()]));
    streams.push((0xFFFF_FFFF, vec![vec![0xFF; 2], vec![0xFF; 2], vec![], vec![]]));
    for plen in [0usize, 1, 5, 8, 17, 64] {
        let prefix = content("random", plen, &mut rng);
        let raw = crcm::crc32c(&prefix, 0xFFFF_FFFF).unwrap_or(0);
        let tail = content("random", 9, &mut rng);
        streams.push((0xFFFF_FFFF, vec![prefix.clone(), raw.to_le_bytes().to_vec(), tail.clone()]));
        streams.push((0xFFFF_FFFF, vec![[prefix.clone(), raw.to_le_bytes().to_vec()].concat(), vec![], tail.clone()]));
    }
    for &init in regs.iter() {
        streams.push((init, vec![vec![], payload[..3].to_vec(), vec![], payload[3..].to_vec()]));
        let raw = crcm::crc32c(&payload[..8], init).unwrap_or(0);
        streams.push((init, vec![payload[..8].to_vec(), raw.to_le_bytes().to_vec(), payload[8..20].to_vec()]));
    }
    // every cut of a short input, the listed cuts of a long one
    let short = content("random", 12, &mut rng);
    for k in 0..=12 {
        streams.push((0xFFFF_FFFF, vec![short[..k].to_vec(), short[k..].to_vec()]));
        streams.push((0, vec![short[..k].to_vec(), vec![], short[k..].to_vec()]));
    }
    let long = content("random", 130, &mut rng);
    for k in [1usize, 3, 4, 7, 8, 15, 16, 31, 32, 63, 64, 129] {
        streams.push((0xFFFF_FFFF, vec![long[..k].to_vec(), long[k..].to_vec()]));
        streams.push((0x8000_0000, vec![long[..k].to_vec(), vec![], long[k..k + 1].to_vec(), long[k + 1..].to_vec()]));
    }
    for (init, parts) in streams {
        let pls = cx.pls1();
        let pj: Vec<Value> = parts.iter().map(|p| bytes_json(p)).collect();
        let total: usize = parts.iter().map(|p| p.len()).sum();
        cx.case("crc_fold", json!({"init": w32(init), "parts": pj}), json!({"len": total, "init": init, "nparts": parts.len()}), &pls, parts.len(), true,
                &mut |a1, _, ps, _, _| {
            let mut crc = init;
            let mut regs: Vec<Value> = vec![];
            for p in parts.iter() {
                let b = a1.place(ps, p);
                match crcm::crc32c_update(crc, b) {
                    Ok(v) => crc = v,
                    Err(_) => return json!({"regs": [], "fin": [-1, -1]}),
                }
                regs.push(w32(crc));
            }
            json!({"regs": regs, "fin": w32(crcm::crc32c_finalize(crc))})
        });
    }
    // incremental: init, update per part, finalize
    for &n in lens.iter() {
        let d = content("random", n, &mut rng);
        let mut cuts: Vec<Vec<usize>> = vec![vec![0], vec![n], vec![n / 2], vec![1.min(n)], vec![n.saturating_sub(1)],
                                             vec![7.min(n)], vec![8.min(n)], vec![9.min(n)], vec![n / 3, 2 * n / 3], vec![3.min(n), 5.min(n), 6.min(n)]];
        if cx.thorough {
            for k in 0..=n {
                cuts.push(vec![k]);
            }
        }
        cuts.sort();
        cuts.dedup();
        for c in cuts {
            let mut parts: Vec<Vec<u8>> = vec![];
            let mut prev = 0;
            for &k in c.iter().chain([n].iter()) {
                parts.push(d[prev..k].to_vec());
                prev = k;
            }
            let pls = cx.pls1();
            let pj: Vec<Value> = parts.iter().map(|p| bytes_json(p)).collect();
            cx.case("crc_inc", json!({"parts": pj}), json!({"len": n, "cuts": c}), &pls, 1, n > 0, &mut |a1, _, ps, _, _| {
                let mut crc = 0xFFFF_FFFFu32;
                for p in parts.iter() {
                    let b = a1.place(ps, p);
                    match crcm::crc32c_update(crc, b) {
                        Ok(v) => crc = v,
                        Err(_) => return json!({"r": [-1, -1]}),
                    }
                }
                json!({"r": w32(crcm::crc32c_finalize(crc))})
            });
        }
    }
}

// ------------------------------------------------------------------ Base64 / hex

type EncFn = Box<dyn Fn(&[u8]) -> Option<Vec<u8>>>;
type DecFn = Box<dyn Fn(&[u8]) -> Option<Vec<u8>>>;

struct Codec {
    name: &'static str,
    url: bool,
    pad: bool,
    enc: Option<EncFn>,
    dec: Option<DecFn>,
}

fn b64_subjects() -> Vec<Codec> {
    let mut v: Vec<Codec> = vec![];
    v.push(Codec { name: "io64:encode_decode_base64", url: false, pad: true,
                   enc: Some(Box::new(|d| io64::encode_base64(d).ok().map(|s| s.into_bytes()))),
                   dec: Some(Box::new(|t| std::str::from_utf8(t).ok().and_then(|s| io64::decode_base64(s).ok()))) });
    v.push(Codec { name: "io64:buffer", url: false, pad: true,
                   enc: Some(Box::new(|d| {
                       let mut out = vec![0u8; io64::calculate_encoded_len(d.len())];
                       io64::encode_base64_to_buffer(d, &mut out).ok().map(|n| out[..n].to_vec())
                   })),
                   dec: Some(Box::new(|t| {
                       let mut out = vec![0u8; io64::calculate_decoded_len(t.len()) + 3];
                       io64::decode_base64_from_buffer(t, &mut out).ok().map(|n| out[..n].to_vec())
                   })) });
    for (name, url, pad) in [("sys64@std_pad:AdaptiveBase64", false, true), ("sys64@std_nopad:AdaptiveBase64", false, false),
                             ("sys64@url_pad:AdaptiveBase64", true, true), ("sys64@url_nopad:AdaptiveBase64", true, false)] {
        let mk = move || sys64::AdaptiveBase64::with_config(sys64::Base64Config { url_safe: url, padding: pad, force_implementation: None });
        let (c1, c2) = (mk(), mk());
        v.push(Codec { name, url, pad,
                       enc: Some(Box::new(move |d| Some(c1.encode(d).into_bytes()))),
                       dec: Some(Box::new(move |t| std::str::from_utf8(t).ok().and_then(|s| c2.decode(s).ok()))) });
    }
    let (e, d) = (sys64::SimdBase64Encoder::new(), sys64::SimdBase64Decoder::new());
    v.push(Codec { name: "sys64:SimdBase64Encoder_Decoder", url: false, pad: true,
                   enc: Some(Box::new(move |x| Some(e.encode(x).into_bytes()))),
                   dec: Some(Box::new(move |t| std::str::from_utf8(t).ok().and_then(|s| d.decode(s).ok()))) });
    v.push(Codec { name: "sys64:base64_encode_decode_simd", url: false, pad: true,
                   enc: Some(Box::new(|x| Some(sys64::base64_encode_simd(x).into_bytes()))),
                   dec: Some(Box::new(|t| std::str::from_utf8(t).ok().and_then(|s| sys64::base64_decode_simd(s).ok()))) });
    v
}

fn fam_codec(cx: &mut Cx) {
    let mut lens: Vec<usize> = (0..=36).collect();
    lens.extend([47, 48, 49, 50, 63, 64, 65, 66, 95, 96, 97, 127, 128, 129, 130]);
    for c in b64_subjects() {
        if !cx.subject(c.name, "base64", if c.url { "url" } else { "std" }) {
            continue;
        }
        let mut rng = cx.rng.derive(c.name);
        let (enc, dec) = (c.enc.unwrap(), c.dec.unwrap());
        for &n in lens.iter() {
            for class in ["random", "zeros", "ones"] {
                if class != "random" && n % 3 == 0 && n > 6 {
                    continue;
                }
                let d = if class == "ones" { vec![0xFFu8; n] } else { content(class, n, &mut rng) };
                let pls = [(Pl::G, Pl::G), (Pl::A(1), Pl::A(1))];
                let mut text: Option<Vec<u8>> = None;
                cx.case("b64enc", json!({"url": c.url, "pad": c.pad, "data": bytes_json(&d)}), json!({"len": n, "class": class}), &pls, 1, n > 0,
                        &mut |a1, _, ps, _, _| {
                    let b = a1.place(ps, &d);
                    match enc(b) {
                        Some(t) => {
                            text = Some(t.clone());
                            json!({"r": bytes_json(&t)})
                        }
                        None => json!({"r": [-1]}),
                    }
                });
                let Some(t) = text else { continue };
                // the text itself and damaged variants of it
                let mut texts: Vec<Vec<u8>> = vec![t.clone()];
                if class == "random" {
                    if !t.is_empty() {
                        texts.push(t[..t.len() - 1].to_vec());
                        let mut x = t.clone();
                        x.push(b'=');
                        texts.push(x);
                        let mut x = t.clone();
                        x.push(b'A');
                        texts.push(x);
                        for bad in [b'*', b' ', b'\n', b'=', if c.url { b'+' } else { b'-' }, if c.url { b'/' } else { b'_' }] {
                            let mut x = t.clone();
                            let p = rng.below(x.len() as u64) as usize;
                            x[p] = bad;
                            texts.push(x);
                        }
                        // non-zero unused bits in the last data character
                        let lastdata = t.iter().rposition(|&ch| ch != b'=').unwrap_or(0);
                        if n % 3 != 0 {
                            let mut x = t.clone();
                            x[lastdata] = match x[lastdata] { b'A' => b'B', b'Q' => b'R', b'g' => b'h', b'w' => b'x', o => o + 1 };
                            texts.push(x);
                        }
                        // padding stripped / added against the configuration
                        let stripped: Vec<u8> = t.iter().cloned().filter(|&ch| ch != b'=').collect();
                        if c.pad && stripped.len() != t.len() {
                            texts.push(stripped);
                        }
                        if !c.pad && n % 3 != 0 {
                            let mut x = t.clone();
                            while x.len() % 4 != 0 {
                                x.push(b'=');
                            }
                            texts.push(x);
                        }
                    } else {
                        texts.push(b"=".to_vec());
                        texts.push(b"====".to_vec());
                        texts.push(b"A".to_vec());
                    }
                }
                for tx in texts {
                    cx.case("b64dec", json!({"url": c.url, "pad": c.pad, "s": bytes_json(&tx)}), json!({"len": tx.len()}), &pls, 1, !tx.is_empty(),
                            &mut |a1, _, ps, _, _| {
                        let b = a1.place(ps, &tx);
                        match dec(b) {
                            Some(o) => json!({"ok": true, "r": bytes_json(&o)}),
                            None => json!({"ok": false, "r": []}),
                        }
                    });
                }
            }
        }
    }
    if cx.subject("io64:calculate_len", "base64", "len") {
        for n in 0..=130usize {
            cx.case("b64len", json!({"n": n}), json!({"n": n}), &[(Pl::A(0), Pl::A(0))], 1, n > 0, &mut |_, _, _, _, _| {
                let e = io64::calculate_encoded_len(n);
                json!({"enc": e, "dec": io64::calculate_decoded_len(e)})
            });
        }
    }
    // hex
    use zipora::string as zs;
    let hexenc: Vec<(&'static str, bool, EncFn)> = vec![
        ("hex:hex_encode", false, Box::new(|d| Some(zs::hex_encode(d).into_bytes()))),
        ("hex:hex_encode_upper", true, Box::new(|d| Some(zs::hex_encode_upper(d).into_bytes()))),
        ("hex:hex_encode_to_bytes", false, Box::new(|d| Some(zs::hex_encode_to_bytes(d)))),
        ("hex:hex_encode_to_slice", false, Box::new(|d| {
            let mut o = vec![0u8; d.len() * 2];
            zs::hex_encode_to_slice(d, &mut o).ok().map(|n| o[..n].to_vec())
        })),
    ];
    let hexdec: Vec<(&'static str, DecFn)> = vec![
        ("hex:hex_decode", Box::new(|t| std::str::from_utf8(t).ok().and_then(|s| zs::hex_decode(s).ok()))),
        ("hex:hex_decode_bytes", Box::new(|t| zs::hex_decode_bytes(t).ok())),
        ("hex:hex_decode_to_slice", Box::new(|t| {
            let mut o = vec![0u8; t.len() / 2 + 1];
            zs::hex_decode_to_slice(t, &mut o).ok().map(|n| o[..n].to_vec())
        })),
    ];
    let pls = [(Pl::G, Pl::G), (Pl::A(1), Pl::A(1))];
    let mut texts: Vec<Vec<u8>> = vec![];
    for (name, upper, f) in hexenc {
        if !cx.subject(name, "hex", "enc") {
            continue;
        }
        let mut rng = cx.rng.derive(name);
        for &n in lens.iter() {
            let d = if n == 128 { (0..=255u8).step_by(2).collect() } else { content("random", n, &mut rng) };
            cx.case("hexenc", json!({"upper": upper, "data": bytes_json(&d)}), json!({"len": n}), &pls, 1, n > 0, &mut |a1, _, ps, _, _| {
                let b = a1.place(ps, &d);
                match f(b) {
                    Some(t) => {
                        if texts.len() < 400 {
                            texts.push(t.clone());
                        }
                        json!({"r": bytes_json(&t)})
                    }
                    None => json!({"r": [-1]}),
                }
            });
        }
    }
    if texts.is_empty() {
        texts.push(b"00ff".to_vec());
    }
    let mut rng = cx.rng.derive("hexdec");
    let mut dtexts: Vec<Vec<u8>> = vec![b"".to_vec(), b"0".to_vec(), b"0g".to_vec(), b"G0".to_vec(), b"aAfF09".to_vec(), b" 00".to_vec(), b"0x00".to_vec(),
                                        b"/0".to_vec(), b":0".to_vec(), b"@0".to_vec(), b"`0".to_vec(), b"00\xC3\xA9".to_vec()];
    for t in texts.iter().step_by(3) {
        dtexts.push(t.clone());
        if !t.is_empty() {
            dtexts.push(t[..t.len() - 1].to_vec());
            let mut x = t.clone();
            let p = rng.below(x.len() as u64) as usize;
            x[p] = [b'g', b'G', b' ', b'/', b':', b'@', b'`', b'z'][rng.below(8) as usize];
            dtexts.push(x);
            let mut x = t.clone();
            for ch in x.iter_mut() {
                if rng.chance(1, 2) {
                    *ch = ch.to_ascii_uppercase();
                }
            }
            dtexts.push(x);
        }
    }
    for (name, f) in hexdec {
        if !cx.subject(name, "hex", "dec") {
            continue;
        }
        for tx in dtexts.iter() {
            cx.case("hexdec", json!({"s": bytes_json(tx)}), json!({"len": tx.len()}), &pls, 1, !tx.is_empty(), &mut |a1, _, ps, _, _| {
                let b = a1.place(ps, tx);
                match f(b) {
                    Some(o) => json!({"ok": true, "r": bytes_json(&o)}),
                    None => json!({"ok": false, "r": []}),
                }
            });
        }
    }
    if cx.subject("hex:is_valid_hex", "hex", "valid") {
        for tx in dtexts.iter() {
            let Ok(s) = std::str::from_utf8(tx) else { continue };
            cx.case("hexvalid", json!({"s": bytes_json(tx)}), json!({"len": tx.len()}), &[(Pl::A(0), Pl::A(0))], 1, !tx.is_empty(),
                    &mut |_, _, _, _, _| json!({"r": zs::is_valid_hex(s)}));
        }
    }
}
