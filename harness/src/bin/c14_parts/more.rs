// ------------------------------------------------------------------ coverage round: the remaining public
// kernels of the anchor files (ASCII text kernels of bmi2_string_ops, string::unicode, hex nibbles, bit
// fields of entropy::bit_ops, prefetch, configuration presets, global accessors)

use zipora::entropy::bit_ops::{CompressionBmi2Dispatcher, CompressionOperation};
use zipora::string::{CharClass, CharFilter, StringDictionary, UnicodeProcessor, Utf8ToUtf32Iterator};

/// ASCII text over the bytes next to every class boundary (@A Z[ `a z{ /0 9: whitespace incl. VT, DEL)
const TEXT_POOL: [u8; 26] = [b'@', b'A', b'M', b'Z', b'[', b'`', b'a', b'm', b'z', b'{', b'0', b'9', b'/', b':', b' ', b'\t', b'\n',
                             0x0B, 0x0C, b'\r', b'~', 0x7F, b'!', b'x', b'X', b'_'];
fn ascii_text(n: usize, rng: &mut Rng) -> Vec<u8> {
    (0..n).map(|_| TEXT_POOL[rng.below(TEXT_POOL.len() as u64) as usize]).collect()
}
/// well-formed text mixing ASCII letters with two-byte characters (all their bytes are >= 0x80)
fn mixed_text(n: usize, rng: &mut Rng) -> Vec<u8> {
    let mut v = Vec::new();
    while v.len() < n {
        if rng.chance(1, 3) && v.len() + 2 <= n {
            v.extend_from_slice(&[0xC3, 0x80 + rng.below(64) as u8]);
        } else {
            v.push(TEXT_POOL[rng.below(10) as usize]);
        }
    }
    v
}
fn class_json(c: &CharClass) -> Value {
    match c {
        CharClass::Alpha => json!({"kind":"alpha","set":[],"lo":0,"hi":0}),
        CharClass::Digit => json!({"kind":"digit","set":[],"lo":0,"hi":0}),
        CharClass::Alnum => json!({"kind":"alnum","set":[],"lo":0,"hi":0}),
        CharClass::Space => json!({"kind":"space","set":[],"lo":0,"hi":0}),
        CharClass::Punct => json!({"kind":"punct","set":[],"lo":0,"hi":0}),
        CharClass::Custom(s) => json!({"kind":"custom","set":bytes_json(s),"lo":0,"hi":0}),
        CharClass::Range(a, b) => json!({"kind":"range","set":[],"lo":a,"hi":b}),
    }
}
fn filter_json(f: &CharFilter) -> Value {
    match f {
        CharFilter::AlphaOnly => json!({"kind":"alpha","set":[]}),
        CharFilter::DigitOnly => json!({"kind":"digit","set":[]}),
        CharFilter::AlnumOnly => json!({"kind":"alnum","set":[]}),
        CharFilter::NoWhitespace => json!({"kind":"nows","set":[]}),
        CharFilter::KeepChars(s) => json!({"kind":"keep","set":bytes_json(s)}),
        CharFilter::RemoveChars(s) => json!({"kind":"remove","set":bytes_json(s)}),
    }
}

fn text_lengths(cx: &Cx) -> Vec<usize> {
    if cx.thorough {
        (0..=72).chain([95, 96, 97, 127, 128, 129, 130]).collect()
    } else if cx.lite {
        vec![0, 7, 8, 9, 16, 33]
    } else {
        vec![0, 1, 3, 4, 5, 7, 8, 9, 15, 16, 17, 23, 24, 25, 31, 32, 33, 63, 64, 65, 130]
    }
}

fn fam_bmi2text(cx: &mut Cx) {
    let globals = [false, true];
    for &global in globals.iter() {
        let name = if global { "bmi2text@global" } else { "bmi2text" };
        if !cx.subject(name, "bmi2text", "") {
            continue;
        }
        let p = zipora::string::Bmi2StringProcessor::new();
        let mut rng = cx.rng.derive(name);
        for &n in text_lengths(cx).iter() {
            for class in ["ascii", "mixed"] {
                let s = if class == "ascii" { ascii_text(n, &mut rng) } else { mixed_text(n, &mut rng) };
                let pls = cx.pls1();
                cx.case("lower", json!({"s": bytes_json(&s), "class": class}), json!({"len": n}), &pls, 1, n > 0, &mut |a1, _, ps, _, _| {
                    let b = as_str(a1.place(ps, &s));
                    let r = if global { zipora::string::to_lowercase_ascii_bmi2(b) } else { p.to_lowercase_ascii_bmi2(b) };
                    json!({"r": bytes_json(r.as_bytes())})
                });
                cx.case("upper", json!({"s": bytes_json(&s), "class": class}), json!({"len": n}), &pls, 1, n > 0, &mut |a1, _, ps, _, _| {
                    let b = as_str(a1.place(ps, &s));
                    let r = if global { zipora::string::to_uppercase_ascii_bmi2(b) } else { p.to_uppercase_ascii_bmi2(b) };
                    json!({"r": bytes_json(r.as_bytes())})
                });
                // runs: long runs need few distinct bytes
                let rs: Vec<u8> = s.iter().map(|&b| if class == "ascii" { [b'a', b'a', b'b', b' '][(b % 4) as usize] } else { b }).collect();
                cx.case("runs", json!({"s": bytes_json(&rs)}), json!({"len": n}), &pls, 1, n > 0, &mut |a1, _, ps, _, _| {
                    let b = as_str(a1.place(ps, &rs));
                    let r = if global { zipora::string::detect_runs_bmi2(b) } else { p.detect_runs_bmi2(b) };
                    json!({"r": r.iter().map(|x| json!([x.character, x.start, x.length])).collect::<Vec<Value>>()})
                });
                // byte-wise hash
                for base in [0u64, 1, u64::MAX, 0x8000_0000_0000_0000, 0x9E37_79B9_7F4A_7C15] {
                    cx.case("bytehash", json!({"s": bytes_json(&s), "base": limbs(base)}), json!({"len": n}), &pls, 1, n > 0, &mut |a1, _, ps, _, _| {
                        let b = as_str(a1.place(ps, &s));
                        let r = if global { zipora::string::hash_string_bmi2(b, base) } else { p.hash_string_bmi2(b, base) };
                        json!({"r": limbs(r)})
                    });
                }
            }
            if global {
                continue;
            }
            // character classes / filters (ASCII text: one result per byte)
            let s = ascii_text(n, &mut rng);
            let class_sets: Vec<Vec<CharClass>> = vec![
                vec![CharClass::Alpha], vec![CharClass::Digit], vec![CharClass::Alnum], vec![CharClass::Space], vec![CharClass::Punct],
                vec![CharClass::Custom(vec![b'@', b'[', b'`', b'{', 0x7F])], vec![CharClass::Range(b'A', b'Z')], vec![CharClass::Range(b'[', b'`')],
                vec![CharClass::Digit, CharClass::Space, CharClass::Range(b'a', b'm')], vec![],
            ];
            for (k, cs) in class_sets.iter().enumerate() {
                if !cx.thorough && (k + n) % 2 == 1 {
                    continue;
                }
                let pls = cx.pls1();
                cx.case("charclass", json!({"s": bytes_json(&s), "classes": cs.iter().map(class_json).collect::<Vec<Value>>()}), json!({"len": n, "k": k}),
                        &pls, n, n > 0, &mut |a1, _, ps, _, _| {
                    let b = as_str(a1.place(ps, &s));
                    json!({"r": p.char_class_match_bmi2(b, cs)})
                });
            }
            let filters = vec![CharFilter::AlphaOnly, CharFilter::DigitOnly, CharFilter::AlnumOnly, CharFilter::NoWhitespace,
                               CharFilter::KeepChars(vec![b'A', b'z', b' ', 0x0B]), CharFilter::RemoveChars(vec![b'@', b'a', b'\n']),
                               CharFilter::KeepChars(vec![]), CharFilter::RemoveChars(vec![])];
            for (k, f) in filters.iter().enumerate() {
                if !cx.thorough && (k + n) % 2 == 0 {
                    continue;
                }
                let pls = cx.pls1();
                cx.case("filter", json!({"s": bytes_json(&s), "f": filter_json(f)}), json!({"len": n, "k": k}), &pls, 1, n > 0, &mut |a1, _, ps, _, _| {
                    let b = as_str(a1.place(ps, &s));
                    json!({"r": bytes_json(p.filter_chars_bmi2(b, f.clone()).as_bytes())})
                });
            }
            // byte histogram through the compression analysis
            let pls = cx.pls1();
            cx.case("histogram", json!({"h": bytes_json(&s), "api": "analyze_compression_bmi2"}), json!({"len": n}), &pls, 256, n > 0, &mut |a1, _, ps, _, _| {
                let b = as_str(a1.place(ps, &s));
                let a = p.analyze_compression_bmi2(b);
                let mut r = vec![0i64; 256];
                for (k, v) in a.char_frequencies.iter() {
                    r[*k as usize] = *v as i64;
                }
                // the two summary fields must agree with the map they summarise
                if a.unique_chars != a.char_frequencies.len() || a.total_chars as i64 != r.iter().sum::<i64>() {
                    r[255] = -1;
                }
                json!({"r": r})
            });
            // substrings
            if n >= 2 {
                let mut ranges: Vec<(usize, usize)> = vec![(0, n), (0, 0), (n, 0), (1, n - 1), (0, n - 1), (n / 2, n - n / 2), (n / 3, (n / 3).min(7)),
                                                           (n / 3, (n - n / 3).min(8)), (n / 4, (n - n / 4).min(9))];
                let pls = cx.pls1();
                for bad in [false, true] {
                    if bad {
                        ranges.push((n - 1, 2));
                    }
                    let rj: Vec<Value> = ranges.iter().map(|&(a, b)| json!([a, b])).collect();
                    cx.case("substrings", json!({"s": bytes_json(&s), "ranges": rj}), json!({"len": n, "bad": bad}), &pls, ranges.len(), true,
                            &mut |a1, _, ps, _, _| {
                        let b = as_str(a1.place(ps, &s));
                        match p.extract_substrings_bmi2(b, &ranges) {
                            Ok(v) => json!({"ok": true, "r": v.iter().map(|x| bytes_json(x.as_bytes())).collect::<Vec<Value>>()}),
                            Err(_) => json!({"ok": false, "r": []}),
                        }
                    });
                }
            }
            // dictionary scan: entries shorter and longer than 8 bytes, some occurring in the text
            if n >= 4 {
                let mut words: Vec<Vec<u8>> = vec![s[..2].to_vec(), s[n / 2..(n / 2 + 3).min(n)].to_vec(), b"zz".to_vec(), s[n - 1..].to_vec()];
                if n >= 12 {
                    words.push(s[1..10].to_vec());
                    words.push(s[n - 8..].to_vec());
                    let mut near = s[2..11].to_vec();
                    near[8] ^= 1;
                    words.push(near);
                }
                let dict = StringDictionary::new(words.iter().map(|w| String::from_utf8(w.clone()).expect("ascii")).collect());
                let pls = cx.pls1();
                cx.case("dict", json!({"h": bytes_json(&s), "entries": words.iter().map(|w| bytes_json(w)).collect::<Vec<Value>>()}),
                        json!({"len": n}), &pls, n, true, &mut |a1, _, ps, _, _| {
                    let b = as_str(a1.place(ps, &s));
                    let r = p.dictionary_lookup_bmi2(b, &dict);
                    json!({"r": r.iter().map(|m| json!([m.position, m.length, m.dictionary_index])).collect::<Vec<Value>>()})
                });
            }
        }
        if global {
            // wildcard through the global function only below
        }
        // glob matching: text of 8+ bytes and pattern of 4+ bytes take the accelerated path
        let wl: Vec<usize> = if cx.thorough { vec![0, 1, 3, 7, 8, 9, 12, 16, 17, 24, 33, 40] } else if cx.lite { vec![8, 17] } else { vec![0, 3, 7, 8, 9, 16, 17, 33] };
        for &n in wl.iter() {
            let t: Vec<u8> = (0..n).map(|_| [b'a', b'b', b'c', b'd'][rng.below(4) as usize]).collect();
            let mut pats: Vec<Vec<u8>> = vec![t.clone(), b"*".to_vec(), b"****".to_vec(), b"".to_vec(), vec![b'?'; n], vec![b'?'; n + 1], b"*x*x".to_vec()];
            if n >= 4 {
                pats.push(t[..n - 1].to_vec()); // the text is longer than the pattern
                pats.push([t.clone(), b"a".to_vec()].concat());
                pats.push(t[..4].to_vec());
                pats.push([&t[..3], b"*"].concat());
                pats.push([b"*".as_slice(), &t[n - 3..]].concat());
                pats.push([&t[..2], b"*", &t[n - 2..]].concat());
                pats.push([&t[..2], b"**", &t[n - 2..]].concat());
                pats.push([&t[..1], b"?*?", &t[n - 1..]].concat());
                let mut q = t.clone();
                q[n / 2] = b'?';
                pats.push(q.clone());
                q[n / 2] = b'x';
                pats.push(q);
                pats.push([b"*".as_slice(), &t[n / 2..n / 2 + 2], b"*"].concat());
                pats.push([b"*".as_slice(), &t[n - 2..], b"?"].concat());
                pats.push([t.clone(), b"*".to_vec()].concat());
                pats.push([t.clone(), b"?".to_vec()].concat());
            }
            // a star that must skip a false start
            let t2: Vec<u8> = [b"ab".repeat(n / 4 + 1), b"abcd".to_vec()].concat();
            let extra: Vec<(Vec<u8>, Vec<u8>)> = vec![(t2.clone(), b"*abcd".to_vec()), (t2.clone(), b"a*bcd".to_vec()), (t2.clone(), b"ab*ab*cd".to_vec()),
                                                      (t2.clone(), b"*abab".to_vec()), (t2.clone(), b"abab*abd".to_vec())];
            for (tt, pp) in pats.into_iter().map(|p| (t.clone(), p)).chain(extra.into_iter()) {
                let pls = cx.pls2();
                cx.case("wildcard", json!({"t": bytes_json(&tt), "p": bytes_json(&pp)}), json!({"len": tt.len(), "plen": pp.len()}), &pls, 1, true,
                        &mut |a1, a2, ps, pd, _| {
                    let a = as_str(a1.place(ps, &tt));
                    let b = as_str(a2.place(pd, &pp));
                    json!({"r": if global { zipora::string::wildcard_match_bmi2(a, b) } else { p.wildcard_match_bmi2(a, b) }})
                });
            }
        }
        if global {
            continue;
        }
        // bulk twins: fewer than 4 elements take the individual route, 4 or more the bulk route
        for cnt in [0usize, 1, 3, 4, 5, 9] {
            let ss: Vec<Vec<u8>> = (0..cnt).map(|i| if i % 2 == 0 { ascii_text([0, 3, 7, 8, 9, 20][i % 6], &mut rng) } else { mixed_text([2, 8, 16, 33][i % 4], &mut rng) }).collect();
            let strs: Vec<&str> = ss.iter().map(|b| as_str(b)).collect();
            let sj: Vec<Value> = ss.iter().map(|b| bytes_json(b)).collect();
            let one = [(Pl::A(0), Pl::A(0))];
            cx.case("valid_bulk", json!({"ss": sj}), json!({"cnt": cnt}), &one, cnt, cnt > 0, &mut |_, _, _, _, _| json!({"r": p.validate_bulk_bmi2(&strs)}));
            cx.case("bytehash_bulk", json!({"ss": sj, "base": limbs(77)}), json!({"cnt": cnt}), &one, cnt, cnt > 0,
                    &mut |_, _, _, _, _| json!({"r": p.hash_bulk_bmi2(&strs, 77).iter().map(|&h| limbs(h)).collect::<Vec<Value>>()}));
            let mut pairs: Vec<(Vec<u8>, Vec<u8>)> = vec![];
            for (i, a) in ss.iter().enumerate() {
                let mut b = a.clone();
                match i % 4 {
                    1 => {
                        if let Some(l) = b.last_mut() {
                            *l ^= 1;
                        }
                    }
                    2 => b.push(b'!'),
                    3 => {
                        if !b.is_empty() {
                            b[0] ^= 1;
                        }
                    }
                    _ => {}
                }
                let b = if std::str::from_utf8(&b).is_ok() { b } else { a.clone() };
                pairs.push((a.clone(), b));
            }
            let prs: Vec<(&str, &str)> = pairs.iter().map(|(a, b)| (as_str(a), as_str(b))).collect();
            let pj: Vec<Value> = pairs.iter().map(|(a, b)| json!([bytes_json(a), bytes_json(b)])).collect();
            cx.case("equal_bulk", json!({"pairs": pj}), json!({"cnt": cnt}), &one, cnt, cnt > 0, &mut |_, _, _, _, _| json!({"r": p.compare_bulk_bmi2(&prs)}));
        }
    }
}

// ------------------------------------------------------------------ string::unicode

fn fam_unicode(cx: &mut Cx) {
    let one = [(Pl::A(0), Pl::A(0))];
    let mut rng0 = cx.rng.derive("unicode-inputs");
    let cnt = if cx.thorough { 600 } else { 120 };
    let mut valid: Vec<Vec<u8>> = vec![vec![], b"a".to_vec(), "\u{7f}\u{80}\u{9f}\u{a0}\t\n\r\u{b}".as_bytes().to_vec(), "\u{ff}\u{100}\u{17ff}\u{1800}".as_bytes().to_vec()];
    let mut any: Vec<Vec<u8>> = vec![];
    for i in 0..cnt {
        let t = random_text(&mut rng0, if i % 3 == 0 { 12 } else { 80 });
        valid.push(t.clone());
        any.push(t.clone());
        let mut d = t;
        if !d.is_empty() {
            match i % 3 {
                0 => {
                    let p = rng0.below(d.len() as u64) as usize;
                    d[p] = [0x80u8, 0xC0, 0xED, 0xF5, 0xFF][rng0.below(5) as usize];
                }
                1 => {
                    let c = rng0.below(d.len() as u64) as usize;
                    d.truncate(c);
                }
                _ => d.push([0xC2u8, 0xE0, 0xF0, 0x80][rng0.below(4) as usize]),
            }
            any.push(d);
        }
    }
    if cx.subject("unicode:utf8_byte_count", "unicode", "") {
        cx.case("lead_len", json!({}), json!({}), &one, 256, true, &mut |_, _, _, _, _| {
            json!({"r": (0..=255u8).map(zipora::string::utf8_byte_count).collect::<Vec<usize>>()})
        });
    }
    if cx.subject("unicode:Utf8ToUtf32Iterator", "unicode", "") {
        for t in any.iter() {
            let pls = cx.pls1();
            cx.case("utf8_iter", json!({"s": bytes_json(t)}), json!({"len": t.len()}), &pls, 1, !t.is_empty(), &mut |a1, _, ps, _, _| {
                let buf = a1.place(ps, t);
                match Utf8ToUtf32Iterator::new(buf) {
                    Err(_) => json!({"ok": false, "fwd": [], "cur": [], "pos": [], "bwd": [], "bpos": []}),
                    Ok(mut it) => {
                        let (mut fwd, mut pos, mut bwd, mut bpos) = (vec![], vec![], vec![], vec![]);
                        let mut cur: Vec<i64> = vec![];
                        for _ in 0..t.len() + 2 {
                            match it.next_char() {
                                Some(c) => {
                                    fwd.push(c as u32);
                                    cur.push(it.current().map(|x| x as i64).unwrap_or(-1));
                                    pos.push(it.byte_position());
                                }
                                None => break,
                            }
                        }
                        for _ in 0..t.len() + 2 {
                            match it.prev_char() {
                                Some(c) => {
                                    bwd.push(c as u32);
                                    bpos.push(it.byte_position());
                                }
                                None => break,
                            }
                        }
                        json!({"ok": true, "fwd": fwd, "cur": cur, "pos": pos, "bwd": bwd, "bpos": bpos})
                    }
                }
            });
        }
    }
    if cx.subject("unicode:analyze", "unicode", "") {
        let up = UnicodeProcessor::new();
        for t in valid.iter() {
            let pls = cx.pls1();
            cx.case("utf8_analyze", json!({"s": bytes_json(t)}), json!({"len": t.len()}), &pls, 1, !t.is_empty(), &mut |a1, _, ps, _, _| {
                let a = up.analyze(as_str(a1.place(ps, t)));
                json!({"bytes": a.byte_count, "chars": a.char_count, "ascii": a.ascii_count, "basic": a.basic_latin, "lat1": a.latin_supplement,
                       "ext": a.extended_latin, "other": a.other_unicode, "control": a.control_count, "isascii": a.is_ascii()})
            });
        }
    }
    if cx.subject("unicode:extract_codepoints", "unicode", "") {
        for t in valid.iter() {
            let pls = cx.pls1();
            cx.case("utf8_decode", json!({"s": bytes_json(t)}), json!({"len": t.len()}), &pls, 1, !t.is_empty(), &mut |a1, _, ps, _, _| {
                json!({"ok": true, "r": zipora::string::utils::unicode_utils::extract_codepoints(as_str(a1.place(ps, t)))})
            });
            cx.case("printable", json!({"s": bytes_json(t)}), json!({"len": t.len()}), &pls, 1, !t.is_empty(), &mut |a1, _, ps, _, _| {
                json!({"r": zipora::string::utils::unicode_utils::is_printable(as_str(a1.place(ps, t)))})
            });
        }
    }
}

// ------------------------------------------------------------------ hex nibbles

fn hex_extras(cx: &mut Cx) {
    use zipora::string as zs;
    let one = [(Pl::A(0), Pl::A(0))];
    if !cx.subject("hex:nibbles", "hex", "nibble") {
        return;
    }
    cx.case("hexnibble", json!({}), json!({}), &one, 256, true, &mut |_, _, _, _, _| {
        json!({"r": (0..=255u8).map(|c| zs::hex_char_to_nibble(c).map(|v| v as i64).unwrap_or(-1)).collect::<Vec<i64>>()})
    });
    cx.case("hexdigit", json!({"upper": false}), json!({}), &one, 16, true, &mut |_, _, _, _, _| {
        json!({"r": (0..16u8).map(zs::nibble_to_hex_lower).collect::<Vec<u8>>()})
    });
    cx.case("hexdigit", json!({"upper": true}), json!({}), &one, 16, true, &mut |_, _, _, _, _| {
        json!({"r": (0..16u8).map(zs::nibble_to_hex_upper).collect::<Vec<u8>>()})
    });
    let all: Vec<u8> = (0..=255u8).collect();
    let few: Vec<u8> = vec![b'0', b'9', b'a', b'f', b'A', b'F', b'/', b':', b'@', b'G', b'`', b'g', 0, 0xFF];
    for (his, los) in [(all.clone(), few.clone()), (few.clone(), all.clone())] {
        cx.case("hexbyte", json!({"his": bytes_json(&his), "los": bytes_json(&los)}), json!({}), &one, his.len() * los.len(), true, &mut |_, _, _, _, _| {
            let mut r: Vec<i64> = Vec::with_capacity(his.len() * los.len());
            for &h in his.iter() {
                for &l in los.iter() {
                    r.push(zs::parse_hex_byte(h, l).map(|v| v as i64).unwrap_or(-1));
                }
            }
            json!({"r": r})
        });
    }
}

// ------------------------------------------------------------------ bit fields of entropy::bit_ops

fn bit_extras(cx: &mut Cx) {
    let one = [(Pl::A(0), Pl::A(0))];
    let mut rng = cx.rng.derive("bitfields");
    let ws: Vec<u64> = vec![0, u64::MAX, 1, 1u64 << 63, 0x8000_0000, 0xFFFF_FFFF, 0x0123_4567_89AB_CDEF, 0xAAAA_AAAA_5555_5555, rng.next(), rng.next(), rng.next()];
    let masks: Vec<u64> = vec![0, u64::MAX, 0xFFFF_FFFF, 0xFFFF_FFFF_0000_0000, 0x5555_5555_5555_5555, 0x8000_0000_0000_0001, 0x00FF_00FF_00FF_00FF, rng.next(), rng.next() & rng.next()];
    let mut sw_vl = BitOpsConfig::default();
    sw_vl.enable_variable_length_decoding = false;
    let mut sw_ent = BitOpsConfig::default();
    sw_ent.enable_entropy_acceleration = false;
    sw_ent.enable_compression_optimizations = false;
    let subjects: Vec<(&'static str, BitOps)> = vec![("bitfields@hw", BitOps::new()), ("bitfields@sw", BitOps::with_config(sw_config())),
                                                     ("bitfields@novl", BitOps::with_config(sw_vl.clone())), ("bitfields@noentropy", BitOps::with_config(sw_ent.clone()))];
    for (name, b) in subjects {
        if !cx.subject(name, "bits", "fields") {
            continue;
        }
        for &x in ws.iter() {
            for start in [0u32, 1, 15, 31, 32, 33, 47, 60, 63] {
                for n in [0u32, 1, 4, 8, 16, 31, 32, 33] {
                    if !cx.thorough && (start + n) % 3 == 1 {
                        continue;
                    }
                    cx.case("bitfield", json!({"x": limbs(x), "start": start, "n": n, "api": "decode_variable_length_bmi2"}), json!({}), &one, 1, true,
                            &mut |_, _, _, _, _| match b.decode_variable_length_bmi2(x, start, n) {
                        Ok(v) => json!({"ok": true, "r": limbs(v as u64)}),
                        Err(_) => json!({"ok": false, "r": limbs(0)}),
                    });
                }
            }
            for n in [0u32, 1, 7, 8, 16, 31, 32, 33, 64] {
                let v = x as u32;
                cx.case("encfield", json!({"x": limbs(v as u64), "n": n}), json!({}), &one, 1, true, &mut |_, _, _, _, _| match b.encode_variable_length_bmi2(v, n) {
                    Ok(r) => json!({"ok": true, "r": limbs(r)}),
                    Err(_) => json!({"ok": false, "r": limbs(0)}),
                });
            }
            let (lo, hi) = (x as u32, (x >> 32) as u32);
            cx.case("interleave", json!({"lo": limbs(lo as u64), "hi": limbs(hi as u64)}), json!({}), &one, 1, true,
                    &mut |_, _, _, _, _| json!({"r": limbs(b.bit_interleaving_bmi2(lo, hi))}));
            // twins of pdep / pext
            for &m in masks.iter().step_by(2) {
                cx.case("pdep", json!({"w": 64, "x": limbs(x), "m": limbs(m), "api": "pdep_u64"}), json!({}), &one, 1, true,
                        &mut |_, _, _, _, _| json!({"r": limbs(b.pdep_u64(x, m))}));
                cx.case("pext", json!({"w": 64, "x": limbs(x), "m": limbs(m), "api": "pext_u64"}), json!({}), &one, 1, true,
                        &mut |_, _, _, _, _| json!({"r": limbs(b.pext_u64(x, m))}));
            }
            // lists of masks: one parallel extract each (one mask, several, and none)
            for ms in [masks.clone(), masks[..1].to_vec(), masks[3..5].to_vec()] {
                let mj: Vec<Value> = ms.iter().map(|&m| limbs(m)).collect();
                cx.case("pext_list", json!({"x": limbs(x), "ms": mj, "w32": false, "add": limbs(0), "api": "parallel_bit_extract_bmi2"}), json!({}), &one, ms.len(), true,
                        &mut |_, _, _, _, _| json!({"r": b.parallel_bit_extract_bmi2(x, &ms).iter().map(|&v| limbs(v)).collect::<Vec<Value>>()}));
                cx.case("pext_list", json!({"x": limbs(x), "ms": mj, "w32": true, "add": limbs(0), "api": "extract_huffman_symbols_bmi2"}), json!({}), &one, ms.len(), true,
                        &mut |_, _, _, _, _| json!({"r": b.extract_huffman_symbols_bmi2(x, &ms).iter().map(|&v| limbs(v as u64)).collect::<Vec<Value>>()}));
            }
            for &m in masks.iter() {
                cx.case("pext_list", json!({"x": limbs(x), "ms": [limbs(m)], "w32": true, "add": limbs(0), "api": "decode_rans_symbols_bmi2"}), json!({}), &one, 1, true,
                        &mut |_, _, _, _, _| json!({"r": [limbs(b.decode_rans_symbols_bmi2(x, m) as u64)]}));
                let off = (x >> 7) as u32 | 0x8000_0000;
                cx.case("pext_list", json!({"x": limbs(x), "ms": [limbs(m)], "w32": true, "add": limbs(off as u64), "api": "fse_decode_bmi2"}), json!({}), &one, 1, true,
                        &mut |_, _, _, _, _| json!({"r": [limbs(b.fse_decode_bmi2(x, m, off) as u64)]}));
            }
        }
        // vectorized popcount: below / at / above its 4-word threshold, with remainders
        for cnt in [0usize, 1, 3, 4, 5, 7, 8, 9] {
            let xs: Vec<u64> = (0..cnt).map(|i| ws[(i * 3 + cnt) % ws.len()]).collect();
            cx.case("popcount", json!({"w": 64, "xs": xs.iter().map(|&x| limbs(x)).collect::<Vec<Value>>(), "api": "vectorized_popcount"}), json!({}), &one, cnt, cnt > 0,
                    &mut |_, _, _, _, _| json!({"r": b.vectorized_popcount(&xs)}));
        }
    }
    // an empty mask list (the hardware route indexes the first mask)
    if cx.subject("bitfields@hw:empty_masks", "bits", "fields") {
        let b = BitOps::new();
        cx.case("pext_list", json!({"x": limbs(5), "ms": [], "w32": false, "add": limbs(0), "api": "parallel_bit_extract_bmi2"}), json!({}), &one, 1, true,
                &mut |_, _, _, _, _| json!({"r": b.parallel_bit_extract_bmi2(5, &[]).iter().map(|&v| limbs(v)).collect::<Vec<Value>>()}));
    }
    let disp: Vec<(&'static str, CompressionBmi2Dispatcher)> = vec![
        ("bitdispatch@hw", CompressionBmi2Dispatcher::new()),
        ("bitdispatch@sw", CompressionBmi2Dispatcher::with_config({
            let mut c = sw_ent.clone();
            c.enable_variable_length_decoding = false;
            c
        })),
    ];
    for (name, d) in disp {
        if !cx.subject(name, "bits", "dispatch") {
            continue;
        }
        for &x in ws.iter() {
            for start in [0u32, 1, 31, 32, 33, 63] {
                for n in [1u32, 8, 31, 32] {
                    cx.case("bitfield", json!({"x": limbs(x), "start": start, "n": n, "api": "dispatch_entropy_extract"}), json!({}), &one, 1, true,
                            &mut |_, _, _, _, _| json!({"ok": true, "r": limbs(d.dispatch_entropy_extract(x, start, n) as u64)}));
                }
            }
            let mj: Vec<Value> = masks.iter().map(|&m| limbs(m)).collect();
            cx.case("pext_list", json!({"x": limbs(x), "ms": mj, "w32": true, "add": limbs(0), "api": "dispatch_variable_length_decode"}), json!({}), &one, masks.len(), true,
                    &mut |_, _, _, _, _| json!({"r": d.dispatch_variable_length_decode(x, &masks).iter().map(|&v| limbs(v as u64)).collect::<Vec<Value>>()}));
        }
        for (kind, op) in [("popcount", CompressionOperation::PopCount), ("lz", CompressionOperation::LeadingZeros),
                           ("tz", CompressionOperation::TrailingZeros), ("reverse", CompressionOperation::BitReverse)] {
            let xj: Vec<Value> = ws.iter().map(|&x| limbs(x)).collect();
            cx.case("wordmap", json!({"kind": kind, "xs": xj}), json!({}), &one, ws.len(), true, &mut |_, _, _, _, _| {
                let r = d.dispatch_bit_stream_process(&ws, op);
                if kind == "reverse" {
                    json!({"r": r.iter().map(|&v| limbs(v)).collect::<Vec<Value>>()})
                } else {
                    json!({"r": r})
                }
            });
        }
    }
}

// ------------------------------------------------------------------ prefetch (must neither fault nor touch memory),
// cache layout presets, global accessors

fn mem_extras(cx: &mut Cx) {
    use zipora::memory::cache_layout::PrefetchHint;
    let presets: Vec<(&'static str, CacheLayoutConfig)> = vec![
        ("memops@sequential", CacheLayoutConfig::sequential()), ("memops@random", CacheLayoutConfig::random()),
        ("memops@write_heavy", CacheLayoutConfig::write_heavy()), ("memops@read_heavy", CacheLayoutConfig::read_heavy()),
    ];
    for (name, cfg) in presets {
        if !cx.subject(name, "copy", "preset") {
            continue;
        }
        let m = SimdMemOps::with_cache_config(cfg.clone());
        let dist = m.cache_config().prefetch_distance;
        let line = m.cache_config().cache_line_size;
        let mut rng = cx.rng.derive(name);
        let mut lens: Vec<usize> = vec![0, 1, 63, 64, 65, 255, 256, 257, 4095, 4096, 4097];
        for t in [dist, line] {
            if t > 0 && t < 5000 {
                lens.extend([t - 1, t, t + 1]);
            }
        }
        lens.sort();
        lens.dedup();
        for &n in lens.iter() {
            let src = content("random", n, &mut rng);
            let pls = cx.pls2();
            cx.case("copy", json!({"src": bytes_json(&src), "dlen": n, "init": INIT, "can": CAN, "class": "random", "api": "copy_cache_optimized"}),
                    json!({"len": n}), &pls, 1, n > 0, &mut |a1, a2, ps, pd, _| {
                let s = a1.place(ps, &src);
                let d = a2.place(pd, &vec![INIT; n]);
                let ok = m.copy_cache_optimized(s, d).is_ok();
                let (pre, post) = a2.margins(pd, n);
                json!({"ok": ok, "out": bytes_json(d), "pre": pre, "post": post})
            });
            // compare: equal, and differing in the first / middle / last byte
            for (k, p) in [None, Some(0usize), Some(n / 2), Some(n.saturating_sub(1))].into_iter().enumerate() {
                if n == 0 && k > 0 {
                    continue;
                }
                let mut b = src.clone();
                if let Some(p) = p {
                    b[p] = b[p].wrapping_add(128);
                }
                cx.case("compare", json!({"a": bytes_json(&src), "b": bytes_json(&b), "class": "random", "api": "compare_cache_optimized"}),
                        json!({"la": n, "lb": n}), &pls, 1, n > 0, &mut |a1, a2, ps, pd, _| {
                    let pa = a1.place(ps, &src);
                    let pb = a2.place(pd, &b);
                    json!({"r": sign(m.compare_cache_optimized(pa, pb))})
                });
            }
        }
    }
    if cx.subject("memops:prefetch", "copy", "prefetch") {
        let m = SimdMemOps::new();
        let mut rng = cx.rng.derive("prefetch");
        for &n in [0usize, 1, 63, 64, 65, 255, 256, 257, 1000, 4097].iter() {
            let src = content("random", n, &mut rng);
            for api in ["prefetch_range", "fast_prefetch_range", "prefetch", "fast_prefetch"] {
                let pls = cx.pls1();
                cx.case("copy", json!({"src": bytes_json(&src), "dlen": n, "init": INIT, "can": CAN, "class": "random", "api": api}),
                        json!({"len": n, "api": api}), &pls, 1, n > 0, &mut |_, a2, _, pd, _| {
                    // the buffer is its own "destination": prefetching must leave it and its margins as they are
                    let d = a2.place(pd, &src);
                    match api {
                        "prefetch_range" => m.prefetch_range(d),
                        "fast_prefetch_range" => mops::fast_prefetch_range(d),
                        "prefetch" => {
                            for h in [PrefetchHint::T0, PrefetchHint::T1, PrefetchHint::T2, PrefetchHint::NTA] {
                                m.prefetch(d.as_ptr(), h);
                                m.prefetch(unsafe { d.as_ptr().add(n) }, h);
                            }
                        }
                        _ => mops::fast_prefetch(&d[..], PrefetchHint::T0),
                    }
                    let (pre, post) = a2.margins(pd, n);
                    json!({"ok": true, "out": bytes_json(d), "pre": pre, "post": post})
                });
            }
        }
    }
}

/// global accessors: the instance behind the convenience functions, called directly
fn accessor_twins(cx: &mut Cx) {
    if cx.subject("strsearch@global_instance", "find_byte", "") {
        let g = zipora::string::get_global_simd_search();
        let mut rng = cx.rng.derive("gi");
        for &n in [0usize, 15, 16, 17, 33, 64, 65].iter() {
            let h: Vec<u8> = (0..n).map(|_| [0u8, 0x7F, 0x80, 0xFF][rng.below(4) as usize]).collect();
            for c in [0u8, 0x80] {
                let pls = cx.pls1();
                cx.case("find_byte", json!({"h": bytes_json(&h), "c": c}), json!({"len": n, "c": c}), &pls, 1, n > 0, &mut |a1, _, ps, _, _| {
                    json!({"r": optu(g.sse42_strchr(a1.place(ps, &h), c))})
                });
            }
        }
    }
    if cx.subject("ioutf8@global_instance", "utf8", "") {
        let g = ioutf8::get_global_validator();
        let mut rng = cx.rng.derive("gv");
        for i in 0..40 {
            let mut t = random_text(&mut rng, 80);
            if i % 2 == 1 && !t.is_empty() {
                let p = rng.below(t.len() as u64) as usize;
                t[p] = 0xC0;
            }
            let pls = cx.pls1();
            cx.case("utf8", json!({"s": bytes_json(&t)}), json!({"len": t.len()}), &pls, 1, !t.is_empty(), &mut |a1, _, ps, _, _| {
                json!({"r": g.validate_utf8(a1.place(ps, &t)).unwrap_or(false)})
            });
        }
    }
    if cx.subject("bmi2@global_instance", "utf8", "") {
        let g = zipora::string::get_global_bmi2_processor();
        let mut rng = cx.rng.derive("gb");
        for i in 0..40 {
            let mut t = random_text(&mut rng, 40);
            if i % 2 == 1 && !t.is_empty() {
                let p = rng.below(t.len() as u64) as usize;
                t[p] = 0xED;
            }
            let pls = cx.pls1();
            cx.case("utf8", json!({"s": bytes_json(&t)}), json!({"len": t.len()}), &pls, 1, !t.is_empty(), &mut |a1, _, ps, _, _| {
                json!({"r": g.validate_utf8_bmi2(a1.place(ps, &t))})
            });
        }
    }
}
