// ------------------------------------------------------------------ bit manipulation

use zipora::entropy::{BitOps, BitOpsConfig, EntropyBitOps};

fn sw_config() -> BitOpsConfig {
    let mut c = BitOpsConfig::default();
    c.enable_bmi2 = false;
    c.enable_avx2 = false;
    c.enable_popcnt = false;
    c.software_fallback = true;
    c
}

fn words(rng: &mut Rng, thorough: bool) -> Vec<u64> {
    let mut v: Vec<u64> = vec![0, 1, u64::MAX, 0x8000_0000_0000_0000, 0x5555_5555_5555_5555, 0xAAAA_AAAA_AAAA_AAAA,
                               0x0000_0000_FFFF_FFFF, 0xFFFF_FFFF_0000_0000, 0x0123_4567_89AB_CDEF, 0x8000_0000, 0xFFFF_FFFF, 0x7FFF_FFFF];
    for i in (0..64).step_by(if thorough { 1 } else { 5 }) {
        v.push(1u64 << i);
        v.push(!(1u64 << i));
        v.push(u64::MAX << i);
        v.push((0xFFu64) << (i.min(56)));
    }
    for _ in 0..(if thorough { 200 } else { 40 }) {
        v.push(rng.next());
        v.push(rng.next() & rng.next() & rng.next());
    }
    v.sort_unstable();
    v.dedup();
    v
}

fn fam_bits(cx: &mut Cx) {
    let mut rng = cx.rng.derive("bits");
    let ws = words(&mut rng, cx.thorough);
    let masks: Vec<u64> = vec![0, u64::MAX, 0x5555_5555_5555_5555, 0xAAAA_AAAA_AAAA_AAAA, 0x0000_FFFF_0000_FFFF, 0x8000_0000_0000_0001,
                               0x00FF_0000_0000_FF00, 0xFFFF_FFFF, 0xF0F0_F0F0, rng.next(), rng.next() & rng.next(), rng.next() | rng.next()];
    let one = [(Pl::A(0), Pl::A(0))];
    let subjects: Vec<(&'static str, BitOps)> = vec![("bitops@hw", BitOps::new()), ("bitops@sw", BitOps::with_config(sw_config()))];
    for (name, b) in subjects {
        if !cx.subject(name, "bits", if name.ends_with("hw") { "hw" } else { "sw" }) {
            continue;
        }
        // popcount, batches of 16 words
        for ch in ws.chunks(16) {
            let xs: Vec<Value> = ch.iter().map(|&x| limbs(x)).collect();
            cx.case("popcount", json!({"w": 64, "xs": xs, "api": "popcount64"}), json!({}), &one, ch.len(), true,
                    &mut |_, _, _, _, _| json!({"r": ch.iter().map(|&x| b.popcount64(x)).collect::<Vec<u32>>()}));
            cx.case("popcount", json!({"w": 64, "xs": xs, "api": "vectorized_popcount"}), json!({}), &one, ch.len(), true,
                    &mut |_, _, _, _, _| json!({"r": b.vectorized_popcount(ch)}));
            let xs32: Vec<Value> = ch.iter().map(|&x| limbs(x & 0xFFFF_FFFF)).collect();
            cx.case("popcount", json!({"w": 32, "xs": xs32, "api": "popcount32"}), json!({}), &one, ch.len(), true,
                    &mut |_, _, _, _, _| json!({"r": ch.iter().map(|&x| b.popcount32(x as u32)).collect::<Vec<u32>>()}));
        }
        for (i, &x) in ws.iter().enumerate() {
            let x32 = x as u32;
            // select: every k up to and including the popcount (which must be refused)
            cx.case("select_all", json!({"w": 64, "x": limbs(x)}), json!({}), &one, x.count_ones() as usize + 1, true, &mut |_, _, _, _, _| {
                let mut r: Vec<i64> = vec![];
                let mut k = 0u32;
                loop {
                    match b.select_bit64(x, k) {
                        Some(p) => r.push(p as i64),
                        None => {
                            r.push(-1);
                            break;
                        }
                    }
                    k += 1;
                    if k > 70 {
                        break;
                    }
                }
                json!({"r": r})
            });
            cx.case("select_all", json!({"w": 32, "x": limbs(x32 as u64)}), json!({}), &one, x32.count_ones() as usize + 1, true, &mut |_, _, _, _, _| {
                let mut r: Vec<i64> = vec![];
                let mut k = 0u32;
                loop {
                    match b.select_bit32(x32, k) {
                        Some(p) => r.push(p as i64),
                        None => {
                            r.push(-1);
                            break;
                        }
                    }
                    k += 1;
                    if k > 40 {
                        break;
                    }
                }
                json!({"r": r})
            });
            cx.case("tz", json!({"w": 64, "x": limbs(x)}), json!({}), &one, 1, true, &mut |_, _, _, _, _| json!({"r": b.trailing_zeros64(x)}));
            cx.case("tz", json!({"w": 32, "x": limbs(x32 as u64)}), json!({}), &one, 1, true, &mut |_, _, _, _, _| json!({"r": b.trailing_zeros32(x32)}));
            cx.case("bitrev", json!({"w": 64, "x": limbs(x), "api": "reverse_bits64"}), json!({}), &one, 1, true,
                    &mut |_, _, _, _, _| json!({"r": limbs(b.reverse_bits64(x))}));
            cx.case("bitrev", json!({"w": 64, "x": limbs(x), "api": "bit_reverse_bmi2"}), json!({}), &one, 1, true,
                    &mut |_, _, _, _, _| json!({"r": limbs(b.bit_reverse_bmi2(x))}));
            cx.case("bitrev", json!({"w": 32, "x": limbs(x32 as u64), "api": "reverse_bits32"}), json!({}), &one, 1, true,
                    &mut |_, _, _, _, _| json!({"r": limbs(b.reverse_bits32(x32) as u64)}));
            for (j, &m) in masks.iter().enumerate() {
                if !cx.thorough && (i + j) % 3 != 0 {
                    continue;
                }
                let m32 = m as u32;
                cx.case("pdep", json!({"w": 64, "x": limbs(x), "m": limbs(m)}), json!({}), &one, 1, true,
                        &mut |_, _, _, _, _| json!({"r": limbs(b.parallel_deposit64(x, m))}));
                cx.case("pext", json!({"w": 64, "x": limbs(x), "m": limbs(m)}), json!({}), &one, 1, true,
                        &mut |_, _, _, _, _| json!({"r": limbs(b.parallel_extract64(x, m))}));
                cx.case("pdep", json!({"w": 32, "x": limbs(x32 as u64), "m": limbs(m32 as u64)}), json!({}), &one, 1, true,
                        &mut |_, _, _, _, _| json!({"r": limbs(b.parallel_deposit32(x32, m32) as u64)}));
                cx.case("pext", json!({"w": 32, "x": limbs(x32 as u64), "m": limbs(m32 as u64)}), json!({}), &one, 1, true,
                        &mut |_, _, _, _, _| json!({"r": limbs(b.parallel_extract32(x32, m32) as u64)}));
            }
            if i % 4 == 0 || cx.thorough {
                for n in [0u32, 1, 15, 16, 31, 32, 33, 63, 64, 65, 255, 256, 300] {
                    cx.case("bzhi", json!({"w": 64, "x": limbs(x), "n": n}), json!({}), &one, 1, true,
                            &mut |_, _, _, _, _| json!({"r": limbs(b.zero_high_bits64(x, n))}));
                    cx.case("bzhi", json!({"w": 32, "x": limbs(x32 as u64), "n": n}), json!({}), &one, 1, true,
                            &mut |_, _, _, _, _| json!({"r": limbs(b.zero_high_bits32(x32, n) as u64)}));
                }
            }
        }
    }
    let subjects: Vec<(&'static str, EntropyBitOps)> = vec![("entropybits@hw", EntropyBitOps::new()), ("entropybits@sw", EntropyBitOps::with_config(sw_config()))];
    for (name, b) in subjects {
        if !cx.subject(name, "bits", "reverse") {
            continue;
        }
        for &x in ws.iter() {
            let x32 = x as u32;
            cx.case("bitrev", json!({"w": 32, "x": limbs(x32 as u64), "api": "EntropyBitOps::reverse_bits32"}), json!({}), &one, 1, true,
                    &mut |_, _, _, _, _| json!({"r": limbs(b.reverse_bits32(x32) as u64)}));
            let y32 = (x >> 32) as u32;
            cx.case("bitrev", json!({"w": 32, "x": limbs(y32 as u64), "api": "EntropyBitOps::reverse_bits32"}), json!({}), &one, 1, true,
                    &mut |_, _, _, _, _| json!({"r": limbs(b.reverse_bits32(y32) as u64)}));
        }
    }
}

// ------------------------------------------------------------------ string hash / prefix of the hash map

fn fam_hash(cx: &mut Cx) {
    let ops = zipora::hash_map::SimdStringOps::new();
    let mut lens: Vec<usize> = (0..=72).collect();
    lens.extend([95, 96, 97, 103, 104, 127, 128, 129, 130]);
    if cx.subject("hashmap:fast_string_hash", "hash", "") {
        let mut rng = cx.rng.derive("hash");
        for &n in lens.iter() {
            for base in [0u64, 1, u64::MAX, 0x8000_0000_0000_0000, 0xcbf29ce484222325, rng.next()] {
                let s = content("ascii", n, &mut rng);
                let pls = cx.pls1();
                cx.case("strhash", json!({"s": bytes_json(&s), "base": limbs(base)}), json!({"len": n}), &pls, 1, n > 0, &mut |a1, _, ps, _, _| {
                    let b = a1.place(ps, &s);
                    json!({"r": limbs(ops.fast_string_hash(as_str(b), base))})
                });
            }
        }
    }
    if cx.subject("hashmap:extract_prefix_simd", "hash", "prefix") {
        let mut rng = cx.rng.derive("prefix");
        for &n in lens.iter() {
            let s: Vec<u8> = (0..n).map(|_| 0x21 + rng.below(0x5E) as u8).collect();
            let pls = cx.pls1();
            cx.case("prefix8", json!({"s": bytes_json(&s)}), json!({"len": n}), &pls, 1, n > 0, &mut |a1, _, ps, _, _| {
                let b = a1.place(ps, &s);
                json!({"r": limbs(ops.extract_prefix_simd(as_str(b)))})
            });
        }
    }
}
