// ------------------------------------------------------------------ copy / fill

use zipora::io::simd_memory as iomem;
use zipora::io::simd_memory::search as iosearch;
use zipora::memory::cache_layout::CacheLayoutConfig;
use zipora::memory::simd_ops as mops;
use zipora::memory::SimdMemOps;

type CopyFn = Box<dyn Fn(&[u8], &mut [u8]) -> bool>;
type FillFn = Box<dyn Fn(&mut [u8], u8)>;
type CmpFn = Box<dyn Fn(&[u8], &[u8]) -> i32>;
type EqFn = Box<dyn Fn(&[u8], &[u8]) -> bool>;
type FindFn = Box<dyn Fn(&[u8], u8) -> Option<usize>>;

fn noprefetch() -> SimdMemOps {
    let mut c = CacheLayoutConfig::new();
    c.enable_prefetch = false;
    SimdMemOps::with_cache_config(c)
}

fn copy_subjects() -> Vec<(&'static str, CopyFn)> {
    let (m1, m2, m3, m4) = (SimdMemOps::new(), SimdMemOps::new(), SimdMemOps::new(), noprefetch());
    vec![
        ("memops:copy_nonoverlapping", Box::new(move |s, d| m1.copy_nonoverlapping(s, d).is_ok())),
        ("memops:copy_aligned", Box::new(move |s, d| m2.copy_aligned(s, d).is_ok())),
        ("memops:copy_cache_optimized", Box::new(move |s, d| m3.copy_cache_optimized(s, d).is_ok())),
        ("memops@noprefetch:copy_cache_optimized", Box::new(move |s, d| m4.copy_cache_optimized(s, d).is_ok())),
        ("fast:fast_copy", Box::new(|s, d| mops::fast_copy(s, d).is_ok())),
        ("fast:fast_copy_cache_optimized", Box::new(|s, d| mops::fast_copy_cache_optimized(s, d).is_ok())),
        ("iomem:copy_large_simd", Box::new(|s, d| iomem::copy_large_simd(d, s).is_ok())),
        ("iomem:copy_small_simd", Box::new(|s, d| iomem::copy_small_simd(d, s).is_ok())),
        ("iomem:copy_aligned_simd", Box::new(|s, d| iomem::copy_aligned_simd(d, s).is_ok())),
    ]
}

fn fam_copy(cx: &mut Cx) {
    let big: Vec<usize> = if cx.thorough { vec![255, 256, 257, 511, 512, 513, 1023, 1024, 1025, 4095, 4096, 4097] } else { vec![255, 256, 257, 1024, 1025, 4095, 4096, 4097] };
    for (name, f) in copy_subjects() {
        if !cx.subject(name, "copy", "") {
            continue;
        }
        let lens = lengths(cx);
            let mut rng = cx.rng.derive(name);
        for (li, &n) in lens.iter().chain(big.iter()).enumerate() {
            let classes: Vec<&str> = if n > 130 { vec!["random"] } else { CLASSES.to_vec() };
            for class in classes {
                let src = content(class, n, &mut rng);
                let pls = cx.pls2();
                let inputs = json!({"src": bytes_json(&src), "dlen": n, "init": INIT, "can": CAN, "class": class});
                let small = json!({"len": n, "class": class});
                cx.case("copy", inputs, small, &pls, 1, n > 0, &mut |a1, a2, ps, pd, _| {
                    let s = a1.place(ps, &src);
                    let d = a2.place(pd, &vec![INIT; n]);
                    let ok = f(s, d);
                    let (pre, post) = a2.margins(pd, n);
                    json!({"ok": ok, "out": bytes_json(d), "pre": pre, "post": post})
                });
            }
            // destination of another length: must be refused, destination untouched
            if li % 4 == 1 && n > 0 {
                for dl in [n - 1, n + 1] {
                    let src = content("ramp", n, &mut rng);
                    let inputs = json!({"src": bytes_json(&src), "dlen": dl, "init": INIT, "can": CAN, "class": "ramp"});
                    cx.case("copy", inputs, json!({"len": n, "dlen": dl}), &[(Pl::G, Pl::G), (Pl::A(1), Pl::A(7))], 1, true,
                            &mut |a1, a2, ps, pd, _| {
                        let s = a1.place(ps, &src);
                        let d = a2.place(pd, &vec![INIT; dl]);
                        let ok = f(s, d);
                        let (pre, post) = a2.margins(pd, dl);
                        json!({"ok": ok, "out": bytes_json(d), "pre": pre, "post": post})
                    });
                }
            }
        }
    }
    let (m1,) = (SimdMemOps::new(),);
    let fills: Vec<(&'static str, FillFn)> = vec![
        ("memops:fill", Box::new(move |d, v| m1.fill(d, v))),
        ("fast:fast_fill", Box::new(|d, v| mops::fast_fill(d, v))),
    ];
    for (name, f) in fills {
        if !cx.subject(name, "fill", "") {
            continue;
        }
        let lens = lengths(cx);
            for &n in lens.iter().chain(big.iter()) {
            for v in [0u8, 0xFF, 0x80, 0x5B] {
                let pls = cx.pls1();
                let pls: Vec<(Pl, Pl)> = pls.iter().map(|&(_, b)| (Pl::A(0), b)).collect();
                cx.case("fill", json!({"n": n, "v": v, "can": CAN}), json!({"len": n, "v": v}), &pls, 1, n > 0,
                        &mut |_, a2, _, pd, _| {
                    let d = a2.place(pd, &vec![INIT; n]);
                    f(d, v);
                    let (pre, post) = a2.margins(pd, n);
                    json!({"out": bytes_json(d), "pre": pre, "post": post})
                });
            }
        }
    }
}

// ------------------------------------------------------------------ compare / equal

fn io_search(sse42: bool, avx2: bool, avx512: bool) -> iosearch::SimdStringSearch {
    iosearch::SimdStringSearch::with_config(iosearch::SearchConfig { enable_sse42: sse42, enable_avx2: avx2, enable_avx512: avx512, enable_neon: true })
}

fn compare_subjects() -> Vec<(&'static str, CmpFn)> {
    let (m1, m2, m3) = (SimdMemOps::new(), SimdMemOps::new(), noprefetch());
    let (s_def, s_sse, s_sca) = (iosearch::SimdStringSearch::new(), io_search(true, false, false), io_search(false, false, false));
    let inst = zipora::string::SimdStringSearch::new();
    vec![
        ("memops:compare", Box::new(move |a, b| sign(m1.compare(a, b)))),
        ("memops:compare_cache_optimized", Box::new(move |a, b| sign(m2.compare_cache_optimized(a, b)))),
        ("memops@noprefetch:compare_cache_optimized", Box::new(move |a, b| sign(m3.compare_cache_optimized(a, b)))),
        ("fast:fast_compare", Box::new(|a, b| sign(mops::fast_compare(a, b)))),
        ("fast:fast_compare_cache_optimized", Box::new(|a, b| sign(mops::fast_compare_cache_optimized(a, b)))),
        ("iosearch:compare_strings", Box::new(|a, b| ord(iosearch::compare_strings(a, b)))),
        ("iosearch:sse42_strcmp", Box::new(|a, b| ord(iosearch::sse42_strcmp(a, b)))),
        ("iosearch:scalar_strcmp", Box::new(|a, b| ord(iosearch::scalar_strcmp(a, b)))),
        ("iosearch@default:compare_strings", Box::new(move |a, b| ord(s_def.compare_strings(a, b)))),
        ("iosearch@sse42:compare_strings", Box::new(move |a, b| ord(s_sse.compare_strings(a, b)))),
        ("iosearch@scalar:compare_strings", Box::new(move |a, b| ord(s_sca.compare_strings(a, b)))),
        ("strsearch:sse42_strcmp", Box::new(|a, b| ord(zipora::string::sse42_strcmp(a, b)))),
        ("strsearch@instance:sse42_strcmp", Box::new(move |a, b| ord(inst.sse42_strcmp(a, b)))),
    ]
}

fn as_str(b: &[u8]) -> &str {
    // inputs of the &str APIs are generated as ASCII / well-formed text
    std::str::from_utf8(b).expect("generator produced text")
}

fn equal_subjects() -> Vec<(&'static str, EqFn)> {
    let inst = zipora::hash_map::SimdStringOps::new();
    let inst2 = zipora::hash_map::SimdStringOps::new();
    vec![
        ("hashmap:fast_string_compare@noprefix", Box::new(move |a, b| inst.fast_string_compare(as_str(a), as_str(b), 0))),
        ("hashmap:fast_string_compare@prefix", Box::new(move |a, b| {
            let p = inst2.extract_prefix_simd(as_str(b));
            inst2.fast_string_compare(as_str(a), as_str(b), p)
        })),
        ("hashmap@global:fast_string_compare", Box::new(|a, b| zipora::hash_map::get_global_simd_ops().fast_string_compare(as_str(a), as_str(b), 0))),
    ]
}

fn fam_compare(cx: &mut Cx) {
    for (name, f) in compare_subjects() {
        if !cx.subject(name, "compare", "") {
            continue;
        }
        let lens = lengths(cx);
            let mut rng = cx.rng.derive(name);
        for (li, &n) in lens.iter().enumerate() {
            for (ci, class) in CLASSES.iter().enumerate() {
                let a = content(class, n, &mut rng);
                // one mutation at every position, the changed byte compared as unsigned
                if n > 0 {
                    let x = [1u8, 128, 255][(li + ci) % 3];
                    let rev = (li + ci) % 2 == 1;
                    let pls = cx.pls2();
                    cx.case("compare_mut", json!({"a": bytes_json(&a), "x": x, "rev": rev, "class": class}),
                            json!({"len": n, "class": class, "x": x, "rev": rev}), &pls, n, true, &mut |a1, a2, ps, pd, pend| {
                        let pa = a1.place(ps, &a);
                        let pb = a2.place(pd, &a);
                        let mut r = Vec::with_capacity(n);
                        for p in 0..n {
                            pend.set_p(p);
                            let old = pb[p];
                            pb[p] = old.wrapping_add(x);
                            r.push(if rev { f(pb, pa) } else { f(pa, pb) });
                            pb[p] = old;
                        }
                        json!({"r": r})
                    });
                }
                // equal contents, prefixes, extensions
                let mut others: Vec<Vec<u8>> = vec![a.clone()];
                if n > 0 {
                    others.push(a[..n - 1].to_vec());
                    others.push(a[..n / 2].to_vec());
                    others.push(vec![]);
                    let mut ext = a.clone();
                    ext.push(0);
                    others.push(ext);
                    // shorter but larger: differs inside the common part
                    let mut big = a[..n - 1].to_vec();
                    if !big.is_empty() {
                        let k = big.len() / 2;
                        big[k] = big[k].wrapping_add(128);
                        others.push(big);
                    }
                }
                for (oi, b) in others.iter().enumerate() {
                    for rev in [false, true] {
                        if rev && oi == 0 {
                            continue;
                        }
                        let (x, y) = if rev { (b, &a) } else { (&a, b) };
                        let pls = cx.pls2();
                        cx.case("compare", json!({"a": bytes_json(x), "b": bytes_json(y), "class": class}),
                                json!({"la": x.len(), "lb": y.len(), "class": class}), &pls, 1, x.len() + y.len() > 0,
                                &mut |a1, a2, ps, pd, _| {
                            let pa = a1.place(ps, x);
                            let pb = a2.place(pd, y);
                            json!({"r": f(pa, pb)})
                        });
                    }
                }
            }
        }
        // beyond the prefetch / streaming thresholds (256, 4096): equal, and one byte changed
        let bigs: Vec<usize> = if name.starts_with("memops") || name.starts_with("fast") { vec![255, 256, 257, 4095, 4096, 4097] } else { vec![255, 256, 257] };
        for &n in bigs.iter() {
            if cx.lite && n > 300 {
                continue;
            }
            let a = content("random", n, &mut rng);
            for p in [None, Some(0usize), Some(n / 2), Some(n - 2), Some(n - 1)] {
                let mut b = a.clone();
                if let Some(p) = p {
                    b[p] = b[p].wrapping_add(128);
                }
                let pls = cx.pls2();
                cx.case("compare", json!({"a": bytes_json(&a), "b": bytes_json(&b), "class": "big"}), json!({"la": n, "lb": n, "class": "big"}), &pls, 1, true,
                        &mut |a1, a2, ps, pd, _| {
                    let pa = a1.place(ps, &a);
                    let pb = a2.place(pd, &b);
                    json!({"r": f(pa, pb)})
                });
            }
        }
        // random pairs with a common prefix and different lengths
        let cnt = if cx.thorough { 600 } else { 120 };
        for _ in 0..cnt {
            let la = rng.below(131) as usize;
            let lb = rng.below(131) as usize;
            let common = rng.below(la.min(lb) as u64 + 1) as usize;
            let mut a = rng.bytes(la);
            let b0 = rng.bytes(lb);
            let mut b = b0.clone();
            b[..common].copy_from_slice(&a[..common]);
            if rng.chance(1, 3) {
                for v in a.iter_mut().chain(b.iter_mut()) {
                    *v |= 0x80;
                }
            }
            let pls = cx.pls2();
            cx.case("compare", json!({"a": bytes_json(&a), "b": bytes_json(&b), "class": "pair"}),
                    json!({"la": la, "lb": lb, "class": "pair"}), &pls, 1, true, &mut |a1, a2, ps, pd, _| {
                let pa = a1.place(ps, &a);
                let pb = a2.place(pd, &b);
                json!({"r": f(pa, pb)})
            });
        }
    }
    for (name, f) in equal_subjects() {
        if !cx.subject(name, "equal", "") {
            continue;
        }
        let lens = lengths(cx);
            let mut rng = cx.rng.derive(name);
        for (li, &n) in lens.iter().enumerate() {
            let a = content("ascii", n, &mut rng);
            if n > 0 {
                let x = [1u8, 32][li % 2];
                let pls = cx.pls2();
                cx.case("equal_mut", json!({"a": bytes_json(&a), "x": x, "class": "ascii"}), json!({"len": n, "x": x}), &pls, n, true,
                        &mut |a1, a2, ps, pd, pend| {
                    let pa = a1.place(ps, &a);
                    let pb = a2.place(pd, &a);
                    let mut r = Vec::with_capacity(n);
                    for p in 0..n {
                        pend.set_p(p);
                        let old = pb[p];
                        pb[p] = old.wrapping_add(x);
                        r.push(f(pa, pb));
                        pb[p] = old;
                    }
                    json!({"r": r})
                });
            }
            let mut others: Vec<Vec<u8>> = vec![a.clone()];
            if n > 0 {
                others.push(a[..n - 1].to_vec());
                let mut e = a.clone();
                e.push(b'z');
                others.push(e);
            }
            // well-formed text whose bytes are all >= 0x80
            let two: Vec<u8> = (0..n / 2).flat_map(|i| [0xC3u8, 0x80 + (i % 64) as u8]).collect();
            let mut two2 = two.clone();
            if let Some(l) = two2.last_mut() {
                *l = 0xBF;
            }
            for (x, y) in others.iter().map(|o| (a.clone(), o.clone())).chain([(two.clone(), two.clone()), (two.clone(), two2.clone())]) {
                let pls = cx.pls2();
                cx.case("equal", json!({"a": bytes_json(&x), "b": bytes_json(&y)}), json!({"la": x.len(), "lb": y.len()}), &pls, 1,
                        x.len() + y.len() > 0, &mut |a1, a2, ps, pd, _| {
                    let pa = a1.place(ps, &x);
                    let pb = a2.place(pd, &y);
                    json!({"r": f(pa, pb)})
                });
            }
        }
    }
}

// ------------------------------------------------------------------ byte search

fn findbyte_subjects() -> Vec<(&'static str, FindFn)> {
    let m1 = SimdMemOps::new();
    let (s_def, s_sse, s_sca) = (iosearch::SimdStringSearch::new(), io_search(true, false, false), io_search(false, false, false));
    let inst = zipora::string::SimdStringSearch::new();
    vec![
        ("memops:find_byte", Box::new(move |h, c| m1.find_byte(h, c))),
        ("fast:fast_find_byte", Box::new(|h, c| mops::fast_find_byte(h, c))),
        ("iosearch:find_char", Box::new(|h, c| iosearch::find_char(h, c))),
        ("iosearch:sse42_strchr", Box::new(|h, c| iosearch::sse42_strchr(h, c))),
        ("iosearch:scalar_strchr", Box::new(|h, c| iosearch::scalar_strchr(h, c))),
        ("iosearch@default:find_char", Box::new(move |h, c| s_def.find_char(h, c))),
        ("iosearch@sse42:find_char", Box::new(move |h, c| s_sse.find_char(h, c))),
        ("iosearch@scalar:find_char", Box::new(move |h, c| s_sca.find_char(h, c))),
        ("strsearch:sse42_strchr", Box::new(|h, c| zipora::string::sse42_strchr(h, c))),
        ("strsearch@instance:sse42_strchr", Box::new(move |h, c| inst.sse42_strchr(h, c))),
    ]
}

fn fam_findbyte(cx: &mut Cx) {
    for (name, f) in findbyte_subjects() {
        if !cx.subject(name, "find_byte", "") {
            continue;
        }
        let lens = lengths(cx);
            let mut rng = cx.rng.derive(name);
        for &n in lens.iter() {
            // (class of the haystack, needle absent from it)
            let combos: [(&str, u8); 7] = [("zeros", 0x41), ("zeros", 0x80), ("zeros", 0xFF), ("ramp", 200), ("high", 0x7F), ("high", 0), ("random", 0x80)];
            for (ci, (class, c)) in combos.into_iter().enumerate() {
                if !cx.thorough && (ci + n) % 2 == 1 {
                    continue;
                }
                let mut h = content(class, n, &mut rng);
                for v in h.iter_mut() {
                    if *v == c {
                        *v ^= 1;
                    }
                }
                let pls = cx.pls1();
                cx.case("findbyte_mut", json!({"h": bytes_json(&h), "c": c, "class": class}), json!({"len": n, "class": class, "c": c}),
                        &pls, n + 1, n > 0, &mut |a1, _, ps, _, pend| {
                    let ph = a1.place(ps, &h);
                    let mut r = Vec::with_capacity(n + 1);
                    for p in 0..n {
                        pend.set_p(p);
                        let old = ph[p];
                        ph[p] = c;
                        r.push(opti(f(ph, c)));
                        ph[p] = old;
                    }
                    pend.set_p(n);
                    r.push(opti(f(ph, c)));
                    json!({"r": r})
                });
            }
            // several occurrences: a small alphabet
            for t in 0..3u64 {
                let h: Vec<u8> = (0..n).map(|_| [0u8, 0x7F, 0x80, 0xFF][rng.below(4) as usize]).collect();
                let c = [0u8, 0x80, 0xFF][t as usize];
                let pls = cx.pls1();
                cx.case("find_byte", json!({"h": bytes_json(&h), "c": c}), json!({"len": n, "c": c}), &pls, 1, n > 0,
                        &mut |a1, _, ps, _, _| {
                    let ph = a1.place(ps, &h);
                    json!({"r": optu(f(ph, c))})
                });
            }
        }
    }
}
