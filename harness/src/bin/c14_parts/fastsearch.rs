// ------------------------------------------------------------------ fsa::fast_search (byte search engine with
// run-time strategy selection: linear / SIMD / SSE4.2 / rank-select / adaptive)

use zipora::fsa::{FastSearchConfig, FastSearchEngine, SearchStrategy};

fn fs_engine(strategy: SearchStrategy, detect: bool) -> FastSearchEngine {
    FastSearchEngine::with_config(FastSearchConfig { strategy, auto_detect_features: detect, ..Default::default() })
}

fn fam_fastsearch(cx: &mut Cx) {
    let engines: Vec<(&'static str, FastSearchEngine)> = vec![
        ("fastsearch@default", FastSearchEngine::new()),
        ("fastsearch@linear", fs_engine(SearchStrategy::Linear, true)),
        ("fastsearch@simd", fs_engine(SearchStrategy::Simd, true)),
        ("fastsearch@sse42", fs_engine(SearchStrategy::Sse42, true)),
        ("fastsearch@ranksel", fs_engine(SearchStrategy::RankSelect, true)),
        ("fastsearch@simd_nofeatures", fs_engine(SearchStrategy::Simd, false)),
        ("fastsearch@small_arrays", FastSearchEngine::with_config(FastSearchConfig::for_small_arrays())),
        ("fastsearch@performance", FastSearchEngine::with_config(FastSearchConfig::performance_optimized())),
        // adaptive with the rank-select switch out of reach: SSE4.2 up to 35 bytes, SIMD up to 128, linear beyond
        ("fastsearch@adaptive_noranksel", FastSearchEngine::with_config(FastSearchConfig { rank_select_threshold: usize::MAX, ..Default::default() })),
    ];
    for (name, engine) in engines {
        if !cx.subject(name, "fastsearch", "") {
            continue;
        }
        let lens = lengths(cx);
            let eng = std::cell::RefCell::new(engine);
        let mut rng = cx.rng.derive(name);
        // find_first switches from SIMD to linear at 1000 bytes under the rank-select strategy
        for n in [999usize, 1000, 1001] {
            let h: Vec<u8> = (0..n).map(|i| 1 + (i % 200) as u8).collect();
            for (pos, c) in [(n - 1, 0u8), (n / 2, 0xFF), (0, 0xFE)] {
                let mut hh = h.clone();
                hh[pos] = c;
                let pls = cx.pls1();
                cx.case("find_byte", json!({"h": bytes_json(&hh), "c": c, "api": "find_first"}), json!({"len": n, "c": c}), &pls, 1, true, &mut |a1, _, ps, _, _| {
                    json!({"r": optu(eng.borrow().find_first(a1.place(ps, &hh), c))})
                });
            }
            let pls = cx.pls1();
            cx.case("find_byte", json!({"h": bytes_json(&h), "c": 0, "api": "find_first"}), json!({"len": n, "c": 0}), &pls, 1, true, &mut |a1, _, ps, _, _| {
                json!({"r": optu(eng.borrow().find_first(a1.place(ps, &h), 0))})
            });
        }
        for &n in lens.iter() {
            // first occurrence: the needle planted at every position
            for (class, c) in [("zeros", 0x80u8), ("high", 0x7F), ("random", 0)] {
                let mut h = content(class, n, &mut rng);
                for v in h.iter_mut() {
                    if *v == c {
                        *v ^= 1;
                    }
                }
                let pls = cx.pls1();
                cx.case("findbyte_mut", json!({"h": bytes_json(&h), "c": c, "class": class, "api": "find_first"}),
                        json!({"len": n, "class": class, "c": c}), &pls, n + 1, n > 0, &mut |a1, _, ps, _, pend| {
                    let ph = a1.place(ps, &h);
                    let e = eng.borrow();
                    let mut r = Vec::with_capacity(n + 1);
                    for p in 0..n {
                        pend.set_p(p);
                        let old = ph[p];
                        ph[p] = c;
                        r.push(opti(e.find_first(ph, c)));
                        ph[p] = old;
                    }
                    r.push(opti(e.find_first(ph, c)));
                    json!({"r": r})
                });
            }
            // all positions / count / last, several occurrences
            for t in 0..4usize {
                let h: Vec<u8> = (0..n).map(|_| [0u8, 0x7F, 0x80, 0xFF][rng.below(4) as usize]).collect();
                let c = [0u8, 0x80, 0xFF, 0x41][t];
                let pls = cx.pls1();
                cx.case("positions", json!({"h": bytes_json(&h), "c": c}), json!({"len": n, "c": c}), &pls, 1, n > 0, &mut |a1, _, ps, _, _| {
                    let ph = a1.place(ps, &h);
                    // the engine keeps a cache between calls (history dependence is probed by the
                    // histogram case below); single questions start from a clean engine
                    eng.borrow_mut().clear_cache();
                    match eng.borrow_mut().search_byte(ph, c) {
                        Ok(v) => json!({"r": v}),
                        Err(_) => json!({"r": [-1]}),
                    }
                });
                let h2: Vec<u8> = (0..n).map(|_| [1u8, 0x7E, 0x81, 0xFE][rng.below(4) as usize]).collect();
                let c2 = [1u8, 0x81, 0xFE, 0x41][t];
                cx.case("count_byte", json!({"h": bytes_json(&h2), "c": c2}), json!({"len": n, "c": c2}), &pls, 1, n > 0, &mut |a1, _, ps, _, _| {
                    let ph = a1.place(ps, &h2);
                    eng.borrow_mut().clear_cache();
                    match eng.borrow_mut().count_byte(ph, c2) {
                        Ok(v) => json!({"r": v}),
                        Err(_) => json!({"r": -1}),
                    }
                });
                cx.case("find_last", json!({"h": bytes_json(&h), "c": c}), json!({"len": n, "c": c}), &pls, 1, n > 0, &mut |a1, _, ps, _, _| {
                    let ph = a1.place(ps, &h);
                    json!({"r": optu(eng.borrow().find_last(ph, c))})
                });
            }
            // histogram: the same buffer asked for every byte value, one after the other
            if [0usize, 1, 16, 17, 33, 47, 64, 65, 130].contains(&n) || cx.thorough {
                let h: Vec<u8> = (0..n).map(|i| if i % 5 == 4 { rng.next() as u8 } else { [0u8, 0x7F, 0x80, 0xFF, 0x10][rng.below(5) as usize] }).collect();
                cx.case("histogram", json!({"h": bytes_json(&h)}), json!({"len": n}), &[(Pl::G, Pl::G), (Pl::A(1), Pl::A(1))], 256, n > 0,
                        &mut |a1, _, ps, _, pend| {
                    let ph = a1.place(ps, &h);
                    let mut e = eng.borrow_mut();
                    e.clear_cache();
                    let mut r: Vec<i64> = Vec::with_capacity(256);
                    for v in 0..=255u8 {
                        pend.set_p(v as usize);
                        r.push(e.count_byte(ph, v).map(|x| x as i64).unwrap_or(-1));
                    }
                    json!({"r": r})
                });
            }
        }
    }
    if cx.subject("fastsearch:utils_popcount", "fastsearch", "popcount") {
        let lens = lengths(cx);
        let mut rng = cx.rng.derive("fs-popcount");
        for &n in lens.iter() {
            for class in ["zeros", "ramp", "high", "random", "ones"] {
                let h = if class == "ones" { vec![0xFFu8; n] } else { content(class, n, &mut rng) };
                let pls = cx.pls1();
                cx.case("popcount_bytes", json!({"h": bytes_json(&h)}), json!({"len": n, "class": class}), &pls, 1, n > 0, &mut |a1, _, ps, _, _| {
                    let ph = a1.place(ps, &h);
                    json!({"r": zipora::fsa::fast_search::utils::popcount(ph)})
                });
            }
        }
    }
    if cx.subject("fastsearch:utils_search_any_of", "fastsearch", "any") {
        let lens = lengths(cx);
        let mut rng = cx.rng.derive("fs-any");
        for &n in lens.iter() {
            let (h, _) = hay_needle("random", n, 1, &mut rng);
            let cs: Vec<u8> = vec![0x80, 0xFF, 0xC3];
            let pls = cx.pls2();
            cx.case("findany_mut", json!({"h": bytes_json(&h), "cs": bytes_json(&cs), "class": "random"}), json!({"len": n, "nset": 3}), &pls, n + 1, n > 0,
                    &mut |a1, a2, ps, pd, pend| {
                let ph = a1.place(ps, &h);
                let pc = a2.place(pd, &cs);
                let mut r = Vec::with_capacity(n + 1);
                for p in 0..n {
                    pend.set_p(p);
                    let old = ph[p];
                    ph[p] = cs[p % cs.len()];
                    r.push(opti(zipora::fsa::fast_search::utils::search_any_of(ph, pc)));
                    ph[p] = old;
                }
                r.push(opti(zipora::fsa::fast_search::utils::search_any_of(ph, pc)));
                json!({"r": r})
            });
        }
    }
}
