// ------------------------------------------------------------------ substring search

type SubFn = Box<dyn Fn(&[u8], &[u8]) -> Option<usize>>;
type AllFn = Box<dyn Fn(&[u8], &[u8]) -> (Vec<usize>, Vec<u8>)>;

/// (name, function, ascii_only)
fn findsub_subjects() -> Vec<(&'static str, SubFn, bool)> {
    let (s_def, s_sse, s_sca) = (iosearch::SimdStringSearch::new(), io_search(true, false, false), io_search(false, false, false));
    let inst = zipora::string::SimdStringSearch::new();
    let bmi = zipora::string::Bmi2StringProcessor::new();
    vec![
        ("iosearch:find_pattern", Box::new(|h, n| iosearch::find_pattern(h, n)), false),
        ("iosearch:sse42_strstr", Box::new(|h, n| iosearch::sse42_strstr(h, n)), false),
        ("iosearch:scalar_strstr", Box::new(|h, n| iosearch::scalar_strstr(h, n)), false),
        ("iosearch@default:find_pattern", Box::new(move |h, n| s_def.find_pattern(h, n)), false),
        ("iosearch@sse42:find_pattern", Box::new(move |h, n| s_sse.find_pattern(h, n)), false),
        ("iosearch@scalar:find_pattern", Box::new(move |h, n| s_sca.find_pattern(h, n)), false),
        ("strsearch:sse42_strstr", Box::new(|h, n| zipora::string::sse42_strstr(h, n)), false),
        ("strsearch@instance:sse42_strstr", Box::new(move |h, n| inst.sse42_strstr(h, n)), false),
        ("bmi2:search_bmi2", Box::new(move |h, n| bmi.search_bmi2(as_str(h), as_str(n))), true),
        ("bmi2@global:search_string_bmi2", Box::new(|h, n| zipora::string::search_string_bmi2(as_str(h), as_str(n))), true),
    ]
}

/// haystack and needle over disjoint alphabets: the base haystack holds no occurrence and a
/// planted needle is the only (hence first) one
fn hay_needle(class: &str, hl: usize, nl: usize, rng: &mut Rng) -> (Vec<u8>, Vec<u8>) {
    match class {
        "zeros" => (vec![0u8; hl], (0..nl).map(|j| 1 + (j % 7) as u8).collect()),
        "ramp" => ((0..hl).map(|i| (i % 100) as u8).collect(), (0..nl).map(|j| 200 + (j % 50) as u8).collect()),
        "high" => ((0..hl).map(|i| 0x80 | ((i * 37 + 11) % 64) as u8).collect(), (0..nl).map(|j| 0xC0 | ((j * 5) % 64) as u8).collect()),
        "ascii" => ((0..hl).map(|i| b'a' + ((i * 7) % 16) as u8).collect(), (0..nl).map(|j| b'q' + (j % 10) as u8).collect()),
        // the needle repeats the haystack's byte and ends in another one: every window is a near miss
        "nearmiss" => (vec![b'a'; hl], (0..nl).map(|j| if j + 1 == nl { b'b' } else { b'a' }).collect()),
        _ => ((0..hl).map(|_| rng.below(128) as u8).collect(), (0..nl).map(|_| 128 + rng.below(128) as u8).collect()),
    }
}

fn fam_findsub(cx: &mut Cx) {
    let nlens: Vec<usize> = if cx.thorough { vec![1, 2, 3, 4, 5, 7, 8, 9, 15, 16, 17, 18, 31, 32, 33, 34, 40, 64, 65] } else { vec![1, 2, 4, 8, 15, 16, 17, 32, 33] };
    for (name, f, ascii) in findsub_subjects() {
        if !cx.subject(name, "find_sub", "") {
            continue;
        }
        let lens: Vec<usize> = lengths(cx).into_iter().filter(|&n| n > 0).collect();
            let mut rng = cx.rng.derive(name);
        let mut k = 0usize;
        for &hl in lens.iter() {
            for &nl in nlens.iter() {
                if nl > hl {
                    continue;
                }
                k += 1;
                let classes: Vec<&str> = if ascii {
                    vec!["ascii"]
                } else if cx.thorough {
                    vec!["zeros", "ramp", "high", "random"]
                } else {
                    vec![["zeros", "ramp", "high", "random"][k % 4]]
                };
                for class in classes {
                    let (h, nd) = hay_needle(class, hl, nl, &mut rng);
                    findsub_batch(cx, &f, &h, &nd, class);
                }
            }
        }
        // near misses (expensive for the judge: a few sizes)
        let near: Vec<(usize, usize)> = if cx.thorough { vec![(33, 2), (33, 4), (70, 4), (70, 16), (70, 17), (130, 3), (130, 16), (130, 33)] } else { vec![(33, 4), (70, 16), (70, 17), (130, 3)] };
        for &(hl, nl) in near.iter() {
            let (h, nd) = hay_needle("nearmiss", hl, nl, &mut rng);
            findsub_batch(cx, &f, &h, &nd, "nearmiss");
        }
        // single questions: empty needle / haystack, needle = haystack, needle longer, periodic text
        let mut singles: Vec<(Vec<u8>, Vec<u8>)> = vec![
            (vec![], vec![]), (b"abc".to_vec(), vec![]), (vec![], b"a".to_vec()), (b"abc".to_vec(), b"abc".to_vec()),
            (b"abc".to_vec(), b"abcd".to_vec()), (b"ab".repeat(40), b"abb".to_vec()), (b"ab".repeat(40), b"bab".to_vec()),
            ([b"ab".repeat(40), b"abb".to_vec()].concat(), b"abb".to_vec()),
            ([b"ab".repeat(12), b"c".to_vec()].concat(), [b"ab".repeat(8), b"c".to_vec()].concat()),
            ([b"x".repeat(63), b"needle".to_vec(), b"y".repeat(30)].concat(), b"needle".to_vec()),
            ([b"ne".repeat(31), b"needle".to_vec()].concat(), b"needle".to_vec()),
        ];
        for &n in &[16usize, 17, 31, 32, 33, 64, 65, 100] {
            let h = content("ascii", n, &mut rng);
            singles.push((h.clone(), h.clone()));
            singles.push((h.clone(), h[n - 5..].to_vec()));
            singles.push((h.clone(), h[..n - 1].to_vec()));
        }
        for (h, nd) in singles {
            let pls = cx.pls2();
            cx.case("find_sub", json!({"h": bytes_json(&h), "n": bytes_json(&nd)}), json!({"len": h.len(), "nlen": nd.len()}), &pls, 1,
                    !h.is_empty() && !nd.is_empty(), &mut |a1, a2, ps, pd, _| {
                let ph = a1.place(ps, &h);
                let pn = a2.place(pd, &nd);
                json!({"r": optu(f(ph, pn))})
            });
        }
    }
}

fn findsub_batch(cx: &mut Cx, f: &SubFn, h: &[u8], nd: &[u8], class: &str) {
    let (hl, nl) = (h.len(), nd.len());
    let last = hl - nl;
    let pls = cx.pls2();
    cx.case("findsub_mut", json!({"h": bytes_json(h), "n": bytes_json(nd), "class": class}),
            json!({"len": hl, "nlen": nl, "class": class}), &pls, last + 2, true, &mut |a1, a2, ps, pd, pend| {
        let ph = a1.place(ps, h);
        let pn = a2.place(pd, nd);
        let mut r = Vec::with_capacity(last + 2);
        for p in 0..=last {
            pend.set_p(p);
            ph[p..p + nl].copy_from_slice(nd);
            r.push(opti(f(ph, pn)));
            ph[p..p + nl].copy_from_slice(&h[p..p + nl]);
        }
        pend.set_p(last + 1);
        r.push(opti(f(ph, pn)));
        json!({"r": r})
    });
}

// ------------------------------------------------------------------ character-set search

fn findany_subjects() -> Vec<(&'static str, SubFn)> {
    let (s_def, s_sse, s_sca) = (iosearch::SimdStringSearch::new(), io_search(true, false, false), io_search(false, false, false));
    vec![
        ("iosearch:find_any_of", Box::new(|h, c| iosearch::find_any_of(h, c))),
        ("iosearch:sse42_multi_search", Box::new(|h, c| iosearch::sse42_multi_search(h, c))),
        ("iosearch:scalar_multi_search", Box::new(|h, c| iosearch::scalar_multi_search(h, c))),
        ("iosearch@default:find_any_of", Box::new(move |h, c| s_def.find_any_of(h, c))),
        ("iosearch@sse42:find_any_of", Box::new(move |h, c| s_sse.find_any_of(h, c))),
        ("iosearch@scalar:find_any_of", Box::new(move |h, c| s_sca.find_any_of(h, c))),
    ]
}

fn fam_findany(cx: &mut Cx) {
    let sizes: Vec<usize> = if cx.thorough { vec![1, 2, 3, 5, 8, 15, 16, 17, 20, 32, 33] } else { vec![1, 3, 16, 17, 33] };
    for (name, f) in findany_subjects() {
        if !cx.subject(name, "find_any", "") {
            continue;
        }
        let lens: Vec<usize> = lengths(cx).into_iter().filter(|&n| n > 0).collect();
            let mut rng = cx.rng.derive(name);
        let mut k = 0usize;
        for &hl in lens.iter() {
            for &sz in sizes.iter() {
                k += 1;
                let class = ["zeros", "ramp", "high", "random"][k % 4];
                let (h, _) = hay_needle(class, hl, 1, &mut rng);
                // sz distinct bytes outside the haystack's alphabet
                let cs: Vec<u8> = match class {
                    "zeros" => (0..sz).map(|j| 1 + j as u8).collect(),
                    "ramp" => (0..sz).map(|j| 150 + j as u8).collect(),
                    "high" => (0..sz).map(|j| 0xC0 + j as u8).collect(),
                    _ => {
                        let mut pool: Vec<u8> = (128..=255u8).collect();
                        rng.shuffle(&mut pool);
                        pool[..sz].to_vec()
                    }
                };
                let pls = cx.pls2();
                cx.case("findany_mut", json!({"h": bytes_json(&h), "cs": bytes_json(&cs), "class": class}),
                        json!({"len": hl, "nset": sz, "class": class}), &pls, hl + 1, true, &mut |a1, a2, ps, pd, pend| {
                    let ph = a1.place(ps, &h);
                    let pc = a2.place(pd, &cs);
                    let mut r = Vec::with_capacity(hl + 1);
                    for p in 0..hl {
                        pend.set_p(p);
                        let old = ph[p];
                        ph[p] = cs[p % cs.len()];
                        r.push(opti(f(ph, pc)));
                        ph[p] = old;
                    }
                    pend.set_p(hl);
                    r.push(opti(f(ph, pc)));
                    json!({"r": r})
                });
            }
        }
        for (h, cs) in [(vec![], b"abc".to_vec()), (b"hello".to_vec(), vec![]), (b"hello world".to_vec(), b"aeiou".to_vec()),
                        (vec![0u8; 40], vec![0u8]), ([vec![1u8; 40], vec![0u8]].concat(), vec![0u8, 9])] {
            let pls = cx.pls2();
            cx.case("find_any", json!({"h": bytes_json(&h), "cs": bytes_json(&cs)}), json!({"len": h.len(), "nset": cs.len()}), &pls, 1,
                    !h.is_empty(), &mut |a1, a2, ps, pd, _| {
                let ph = a1.place(ps, &h);
                let pc = a2.place(pd, &cs);
                json!({"r": optu(f(ph, pc))})
            });
        }
    }
    // all positions + the bytes found there
    let inst = zipora::string::SimdStringSearch::new();
    let alls: Vec<(&'static str, AllFn)> = vec![
        ("strsearch:sse42_multi_search", Box::new(|h, c| {
            let r = zipora::string::sse42_multi_search(h, c);
            (r.positions, r.characters)
        })),
        ("strsearch@instance:sse42_multi_search", Box::new(move |h, c| {
            let r = inst.sse42_multi_search(h, c);
            (r.positions, r.characters)
        })),
    ];
    for (name, f) in alls {
        if !cx.subject(name, "find_all", "") {
            continue;
        }
        let mut rng = cx.rng.derive(name);
        for &hl in lengths(cx).iter() {
            for &sz in [1usize, 3, 16, 17].iter() {
                let h: Vec<u8> = (0..hl).map(|_| [0u8, 0x41, 0x7F, 0x80, 0xC3, 0xFF, 0x20, 0x61][rng.below(8) as usize]).collect();
                let cs: Vec<u8> = (0..sz).map(|j| [0x80u8, 0xFF, 0, 0x61][j % 4].wrapping_add((j / 4 * 3) as u8)).collect();
                let pls = cx.pls2();
                cx.case("find_all", json!({"h": bytes_json(&h), "cs": bytes_json(&cs)}), json!({"len": hl, "nset": sz}), &pls, 1, hl > 0,
                        &mut |a1, a2, ps, pd, _| {
                    let ph = a1.place(ps, &h);
                    let pc = a2.place(pd, &cs);
                    let (pos, ch) = f(ph, pc);
                    json!({"pos": pos, "chars": bytes_json(&ch)})
                });
            }
        }
    }
}
