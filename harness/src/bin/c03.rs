//! C03 — blob stores return exactly what was stored, under stable ids.
//! Runs real zipora blob stores, logs every public call as one NDJSON event; TLC judges the
//! events against spec/BlobStore.tla (Trace_BlobStore.tla).  Payloads are only *projected*
//! (`zv::digest`: length + 60-bit hash); equality of what went in and what came out is decided
//! by TLC.  The harness keeps no model of any store: the list of ids it was handed is input
//! selection only.
//!
//! modes:
//!   drive    seeded random histories on every mutable subject + bulk builds on every
//!            builder-made subject (B1)
//!   replay   execute TLC-generated histories (B2): --in <file of REPLAY json lines>; the expected
//!            abstract state after every step was computed by TLC (ids are issue indices); the
//!            harness compares for equality only; histories that differ (and a seeded sample of
//!            all) are written as traces for TLC to judge
//!   subjects list subject names
//!   bench    construction / operation cost per subject (development aid)
use serde_json::{json, Value};
use std::collections::HashMap;
use std::path::PathBuf;
use std::sync::atomic::{AtomicUsize, Ordering};
use zipora::blob_store::cached_store::CacheWriteStrategy;
use zipora::blob_store::{
    IterableBlobStore, BatchBlobStore, BatchZipOffsetBlobStoreBuilder, BlobStore, CachedBlobStore, CompressedBlobStore, DictZipBlobStore,
    DictZipBlobStoreBuilder, DictZipConfig, DictionaryBlobStore, HuffmanBlobStore, MemoryBlobStore, MixedLenBlobStore,
    NestLoudsTrieBlobStore, NestLoudsTrieBlobStoreBuilder, PlainBlobStore, RansBlobStore, SimpleZipBlobStore, SimpleZipConfig,
    SortedUintVecConfig, TrieBlobStoreConfig, ZeroLengthBlobStore, ZipOffsetBlobStore, ZipOffsetBlobStoreBuilder,
    ZipOffsetBlobStoreConfig, ZstdBlobStore,
};
use zipora::cache::PageCacheConfig;
use zipora::compression::dict_zip::{DictionaryBuilderConfig, EntropyAlgorithm as DzEntropy};
use zipora::RankSelectInterleaved256 as RS;
use zv::*;

type R<T> = Result<T, ()>;

const TMP_ROOT: &str = "/verif/work/C03-tmp";
static TMP_SEQ: AtomicUsize = AtomicUsize::new(0);

// ---------------------------------------------------------------- uniform view of a subject

/// Uniform view of a store under test.  Every method is a thin call-through; `None` for an
/// operation the type does not offer.
trait Store {
    fn get(&self, id: u32) -> R<Vec<u8>>;
    fn put(&mut self, d: &[u8]) -> R<u32>;
    fn put_batch(&mut self, _ds: Vec<Vec<u8>>) -> Option<R<Vec<u32>>> {
        None
    }
    fn remove(&mut self, id: u32) -> R<()>;
    fn get_batch(&self, _ids: Vec<u32>) -> Option<R<Vec<Option<Vec<u8>>>>> {
        None
    }
    fn remove_batch(&mut self, _ids: Vec<u32>) -> Option<R<usize>> {
        None
    }
    fn iter_ids(&self) -> Option<Vec<u32>> {
        None
    }
    /// iter_blobs() / iter_blobs_vec(): Err = the call failed; inner Err = one item failed
    fn iter_blobs(&self) -> Option<R<Vec<R<(u32, Vec<u8>)>>>> {
        None
    }
    /// calls that must not change what the store holds; returns (name, returned Ok)
    fn maint_count(&self) -> usize {
        0
    }
    fn maintain(&mut self, _i: usize) -> Option<(&'static str, bool)> {
        None
    }
    /// a wrapper's inner store changed behind the wrapper's back (inner_mut().put / .remove); the record is
    /// given in the form the wrapper itself would have stored it
    fn inner_put(&mut self, _d: &[u8]) -> Option<R<u32>> {
        None
    }
    fn inner_remove(&mut self, _id: u32) -> Option<R<()>> {
        None
    }
    /// a second way to empty the store (DictZipBlobStore::load_dictionary documents that it clears the storage)
    fn clear2(&mut self) -> Option<(&'static str, bool)> {
        None
    }
    /// MixedLenBlobStore: fixed_len, fixed_count, variable_count, is_fixed_length(ids)
    fn mixed_shape(&self, _ids: &[u32]) -> Option<Value> {
        None
    }
    fn put_batch_keys(&mut self, _kd: Vec<(Vec<u8>, Vec<u8>)>) -> Option<R<Vec<u32>>> {
        None
    }
    /// keys() (None) / keys_with_prefix(p)
    fn keys(&self, _p: Option<&[u8]>) -> Option<R<Vec<Vec<u8>>>> {
        None
    }
    fn contains(&self, id: u32) -> bool;
    fn size(&self, id: u32) -> R<Option<usize>>;
    fn len(&self) -> usize;
    /// size of the stored representation, when the type lets one observe it
    fn stored(&self, _id: u32) -> Option<usize> {
        None
    }
    fn clear(&mut self) -> bool {
        false
    }
    /// save to bytes -> load / close -> reopen; the loaded object replaces the current one
    fn saveload(&mut self) -> Option<R<()>> {
        None
    }
    fn put_key(&mut self, _k: &[u8], _d: &[u8]) -> Option<R<u32>> {
        None
    }
    fn get_key(&mut self, _k: &[u8]) -> Option<R<Vec<u8>>> {
        None
    }
    fn contains_key(&self, _k: &[u8]) -> Option<bool> {
        None
    }
    fn get_prefix(&mut self, _p: &[u8]) -> Option<R<Vec<(Vec<u8>, Vec<u8>)>>> {
        None
    }
}

/// temp directory removed on drop
struct TmpDir(PathBuf);
impl TmpDir {
    fn new(tag: &str) -> TmpDir {
        let n = TMP_SEQ.fetch_add(1, Ordering::SeqCst);
        let p = PathBuf::from(TMP_ROOT).join(format!("{}-{}-{}", std::process::id(), tag, n));
        let _ = std::fs::remove_dir_all(&p);
        std::fs::create_dir_all(&p).expect("create C03 temp dir");
        TmpDir(p)
    }
}
impl Drop for TmpDir {
    fn drop(&mut self) {
        let _ = std::fs::remove_dir_all(&self.0);
    }
}

/// any `BlobStore`, plus the optional capabilities as function pointers
struct W<S: BlobStore> {
    s: S,
    batch: Option<fn(&mut S, Vec<Vec<u8>>) -> R<Vec<u32>>>,
    getb: Option<fn(&S, Vec<u32>) -> R<Vec<Option<Vec<u8>>>>>,
    rmb: Option<fn(&mut S, Vec<u32>) -> R<usize>>,
    iter: Option<fn(&S) -> Vec<u32>>,
    iterb: Option<fn(&S) -> R<Vec<R<(u32, Vec<u8>)>>>>,
    maint: Vec<(&'static str, fn(&mut S) -> bool)>,
    clear2: Option<(&'static str, fn(&mut S) -> bool)>,
    shape: Option<fn(&S, &[u32]) -> Value>,
    inner_put: Option<fn(&mut S, &[u8]) -> R<u32>>,
    inner_remove: Option<fn(&mut S, u32) -> R<()>>,
    /// unwrap (into_inner / reopen) and wrap again, in place
    rewrap: Option<fn(&mut S) -> bool>,
    stored: Option<fn(&S, u32) -> Option<usize>>,
    clear: Option<fn(&mut S)>,
    reload: Option<fn(&S) -> R<S>>,
    _dir: Option<TmpDir>,
}
impl<S: BlobStore> W<S> {
    fn new(s: S) -> W<S> {
        W { s, batch: None, getb: None, rmb: None, iter: None, iterb: None, maint: vec![], clear2: None, shape: None, inner_put: None, inner_remove: None, rewrap: None, stored: None, clear: None, reload: None, _dir: None }
    }
    fn stored(mut self, f: fn(&S, u32) -> Option<usize>) -> Self {
        self.stored = Some(f);
        self
    }
    fn reload(mut self, f: fn(&S) -> R<S>) -> Self {
        self.reload = Some(f);
        self
    }
    fn boxed(self) -> Box<dyn Store>
    where
        S: 'static,
    {
        Box::new(self)
    }
}
/// the BatchBlobStore trait: put_batch / get_batch / remove_batch
impl<S: BatchBlobStore> W<S> {
    fn batching(mut self) -> Self {
        self.batch = Some(|s, ds| s.put_batch(ds).map_err(|_| ()));
        self.getb = Some(|s, ids| s.get_batch(ids).map_err(|_| ()));
        self.rmb = Some(|s, ids| s.remove_batch(ids).map_err(|_| ()));
        self
    }
}
/// the IterableBlobStore trait: iter_ids
impl<S: IterableBlobStore> W<S> {
    fn iterable(mut self) -> Self {
        self.iter = Some(|s| s.iter_ids().collect());
        self.iterb = Some(|s| Ok(s.iter_blobs().map(|x| x.map_err(|_| ())).collect()));
        self
    }
}
impl<S: BlobStore> W<S> {
    fn maint(mut self, name: &'static str, f: fn(&mut S) -> bool) -> Self {
        self.maint.push((name, f));
        self
    }
}
fn csize_of<S: CompressedBlobStore>(s: &S, id: u32) -> Option<usize> {
    s.compressed_size(id).ok().flatten()
}
impl<S: BlobStore> Store for W<S> {
    fn get(&self, id: u32) -> R<Vec<u8>> {
        self.s.get(id).map_err(|_| ())
    }
    fn put(&mut self, d: &[u8]) -> R<u32> {
        self.s.put(d).map_err(|_| ())
    }
    fn put_batch(&mut self, ds: Vec<Vec<u8>>) -> Option<R<Vec<u32>>> {
        self.batch.map(|f| f(&mut self.s, ds))
    }
    fn remove(&mut self, id: u32) -> R<()> {
        self.s.remove(id).map_err(|_| ())
    }
    fn get_batch(&self, ids: Vec<u32>) -> Option<R<Vec<Option<Vec<u8>>>>> {
        self.getb.map(|f| f(&self.s, ids))
    }
    fn remove_batch(&mut self, ids: Vec<u32>) -> Option<R<usize>> {
        self.rmb.map(|f| f(&mut self.s, ids))
    }
    fn iter_ids(&self) -> Option<Vec<u32>> {
        self.iter.map(|f| f(&self.s))
    }
    fn iter_blobs(&self) -> Option<R<Vec<R<(u32, Vec<u8>)>>>> {
        self.iterb.map(|f| f(&self.s))
    }
    fn maint_count(&self) -> usize {
        self.maint.len() + 1
    }
    fn maintain(&mut self, i: usize) -> Option<(&'static str, bool)> {
        if i >= self.maint.len() {
            return Some(("flush", self.s.flush().is_ok())); // BlobStore::flush of every store
        }
        let (n, f) = self.maint[i];
        Some((n, f(&mut self.s)))
    }
    fn clear2(&mut self) -> Option<(&'static str, bool)> {
        self.clear2.map(|(n, f)| (n, f(&mut self.s)))
    }
    fn inner_put(&mut self, d: &[u8]) -> Option<R<u32>> {
        self.inner_put.map(|f| f(&mut self.s, d))
    }
    fn inner_remove(&mut self, id: u32) -> Option<R<()>> {
        self.inner_remove.map(|f| f(&mut self.s, id))
    }
    fn mixed_shape(&self, ids: &[u32]) -> Option<Value> {
        self.shape.map(|f| f(&self.s, ids))
    }
    fn contains(&self, id: u32) -> bool {
        self.s.contains(id)
    }
    fn size(&self, id: u32) -> R<Option<usize>> {
        self.s.size(id).map_err(|_| ())
    }
    fn len(&self) -> usize {
        self.s.len()
    }
    fn stored(&self, id: u32) -> Option<usize> {
        self.stored.and_then(|f| f(&self.s, id))
    }
    fn clear(&mut self) -> bool {
        match self.clear {
            Some(f) => {
                f(&mut self.s);
                true
            }
            None => false,
        }
    }
    fn saveload(&mut self) -> Option<R<()>> {
        if let Some(f) = self.rewrap {
            return Some(if f(&mut self.s) { Ok(()) } else { Err(()) });
        }
        let f = self.reload?;
        Some(match f(&self.s) {
            Ok(n) => {
                self.s = n;
                Ok(())
            }
            Err(()) => Err(()),
        })
    }
}

/// NestLoudsTrieBlobStore: BlobStore + the keyed extension
struct TrieW {
    s: NestLoudsTrieBlobStore<RS>,
    /// finalize() is offered as a maintenance call (it makes the store read-only: only where the run ends with it)
    finalizable: bool,
}
impl Store for TrieW {
    fn get(&self, id: u32) -> R<Vec<u8>> {
        self.s.get(id).map_err(|_| ())
    }
    fn put(&mut self, d: &[u8]) -> R<u32> {
        self.s.put(d).map_err(|_| ())
    }
    fn put_batch(&mut self, ds: Vec<Vec<u8>>) -> Option<R<Vec<u32>>> {
        Some(self.s.put_batch(ds).map_err(|_| ()))
    }
    fn remove(&mut self, id: u32) -> R<()> {
        self.s.remove(id).map_err(|_| ())
    }
    fn contains(&self, id: u32) -> bool {
        self.s.contains(id)
    }
    fn size(&self, id: u32) -> R<Option<usize>> {
        self.s.size(id).map_err(|_| ())
    }
    fn len(&self) -> usize {
        self.s.len()
    }
    fn get_batch(&self, ids: Vec<u32>) -> Option<R<Vec<Option<Vec<u8>>>>> {
        Some(self.s.get_batch(ids).map_err(|_| ()))
    }
    fn remove_batch(&mut self, ids: Vec<u32>) -> Option<R<usize>> {
        Some(self.s.remove_batch(ids).map_err(|_| ()))
    }
    fn iter_ids(&self) -> Option<Vec<u32>> {
        Some(self.s.iter_ids().collect())
    }
    fn iter_blobs(&self) -> Option<R<Vec<R<(u32, Vec<u8>)>>>> {
        Some(Ok(self.s.iter_blobs().map(|x| x.map_err(|_| ())).collect()))
    }
    fn maint_count(&self) -> usize {
        if self.finalizable { 2 } else { 1 }
    }
    fn maintain(&mut self, i: usize) -> Option<(&'static str, bool)> {
        Some(match i {
            0 => ("flush", self.s.flush().is_ok()),
            _ => {
                let r = self.s.finalize().is_ok();
                ("finalize", r && self.s.is_finalized())
            }
        })
    }
    fn put_batch_keys(&mut self, kd: Vec<(Vec<u8>, Vec<u8>)>) -> Option<R<Vec<u32>>> {
        Some(self.s.put_batch_with_keys(kd).map_err(|_| ()))
    }
    fn keys(&self, p: Option<&[u8]>) -> Option<R<Vec<Vec<u8>>>> {
        Some(match p {
            None => self.s.keys().map_err(|_| ()),
            Some(p) => self.s.keys_with_prefix(p).map_err(|_| ()),
        })
    }
    fn put_key(&mut self, k: &[u8], d: &[u8]) -> Option<R<u32>> {
        Some(self.s.put_with_key(k, d).map_err(|_| ()))
    }
    fn get_key(&mut self, k: &[u8]) -> Option<R<Vec<u8>>> {
        Some(self.s.get_by_key(k).map_err(|_| ()))
    }
    fn contains_key(&self, k: &[u8]) -> Option<bool> {
        Some(self.s.contains_key(k))
    }
    fn get_prefix(&mut self, p: &[u8]) -> Option<R<Vec<(Vec<u8>, Vec<u8>)>>> {
        Some(self.s.get_by_prefix(p).map_err(|_| ()))
    }
}

/// two CachedBlobStores sharing one LruPageCache: `a` is the subject, `b` receives a different record
/// before every put to `a` and is read before every get
struct CachedPair {
    a: CachedBlobStore<MemoryBlobStore>,
    b: CachedBlobStore<MemoryBlobStore>,
    n: u8,
}
impl Store for CachedPair {
    fn get(&self, id: u32) -> R<Vec<u8>> {
        let _ = self.b.get(id);
        self.a.get(id).map_err(|_| ())
    }
    fn put(&mut self, d: &[u8]) -> R<u32> {
        self.n = self.n.wrapping_add(1);
        let noise: Vec<u8> = d.iter().map(|x| x ^ 0x5a).chain([self.n]).collect();
        let _ = self.b.put(&noise);
        self.a.put(d).map_err(|_| ())
    }
    fn remove(&mut self, id: u32) -> R<()> {
        self.a.remove(id).map_err(|_| ())
    }
    fn contains(&self, id: u32) -> bool {
        self.a.contains(id)
    }
    fn size(&self, id: u32) -> R<Option<usize>> {
        self.a.size(id).map_err(|_| ())
    }
    fn len(&self) -> usize {
        self.a.len()
    }
}

// ---------------------------------------------------------------- payload families

/// deterministic log-like text: shared fragments, delimiters, compressible
fn text_line(r: &mut Rng) -> Vec<u8> {
    const W: &[&str] = &[
        "GET /api/v1/users/", "POST /api/v1/orders/", "status=200 ", "status=404 ", "status=500 ", "latency_ms=", "host=web-", "region=eu-west-1 ",
        "region=us-east-2 ", "user_agent=Mozilla/5.0 ", "the quick brown fox ", "jumps over the lazy dog ", "cache=HIT ", "cache=MISS ",
    ];
    let mut s = format!("2026-10-01T{:02}:{:02}:{:02}Z ", r.below(24), r.below(60), r.below(60));
    for _ in 0..r.range(2, 8) {
        s.push_str(*r.pick(W));
        if r.chance(1, 3) {
            s.push_str(&format!("{} ", r.below(10000)));
        }
    }
    s.push('\n');
    s.into_bytes()
}
fn corpus(seed: u64, bytes: usize) -> Vec<u8> {
    let mut r = Rng::new(seed).derive("corpus");
    let mut v = vec![];
    while v.len() < bytes {
        v.extend(text_line(&mut r));
    }
    v
}
/// 64 KiB, highly compressible: a short phrase repeated with a sprinkle of variation
fn compressible_64k(r: &mut Rng) -> Vec<u8> {
    let phrase = text_line(r);
    let mut v = Vec::with_capacity(65536);
    while v.len() < 65536 {
        v.extend_from_slice(&phrase);
        if r.chance(1, 16) {
            v.push(r.next() as u8);
        }
    }
    v.truncate(65536);
    v
}
const FAMILIES: &[&str] = &["empty", "one", "eq32", "text", "rand_small", "zeros4k", "comp64k", "rand64k", "rand_mid", "thresh", "thresh", "edge64k", "edge128k", "huge"];
/// record lengths on both sides of every threshold the stores' code knows: SimpleZip fragment limits 8 / 256,
/// DictZip min_compression_size presets 10 / 16 / 32 / 64 / 128 / 256, the FSE "too small" limit 100, SIMD
/// chunk sizes 16 / 32 / 64, ZipOffset SIMD_THRESHOLD 64, the 4 KiB cache page, SecurePool chunk 1024
const THRESHOLDS: &[usize] = &[8, 10, 16, 32, 64, 100, 128, 256, 1024, 4096, 8192];
fn payload_of(fam: &str, r: &mut Rng) -> Vec<u8> {
    match fam {
        "empty" => vec![],
        "one" => vec![r.next() as u8],
        "eq32" => r.bytes(32),
        "text" => text_line(r),
        "rand_small" => {
            let n = r.range(1, 300) as usize;
            r.bytes(n)
        }
        "rand_mid" => {
            let n = r.range(300, 5000) as usize;
            r.bytes(n)
        }
        "zeros4k" => vec![0u8; 4096],
        "thresh" => {
            let t = *r.pick(THRESHOLDS);
            let n = (t as i64 + r.range(0, 2) as i64 - 1) as usize; // t-1, t, t+1
            if r.chance(1, 2) {
                r.bytes(n)
            } else {
                let mut v = corpus(r.next(), n);
                v.truncate(n);
                v
            }
        }
        // 64 KiB - 1 / 64 KiB / 64 KiB + 1, compressible
        "edge64k" => {
            let n = 65535 + r.range(0, 2) as usize;
            let mut v = compressible_64k(r);
            v.extend_from_slice(&[b'x'; 2]);
            v.truncate(n);
            v
        }
        // 128 KiB - 1 / 128 KiB / 128 KiB + 1: twice the 64 KiB block of the FSE encoder (switch to its block-parallel path)
        "edge128k" => {
            let n = 131071 + r.range(0, 2) as usize;
            let mut v = corpus(r.next(), n);
            v.truncate(n);
            v
        }
        // beyond 64 KiB: 200 KiB of random bytes, or 1 MiB that shrinks by far more than 32x
        "huge" => {
            if r.chance(1, 2) {
                let n = 200 * 1024 + r.below(7) as usize;
                r.bytes(n)
            } else {
                let mut v = vec![0u8; (1 << 20) - 1 + r.range(0, 2) as usize]; // 1 MiB - 1 / 1 MiB / 1 MiB + 1
                let at = r.below(1 << 20) as usize % v.len();
                v[at] = 1;
                v
            }
        }
        "comp64k" => compressible_64k(r),
        "rand64k" => r.bytes(65536),
        _ => vec![],
    }
}

/// a payload of a family picked from `fams`
fn payload(fams: &[&'static str], r: &mut Rng) -> Vec<u8> {
    let f: &'static str = fams[r.below(fams.len() as u64) as usize];
    payload_of(f, r)
}

/// concretisations of the abstract records r1..r3 of the TLC-generated histories
const CONCS: &[&str] = &["tiny", "equal", "text", "big", "allempty"];
fn concretise(conc: &str, seed: u64) -> [Vec<u8>; 3] {
    let mut r = Rng::new(seed).derive(conc);
    match conc {
        "tiny" => [vec![], vec![7], vec![9]],
        "equal" => {
            let base = r.bytes(47);
            let mk = |x: u8| {
                let mut v = base.clone();
                v.push(x);
                v
            };
            [mk(1), mk(2), mk(3)]
        }
        "text" => {
            let mut mk = || {
                let mut v = vec![];
                while v.len() < 400 {
                    v.extend(text_line(&mut r));
                }
                v
            };
            [mk(), mk(), mk()]
        }
        "big" => [compressible_64k(&mut r), r.bytes(65536), vec![]],
        _ => [vec![], vec![], vec![]],
    }
}

// ---------------------------------------------------------------- subjects

fn dz_small(min_sz: usize) -> DictZipConfig {
    DictZipConfig {
        dict_builder_config: DictionaryBuilderConfig { target_dict_size: 4096, max_dict_size: 16384, validate_result: false, ..Default::default() },
        min_compression_size: min_sz,
        ..Default::default()
    }
}
/// presets keep their own parameters except the dictionary size (the presets ask for 8-64 MB
/// dictionaries, which only changes how much of the training text is kept)
fn dz_preset(mut c: DictZipConfig) -> DictZipConfig {
    c.dict_builder_config.target_dict_size = 8192;
    c.dict_builder_config.max_dict_size = 32768;
    c
}
fn dictzip(cfg: DictZipConfig, seed: u64) -> Option<DictZipBlobStore> {
    let mut b = DictZipBlobStoreBuilder::with_config(cfg).ok()?;
    let mut r = Rng::new(seed).derive("dz-train");
    for _ in 0..16 {
        b.add_training_sample(&text_line(&mut r)).ok()?;
    }
    b.finish().ok()
}
fn strings(seed: u64, n: usize) -> Vec<String> {
    let mut r = Rng::new(seed).derive("strings");
    (0..n).map(|i| format!("{i:05} {}", String::from_utf8_lossy(&text_line(&mut r)).trim_end())).collect()
}
/// every other way to obtain a trained DictZipBlobStore: dictionary files, builder setters, build_from_* twins
fn dictzip_alt(var: &str, seed: u64, dir: &TmpDir) -> Option<DictZipBlobStore> {
    use zipora::config::NestLoudsTrieConfig;
    use zipora::containers::specialized::{FixedLenStrVec, SortableStrVec, ZoSortedStrVec};
    let nl = NestLoudsTrieConfig::default();
    let strs = strings(seed, 16);
    Some(match var {
        "from_file" => {
            let src = dictzip(dz_small(10), seed)?;
            let path = dir.0.join("dict.bin");
            src.save_dictionary(&path).ok()?;
            DictZipBlobStore::from_dictionary_file(&path, dz_small(10)).ok()?
        }
        "external_dict" => {
            let mut b = DictZipBlobStoreBuilder::with_config(dz_small(10).with_external_dictionary(dir.0.join("ext.dict"))).ok()?;
            b.add_training_samples(strs.iter().map(|x| x.as_bytes().to_vec())).ok()?;
            b.finish().ok()?
        }
        "builder_setters" => {
            let mut b = DictZipBlobStoreBuilder::with_config(dz_small(10)).ok()?;
            let path = dir.0.join("train.txt");
            std::fs::write(&path, strs[..8].join("\n")).ok()?;
            b.add_training_file(&path).ok()?;
            b.add_training_samples(strs[8..].iter().map(|x| x.as_bytes().to_vec())).ok()?;
            b.set_dict_size_mb(1).ok()?;
            b.set_min_frequency(2).ok()?;
            b.enable_advanced_caching().ok()?;
            b.set_progress_callback(|_| {});
            let _ = b.training_stats();
            b.finish().ok()?
        }
        "from_samples" => DictZipBlobStore::build_from_training_samples(&strs.iter().map(|x| x.as_bytes().to_vec()).collect::<Vec<_>>(), &nl).ok()?,
        "from_vec_u8" => DictZipBlobStore::build_from_vec_u8(strs.join("\n").as_bytes(), &nl).ok()?,
        "from_sortable" => {
            let mut v = SortableStrVec::new();
            for x in &strs {
                v.push_str(x).ok()?;
            }
            DictZipBlobStore::build_from_sortable_str_vec(&v, &nl).ok()?
        }
        "from_zo" => DictZipBlobStore::build_from_zo_sorted_str_vec(&ZoSortedStrVec::from_sorted_strings(strs.clone()).ok()?, &nl).ok()?,
        "from_fixed" => {
            let mut v = FixedLenStrVec::<32>::new();
            for x in &strs {
                v.push(&x[..x.len().min(32)]).ok()?;
            }
            DictZipBlobStore::build_from_fixed_len_str_vec(&v, &nl).ok()?
        }
        _ => return None,
    })
}

fn dictzip_cfg(var: &str) -> Option<DictZipConfig> {
    let ent = |a: DzEntropy, il: u8| {
        let mut c = dz_small(10);
        c.entropy_algorithm = a;
        c.entropy_interleaved = il;
        c.entropy_zip_ratio_require = 0.95;
        c
    };
    Some(match var {
        "small" => dz_small(10),
        "default" => dz_preset(DictZipConfig::default()),
        "text" => dz_preset(DictZipConfig::text_compression()),
        "binary" => dz_preset(DictZipConfig::binary_compression()),
        "log" => dz_preset(DictZipConfig::log_compression()),
        "realtime" => dz_preset(DictZipConfig::realtime_compression()),
        "huffman_x1" => ent(DzEntropy::HuffmanO1, 1),
        "huffman_x2" => ent(DzEntropy::HuffmanO1, 2),
        "huffman_x4" => ent(DzEntropy::HuffmanO1, 4),
        "huffman_x8" => ent(DzEntropy::HuffmanO1, 8),
        "fse" => ent(DzEntropy::Fse, 0),
        "fse_x4" => ent(DzEntropy::Fse, 4),
        // thresholds and cache sizes at their extremes
        "min0" => dz_small(10).with_min_compression_size(0),
        "min1" => dz_small(10).with_min_compression_size(1),
        "cache0" => {
            let mut c = dz_small(10);
            c.cache_size_bytes = 1; // capacity 1 / 1024 = 0 entries
            c
        }
        "cache1entry" => {
            let mut c = dz_small(10);
            c.cache_size_bytes = 1024; // exactly one cached record
            c
        }
        "cache_1mb" => dz_small(10).with_cache_size_mb(1),
        // entropy stage acceptance ratio at both ends of what validate() admits
        "ratio0" => {
            let mut c = ent(DzEntropy::HuffmanO1, 1);
            c.entropy_zip_ratio_require = 0.0;
            c
        }
        "ratio1" => {
            let mut c = ent(DzEntropy::Fse, 8);
            c.entropy_zip_ratio_require = 1.0;
            c
        }
        _ => return None,
    })
}

fn training(var: &str, seed: u64) -> Vec<u8> {
    let mut t = corpus(seed, 12 * 1024);
    if var.contains("all") {
        // every byte value occurs, so every symbol has a code and nothing falls back to raw storage
        for _ in 0..4 {
            t.extend(0..=255u8);
        }
    }
    t
}

fn mem_reload(s: &MemoryBlobStore) -> R<MemoryBlobStore> {
    let bytes = serde_json::to_vec(s).map_err(|_| ())?;
    serde_json::from_slice::<MemoryBlobStore>(&bytes).map_err(|_| ())
}
fn zstd_mem_reload(s: &ZstdBlobStore<MemoryBlobStore>) -> R<ZstdBlobStore<MemoryBlobStore>> {
    let bytes = serde_json::to_vec(s).map_err(|_| ())?;
    serde_json::from_slice::<ZstdBlobStore<MemoryBlobStore>>(&bytes).map_err(|_| ())
}
fn zerolen_reload(s: &ZeroLengthBlobStore) -> R<ZeroLengthBlobStore> {
    let bytes = serde_json::to_vec(s).map_err(|_| ())?;
    serde_json::from_slice::<ZeroLengthBlobStore>(&bytes).map_err(|_| ())
}
fn plain_reopen(s: &PlainBlobStore) -> R<PlainBlobStore> {
    PlainBlobStore::new(s.base_dir()).map_err(|_| ())
}
fn zstd_plain_reopen(s: &ZstdBlobStore<PlainBlobStore>) -> R<ZstdBlobStore<PlainBlobStore>> {
    let inner = PlainBlobStore::new(s.inner().base_dir()).map_err(|_| ())?;
    Ok(ZstdBlobStore::new(inner, s.compression_level()))
}
fn zipoffset_reload(s: &ZipOffsetBlobStore) -> R<ZipOffsetBlobStore> {
    let mut bytes: Vec<u8> = vec![];
    s.save_to_writer(&mut bytes).map_err(|_| ())?;
    ZipOffsetBlobStore::load_from_reader(&mut &bytes[..]).map_err(|_| ())
}
fn zipoffset_reload_file(s: &ZipOffsetBlobStore) -> R<ZipOffsetBlobStore> {
    let p = PathBuf::from(TMP_ROOT).join(format!("zo-{}-{:?}.bin", std::process::id(), std::thread::current().id()));
    let r = s.save_to_file(&p).map_err(|_| ()).and_then(|_| ZipOffsetBlobStore::load_from_file(&p).map_err(|_| ()));
    let _ = std::fs::remove_file(&p);
    r
}
fn zstd_inner_size<S: BlobStore>(s: &ZstdBlobStore<S>, id: u32) -> Option<usize> {
    s.inner().size(id).ok().flatten()
}

/// stores that accept put/remove; `<family>:<variant>`
fn mutable_subjects() -> Vec<String> {
    let mut v: Vec<String> = vec![];
    for s in [
        "mem:new", "mem:with_capacity", "plain:dir", "zstd:mem_l1", "zstd:mem_l3", "zstd:mem_l19", "zstd:plain_l3",
        "huff:untrained", "huff:trained_text", "huff:trained_all", "rans:untrained", "rans:trained_all", "dict:untrained", "dict:trained_all",
        "cached:write_through", "cached:write_back", "cached:write_around", "cached:disabled", "cached:memory_optimized",
        "zerolen:new", "trie:default", "trie:performance", "trie:memory", "trie:security", "triekey:default", "triekey:performance",
        "triekey:memory",
    ] {
        v.push(s.into());
    }
    for d in ["small", "default", "text", "binary", "log", "realtime", "huffman_x1", "huffman_x2", "huffman_x4", "huffman_x8", "fse", "fse_x4"] {
        v.push(format!("dictzip:{d}"));
    }
    // configuration extremes, twin constructors, builder setters (coverage round)
    for s in [
        "zstd:mem_l22", "zstd:mem_l0", "zstd:mem_lneg", "cached:tiny_cache", "cached:security", "cached:toggle", "cached:shared_cache", "cached:shared_cache_back",
        "trie:cache0", "trie:custom", "triekey:cache0", "triekey:cache1", "triekey:custom",
        "dictzip:min0", "dictzip:min1", "dictzip:ratio0", "dictzip:ratio1", "dictzip:cache1entry", "dictzip:cache_1mb", "dictzip:from_file", "dictzip:external_dict",
        "dictzip:builder_setters", "dictzip:from_samples", "dictzip:from_vec_u8", "dictzip:from_sortable", "dictzip:from_zo", "dictzip:from_fixed",
    ] {
        v.push(s.into());
    }
    for s in [
        "stack:zstd_zstd_mem", "stack:zstd_cached_mem", "stack:cached_zstd_mem", "stack:huff_zstd_mem", "stack:zstd_huff_mem", "stack:rans_cached_mem",
        "stack:cached_dictzip", "stack:zstd_dictzip", "stack:dict_zstd_plain", "stack:cached_trie",
    ] {
        v.push(s.into());
    }
    v
}

fn trie_cfg(var: &str) -> Option<TrieBlobStoreConfig> {
    Some(match var {
        "default" => TrieBlobStoreConfig::default(),
        "performance" => TrieBlobStoreConfig::performance_optimized(),
        "memory" => TrieBlobStoreConfig::memory_optimized(),
        "security" => TrieBlobStoreConfig::security_optimized(),
        // the config builder with every setter, caches at their smallest
        "cache0" => TrieBlobStoreConfig::builder().key_cache_size(0).build().ok()?,
        "cache1" => TrieBlobStoreConfig::builder().key_cache_size(1).build().ok()?,
        "custom" => TrieBlobStoreConfig::builder()
            .trie_config(zipora::fsa::ZiporaTrieConfig::default())
            .blob_config(ZipOffsetBlobStoreConfig::performance_optimized())
            .memory_config(zipora::memory::SecurePoolConfig::small_secure())
            .key_compression(false)
            .batch_optimization(false)
            .key_cache_size(2)
            .statistics(false)
            .build()
            .ok()?,
        _ => return None,
    })
}

fn make(name: &str, seed: u64) -> Option<Box<dyn Store>> {
    let (fam, var) = name.split_once(':')?;
    let huff = |var: &str| -> Option<HuffmanBlobStore<MemoryBlobStore>> {
        let mut h = HuffmanBlobStore::new(MemoryBlobStore::new());
        if var != "untrained" {
            h.add_training_data(&training(var, seed));
            h.build_tree().ok()?;
        }
        Some(h)
    };
    Some(match fam {
        "mem" => {
            let s = if var == "new" { MemoryBlobStore::new() } else { MemoryBlobStore::with_capacity(1) };
            let mut w = W::new(s)
                .batching()
                .iterable()
                .reload(mem_reload)
                .maint("reserve", |s| {
                    s.reserve(64);
                    s.capacity() >= 64
                })
                .maint("shrink_to_fit", |s| {
                    s.shrink_to_fit();
                    true
                });
            w.clear = Some(|s| s.clear());
            w.boxed()
        }
        "plain" => {
            let d = TmpDir::new("plain");
            let mut w = W::new(PlainBlobStore::create_new(&d.0).ok()?).batching().iterable().reload(plain_reopen);
            w._dir = Some(d);
            w.boxed()
        }
        "zstd" => match var {
            "mem_l1" | "mem_l3" | "mem_l19" | "mem_l22" | "mem_l0" | "mem_lneg" => {
                // new() clamps the level to 1..=22: both ends and beyond
                let lvl = if var == "mem_lneg" { -7 } else { var[5..].parse::<i32>().ok()? };
                W::new(ZstdBlobStore::new(MemoryBlobStore::new(), lvl)).batching().iterable().stored(zstd_inner_size).reload(zstd_mem_reload).boxed()
            }
            "plain_l3" => {
                let d = TmpDir::new("zstdplain");
                let mut w = W::new(ZstdBlobStore::with_default_compression(PlainBlobStore::create_new(&d.0).ok()?))
                    .batching().iterable()
                    .stored(zstd_inner_size)
                    .reload(zstd_plain_reopen);
                w._dir = Some(d);
                w.boxed()
            }
            _ => return None,
        },
        "huff" => W::new(huff(var)?).boxed(),
        "rans" => {
            let mut s = RansBlobStore::new(MemoryBlobStore::new());
            if var != "untrained" {
                s.train(&training(var, seed)).ok()?;
            }
            W::new(s).boxed()
        }
        "dict" => {
            let mut s = DictionaryBlobStore::new(MemoryBlobStore::new());
            if var != "untrained" {
                s.train(&training(var, seed)).ok()?;
            }
            W::new(s).boxed()
        }
        "cached" => {
            let (cfg, strat, disable) = match var {
                "write_through" => (PageCacheConfig::balanced(), CacheWriteStrategy::WriteThrough, false),
                "write_back" => (PageCacheConfig::balanced(), CacheWriteStrategy::WriteBack, false),
                "write_around" => (PageCacheConfig::balanced(), CacheWriteStrategy::WriteAround, false),
                "disabled" => (PageCacheConfig::balanced(), CacheWriteStrategy::WriteThrough, true),
                "memory_optimized" => (PageCacheConfig::memory_optimized(), CacheWriteStrategy::WriteThrough, false),
                "security" => (PageCacheConfig::security_optimized(), CacheWriteStrategy::WriteBack, false),
                "toggle" => (PageCacheConfig::memory_optimized(), CacheWriteStrategy::WriteThrough, false),
                "tiny_cache" => {
                    // room for a single 4 KiB page: every second record evicts
                    let mut c = PageCacheConfig::memory_optimized();
                    c.capacity = 4096;
                    c.num_shards = 1;
                    (c, CacheWriteStrategy::WriteBack, false)
                }
                "shared_cache" | "shared_cache_back" => {
                    // two stores on ONE LruPageCache (with_cache / with_cache_and_strategy): writes to the
                    // neighbour must never show up in this store
                    let cache = std::sync::Arc::new(zipora::cache::LruPageCache::new(PageCacheConfig::memory_optimized()).ok()?);
                    let (a, b) = if var == "shared_cache" {
                        (CachedBlobStore::with_cache(MemoryBlobStore::new(), cache.clone()).ok()?, CachedBlobStore::with_cache(MemoryBlobStore::new(), cache).ok()?)
                    } else {
                        (
                            CachedBlobStore::with_cache_and_strategy(MemoryBlobStore::new(), cache.clone(), CacheWriteStrategy::WriteBack).ok()?,
                            CachedBlobStore::with_cache_and_strategy(MemoryBlobStore::new(), cache, CacheWriteStrategy::WriteAround).ok()?,
                        )
                    };
                    return Some(Box::new(CachedPair { a, b, n: 0 }));
                }
                _ => return None,
            };
            let mut s = CachedBlobStore::with_write_strategy(MemoryBlobStore::new(), cfg, strat).ok()?;
            if disable {
                s.disable_cache();
            }
            let mut w = W::new(s)
                .maint("prefetch_range", |s| s.prefetch_range(0, 3 * 4096).is_ok())
                .maint("cache_flush", |s| CachedBlobStore::flush(s).is_ok());
            if var == "toggle" {
                w = w
                    .maint("disable_cache", |s| {
                        s.disable_cache();
                        true
                    })
                    .maint("enable_cache", |s| {
                        s.enable_cache();
                        true
                    })
                    .maint("set_write_strategy", |s| {
                        let n = match s.write_strategy() {
                            CacheWriteStrategy::WriteThrough => CacheWriteStrategy::WriteBack,
                            CacheWriteStrategy::WriteBack => CacheWriteStrategy::WriteAround,
                            CacheWriteStrategy::WriteAround => CacheWriteStrategy::WriteThrough,
                        };
                        s.set_write_strategy(n);
                        s.write_strategy() == n
                    });
            }
            w.boxed()
        }
        "zerolen" => W::new(ZeroLengthBlobStore::new()).batching().iterable().reload(zerolen_reload).boxed(),
        "trie" | "triekey" => Box::new(TrieW { s: NestLoudsTrieBlobStore::<RS>::new(trie_cfg(var)?).ok()?, finalizable: false }),
        "dictzip" => {
            let (store, dir) = match dictzip_cfg(var) {
                Some(cfg) => (dictzip(cfg, seed)?, None),
                None => {
                    let d = TmpDir::new("dz");
                    (dictzip_alt(var, seed, &d)?, Some(d))
                }
            };
            let mut w = W::new(store)
                .batching()
                .stored(csize_of)
                .maint("optimize", |s| s.optimize().is_ok())
                .maint("validate", |s| s.validate().is_ok());
            // inherent methods (the type does not implement IterableBlobStore)
            w.iter = Some(|s| s.iter_ids_vec());
            w.iterb = Some(|s| s.iter_blobs_vec().map(|v| v.into_iter().map(Ok).collect()).map_err(|_| ()));
            // save_dictionary -> load_dictionary: documented to clear the storage ("tied to the old dictionary")
            w.clear2 = Some(("load_dictionary", |s| {
                let p = PathBuf::from(TMP_ROOT).join(format!("dz-{}-{:?}.dict", std::process::id(), std::thread::current().id()));
                let ok = s.save_dictionary(&p).is_ok() && s.load_dictionary(&p).is_ok();
                let _ = std::fs::remove_file(&p);
                ok
            }));
            w._dir = dir;
            w.boxed()
        }
        "stack" => match var {
            "zstd_zstd_mem" => W::new(ZstdBlobStore::new(ZstdBlobStore::new(MemoryBlobStore::new(), 3), 1)).batching().iterable().stored(zstd_inner_size).boxed(),
            "zstd_cached_mem" => W::new(ZstdBlobStore::new(CachedBlobStore::new(MemoryBlobStore::new(), PageCacheConfig::balanced()).ok()?, 3))
                .stored(zstd_inner_size)
                .boxed(),
            "cached_zstd_mem" => W::new(
                CachedBlobStore::with_write_strategy(ZstdBlobStore::new(MemoryBlobStore::new(), 3), PageCacheConfig::balanced(), CacheWriteStrategy::WriteBack).ok()?,
            )
            .boxed(),
            "huff_zstd_mem" => {
                let mut h = HuffmanBlobStore::new(ZstdBlobStore::new(MemoryBlobStore::new(), 3));
                h.add_training_data(&training("text", seed));
                h.build_tree().ok()?;
                W::new(h).boxed()
            }
            "zstd_huff_mem" => W::new(ZstdBlobStore::new(huff("trained_text")?, 3)).stored(zstd_inner_size).boxed(),
            "rans_cached_mem" => {
                let mut s = RansBlobStore::new(CachedBlobStore::new(MemoryBlobStore::new(), PageCacheConfig::balanced()).ok()?);
                s.train(&training("all", seed)).ok()?;
                W::new(s).boxed()
            }
            "cached_dictzip" => W::new(CachedBlobStore::new(dictzip(dz_small(10), seed)?, PageCacheConfig::balanced()).ok()?).boxed(),
            "zstd_dictzip" => W::new(ZstdBlobStore::new(dictzip(dz_small(10), seed)?, 3)).batching().stored(zstd_inner_size).boxed(),
            "dict_zstd_plain" => {
                let d = TmpDir::new("stackplain");
                let mut s = DictionaryBlobStore::new(ZstdBlobStore::new(PlainBlobStore::create_new(&d.0).ok()?, 3));
                s.train(&training("all", seed)).ok()?;
                let mut w = W::new(s);
                w._dir = Some(d);
                w.boxed()
            }
            "cached_trie" => W::new(CachedBlobStore::new(NestLoudsTrieBlobStore::<RS>::new(TrieBlobStoreConfig::default()).ok()?, PageCacheConfig::balanced()).ok()?).boxed(),
            _ => return None,
        },
        _ => return None,
    })
}

/// stores made by a builder / build_from; `<family>:<variant>[+saveload]`
fn bulk_subjects() -> Vec<String> {
    let mut v: Vec<String> = vec![];
    for c in ["default", "performance", "compression", "security", "raw", "chk2_raw", "chk1_zip1", "blk16", "blk256"] {
        v.push(format!("zipoffset:{c}"));
    }
    v.push("zipoffset:default+saveload".into());
    v.push("zipoffset:batch4_default".into());
    for c in ["default", "frag1_4", "frag8_8", "nodelim", "delim_all"] {
        v.push(format!("simplezip:{c}"));
    }
    for c in ["auto", "fixed0", "fixed16", "fixed17"] {
        v.push(format!("mixedlen:{c}"));
    }
    v.push("zerolen:finish".into());
    v.push("zerolen:finish+saveload".into());
    v.push("mem:from_data".into());
    v.push("mem:from_data+saveload".into());
    for c in ["default", "performance", "memory", "security"] {
        v.push(format!("triebuild:{c}"));
    }
    // coverage round: twins of the builders, build_from_* constructors, ids at the end of the id space, config extremes
    // wrappers over an inner store that is ALREADY POPULATED, changed through inner_mut(), unwrapped and wrapped again
    for x in [
        "wrap:cached_mem_filled", "wrap:cached_mem_from_data", "wrap:cached_back_mem", "wrap:cached_around_mem", "wrap:cached_shared_mem",
        "wrap:cached_disabled_mem", "wrap:cached_plain_reopened", "wrap:cached_dictzip", "wrap:cached_zstd_mem", "wrap:zstd_mem", "wrap:zstd_plain",
        "wrap:zstd_zstd_mem", "wrap:zstd_cached_mem", "wrap:huff_mem", "wrap:huff_trained_mem", "wrap:rans_mem", "wrap:dict_mem",
    ] {
        v.push(x.into());
    }
    for x in [
        "zipoffset:add_records", "zipoffset:with_pool", "zipoffset:default+savefile", "zipoffset:batch4_flush",
        "simplezip:frag1_1", "simplezip:frag_1mb", "simplezip:frag1k_1k", "simplezip:frag_64k_m1", "simplezip:frag_64k", "simplezip:frag_64k1",
        "simplezip:frag_64k_bar", "simplezip:frag_1mb_bar", "simplezip:nodelim_1mb", "simplezip:frag1mb_1mb", "zipoffset:ow8", "zipoffset:ow32_sw64", "mixedlen:fixed1000000", "mem:from_data_top",
        "triebuild:add_batch", "triebuild:progress", "triebuild:builder_default", "triebuild:custom_dups",
        "triefrom:kv", "triefrom:sortable", "triefrom:zo", "triefrom:fixed", "triefrom:vec_u8", "triefrom:slice_u8",
    ] {
        v.push(x.into());
    }
    v
}

/// how the records of a bulk build are addressed afterwards
#[derive(Default)]
struct Built {
    /// explicit ids (MemoryBlobStore::from_data); None = 0..n
    ids: Option<Vec<u32>>,
    /// keys of a keyed build (builder add(key, data), build_from_key_value_pairs, build_from_<strings>)
    keys: Option<Vec<Vec<u8>>>,
}

/// key of entry i of a keyed build: ascending (so that a sorting builder keeps the input order) ...
fn build_key(i: usize) -> Vec<u8> {
    format!("key/{i:06}").into_bytes()
}
/// ... or unsorted with repetitions (builders that keep the order they are given)
fn build_key_dups(i: usize, n: usize) -> Vec<u8> {
    format!("k{:04}", (i * 7919) % (n / 2 + 1)).into_bytes()
}
/// ids at both ends of the id space for MemoryBlobStore::from_data
fn top_id(i: usize, n: usize) -> u32 {
    if i < n / 2 {
        i as u32
    } else {
        u32::MAX - (n - 1 - i) as u32
    }
}

fn zipoffset_cfg(var: &str) -> Option<ZipOffsetBlobStoreConfig> {
    let blk = |b: u8| ZipOffsetBlobStoreConfig {
        compress_level: 0,
        checksum_level: 0,
        offset_config: SortedUintVecConfig { log2_block_units: b, offset_width: 32, sample_width: 48, use_simd: true },
        ..Default::default()
    };
    Some(match var {
        "default" => ZipOffsetBlobStoreConfig::default(),
        "performance" => ZipOffsetBlobStoreConfig::performance_optimized(),
        "compression" => ZipOffsetBlobStoreConfig::compression_optimized(),
        "security" => ZipOffsetBlobStoreConfig::security_optimized(),
        "raw" => ZipOffsetBlobStoreConfig { compress_level: 0, checksum_level: 0, ..Default::default() },
        "chk2_raw" => ZipOffsetBlobStoreConfig { compress_level: 0, checksum_level: 2, ..Default::default() },
        "chk0_zip3" => ZipOffsetBlobStoreConfig { compress_level: 3, checksum_level: 0, ..Default::default() },
        "chk1_zip1" => ZipOffsetBlobStoreConfig { compress_level: 1, checksum_level: 1, ..Default::default() },
        // offset index field widths at both ends of what SortedUintVecConfig::validate() admits
        "ow8" => ZipOffsetBlobStoreConfig {
            compress_level: 0,
            checksum_level: 0,
            offset_config: SortedUintVecConfig { log2_block_units: 4, offset_width: 8, sample_width: 16, use_simd: false },
            ..Default::default()
        },
        "ow32_sw64" => ZipOffsetBlobStoreConfig {
            compress_level: 3, // (level 22 costs ~0.5 s per record; the level bound is exercised by zstd:mem_l22)
            checksum_level: 3,
            offset_config: SortedUintVecConfig { log2_block_units: 8, offset_width: 32, sample_width: 64, use_simd: true },
            ..Default::default()
        },
        "blk16" => blk(4),
        "blk128" => blk(7),
        "blk256" => blk(8),
        _ => return None,
    })
}

/// Err(msg) = the builder refused (an add/finish/build_from call returned Err)
fn build(name: &str, recs: &[Vec<u8>]) -> Result<(Box<dyn Store>, Built), String> {
    let (base, saveload) = match name.strip_suffix("+saveload") {
        Some(b) => (b, true),
        None => (name, false),
    };
    let (base, savefile) = match base.strip_suffix("+savefile") {
        Some(b) => (b, true),
        None => (base, false),
    };
    let mut built = Built::default();
    let n = recs.len();
    let (fam, var) = base.split_once(':').ok_or("bad name")?;
    let e = |x: zipora::ZiporaError| x.to_string();
    let store: Box<dyn Store> = match fam {
        "zipoffset" => {
            let store = if let Some(rest) = var.strip_prefix("batch") {
                let (bn, c) = rest.split_once('_').ok_or("bad batch variant")?;
                let flush = c == "flush";
                let mut b = BatchZipOffsetBlobStoreBuilder::with_config(zipoffset_cfg(if flush { "default" } else { c }).ok_or("cfg")?, bn.parse().map_err(|_| "n")?).map_err(e)?;
                for (i, r) in recs.iter().enumerate() {
                    b.add_record(r).map_err(e)?;
                    if flush && i % 3 == 2 {
                        b.flush_batch().map_err(e)?;
                    }
                }
                b.finish().map_err(e)?
            } else if var == "add_records" {
                let mut b = ZipOffsetBlobStoreBuilder::new().map_err(e)?;
                b.reserve(recs.len()).map_err(e)?;
                b.add_records(recs.iter()).map_err(e)?;
                b.finish().map_err(e)?
            } else if var == "with_pool" {
                let pool = zipora::memory::SecureMemoryPool::new(zipora::memory::SecurePoolConfig::small_secure()).map_err(e)?;
                let pool = std::sync::Arc::try_unwrap(pool).map_err(|_| "pool is shared")?;
                let mut b = ZipOffsetBlobStoreBuilder::with_pool(ZipOffsetBlobStoreConfig::default(), pool).map_err(e)?;
                for r in recs {
                    b.add_record(r).map_err(e)?;
                }
                b.finish().map_err(e)?
            } else {
                let mut b = ZipOffsetBlobStoreBuilder::with_config(zipoffset_cfg(var).ok_or("cfg")?).map_err(e)?;
                for r in recs {
                    b.add_record(r).map_err(e)?;
                }
                b.finish().map_err(e)?
            };
            let mut w = W::new(store).stored(csize_of).maint("enable_offset_cache", |s| {
                s.enable_offset_cache();
                s.memory_usage() > 0
            });
            if saveload {
                w = w.reload(zipoffset_reload);
            }
            if savefile {
                w = w.reload(zipoffset_reload_file);
            }
            w.boxed()
        }
        "simplezip" => {
            let cfg = match var {
                "default" => SimpleZipConfig::default(),
                "frag1_4" => SimpleZipConfig::builder().min_frag_len(1).max_frag_len(4).build().map_err(e)?,
                "frag8_8" => SimpleZipConfig::builder().min_frag_len(8).max_frag_len(8).build().map_err(e)?,
                "nodelim" => SimpleZipConfig::builder().delimiters(vec![]).build().map_err(e)?,
                "delim_all" => SimpleZipConfig::builder().min_frag_len(2).max_frag_len(64).delimiters((0..=255u8).collect()).build().map_err(e)?,
                // fragment limits at both ends of what validate() admits
                "frag1_1" => SimpleZipConfig::builder().min_frag_len(1).max_frag_len(1).build().map_err(e)?,
                "frag_1mb" => SimpleZipConfig::builder().min_frag_len(1).max_frag_len(1024 * 1024).build().map_err(e)?,
                "frag1k_1k" => SimpleZipConfig::builder().min_frag_len(1024).max_frag_len(1024).build().map_err(e)?,
                // fragments around 2^16 bytes and at the 1 MiB bound of validate(), default and custom delimiters
                "frag_64k_m1" => SimpleZipConfig::builder().min_frag_len(1).max_frag_len(65535).build().map_err(e)?,
                "frag_64k" => SimpleZipConfig::builder().min_frag_len(1).max_frag_len(65536).build().map_err(e)?,
                "frag_64k1" => SimpleZipConfig::builder().min_frag_len(8).max_frag_len(65537).build().map_err(e)?,
                "frag_64k_bar" => SimpleZipConfig::builder().min_frag_len(4).max_frag_len(65536).delimiters(vec![b'|']).build().map_err(e)?,
                "frag_1mb_bar" => SimpleZipConfig::builder().min_frag_len(8).max_frag_len(1024 * 1024).delimiters(vec![b'|', 0]).build().map_err(e)?,
                "nodelim_1mb" => SimpleZipConfig::builder().min_frag_len(8).max_frag_len(1024 * 1024).delimiters(vec![]).build().map_err(e)?,
                "frag1mb_1mb" => SimpleZipConfig::builder().min_frag_len(1024 * 1024).max_frag_len(1024 * 1024).build().map_err(e)?,
                _ => return Err("variant".into()),
            };
            W::new(SimpleZipBlobStore::build_from(recs, &cfg).map_err(e)?).batching().iterable().boxed()
        }
        "mixedlen" => {
            let s = match var {
                "auto" => MixedLenBlobStore::build_from(recs).map_err(e)?,
                _ => MixedLenBlobStore::build_from_with_fixed_len(recs, var[5..].parse().map_err(|_| "fixed")?).map_err(e)?,
            };
            let mut w = W::new(s).batching().iterable();
            w.shape = Some(|s, ids| {
                let isf: Vec<bool> = ids.iter().map(|&i| s.is_fixed_length(i)).collect();
                json!({"op":"mixed_shape","f":s.fixed_len(),"nf":s.fixed_count(),"nv":s.variable_count(),"ids":ids,"isf":isf})
            });
            w.boxed()
        }
        "zerolen" => {
            if recs.iter().any(|r| !r.is_empty()) {
                return Err("zero-length store cannot be built from non-empty records".into());
            }
            let mut w = W::new(ZeroLengthBlobStore::finish(recs.len())).batching().iterable();
            if saveload {
                w = w.reload(zerolen_reload);
            }
            w.boxed()
        }
        "mem" => {
            let top = var == "from_data_top";
            if top {
                built.ids = Some((0..n).map(|i| top_id(i, n)).collect());
            }
            let m: HashMap<u32, Vec<u8>> = recs.iter().enumerate().map(|(i, r)| (if top { top_id(i, n) } else { i as u32 }, r.clone())).collect();
            let mut w = W::new(MemoryBlobStore::from_data(m)).batching().iterable();
            if saveload {
                w = w.reload(mem_reload);
            }
            w.boxed()
        }
        "triebuild" => {
            let dups = var == "custom_dups";
            let keys: Vec<Vec<u8>> = (0..n).map(|i| if dups { build_key_dups(i, n) } else { build_key(i) }).collect();
            let mut b = match var {
                "builder_default" => NestLoudsTrieBlobStore::<RS>::builder_default().map_err(e)?,
                "add_batch" | "progress" => NestLoudsTrieBlobStore::<RS>::builder(TrieBlobStoreConfig::default()).map_err(e)?,
                "custom_dups" => NestLoudsTrieBlobStoreBuilder::<RS>::new(trie_cfg("custom").ok_or("cfg")?).map_err(e)?,
                _ => NestLoudsTrieBlobStoreBuilder::<RS>::new(trie_cfg(var).ok_or("cfg")?).map_err(e)?,
            };
            b.reserve(n);
            if var == "add_batch" {
                b.add_batch(keys.iter().cloned().zip(recs.iter().cloned())).map_err(e)?;
            } else {
                for (k, r) in keys.iter().zip(recs) {
                    b.add(k, r).map_err(e)?;
                }
            }
            if b.len() != n || b.is_empty() != (n == 0) {
                return Err("builder len() disagrees with the entries added".into());
            }
            if !dups {
                b.sort_entries(); // already ascending: must keep the order
            }
            let s = if var == "progress" { b.finish_with_progress(|_, _| {}).map_err(e)? } else { b.finish().map_err(e)? };
            built.keys = Some(keys);
            Box::new(TrieW { s, finalizable: false })
        }
        "triefrom" => {
            use zipora::config::NestLoudsTrieConfig;
            use zipora::containers::specialized::{FixedLenStrVec, SortableStrVec, ZoSortedStrVec};
            let nl = NestLoudsTrieConfig::default();
            let strs: Vec<String> = recs.iter().map(|r| String::from_utf8_lossy(r).into_owned()).collect();
            let s = match var {
                "kv" => {
                    let keys: Vec<Vec<u8>> = (0..n).map(|i| build_key_dups(i, n)).collect();
                    let pairs: Vec<(Vec<u8>, Vec<u8>)> = keys.iter().cloned().zip(recs.iter().cloned()).collect();
                    built.keys = Some(keys);
                    NestLoudsTrieBlobStore::<RS>::build_from_key_value_pairs(&pairs, &nl).map_err(e)?
                }
                // the string-vector constructors store every string as key AND record
                "sortable" => {
                    let mut v = SortableStrVec::new();
                    for x in &strs {
                        v.push_str(x).map_err(e)?;
                    }
                    built.keys = Some(recs.to_vec());
                    NestLoudsTrieBlobStore::<RS>::build_from_sortable_str_vec(&v, &nl).map_err(e)?
                }
                "zo" => {
                    built.keys = Some(recs.to_vec());
                    NestLoudsTrieBlobStore::<RS>::build_from_zo_sorted_str_vec(&ZoSortedStrVec::from_sorted_strings(strs.clone()).map_err(e)?, &nl).map_err(e)?
                }
                "fixed" => {
                    let mut v = FixedLenStrVec::<32>::new();
                    for x in &strs {
                        v.push(x).map_err(e)?;
                    }
                    built.keys = Some(recs.to_vec());
                    NestLoudsTrieBlobStore::<RS>::build_from_fixed_len_str_vec(&v, &nl).map_err(e)?
                }
                "vec_u8" | "slice_u8" => {
                    if n != 1 {
                        return Err("one record".into());
                    }
                    built.keys = Some(recs.to_vec());
                    if var == "vec_u8" {
                        NestLoudsTrieBlobStore::<RS>::build_from_vec_u8(&recs[0], &nl).map_err(e)?
                    } else {
                        NestLoudsTrieBlobStore::<RS>::build_from_slice_u8(&recs[0], &nl).map_err(e)?
                    }
                }
                _ => return Err("variant".into()),
            };
            Box::new(TrieW { s, finalizable: false })
        }
        _ => return Err("family".into()),
    };
    Ok((store, built))
}

/// the bytes a ZstdBlobStore of that level keeps in its inner store for `d` (taken from a scratch store of the same type)
fn zstd_stored(level: i32, d: &[u8]) -> R<Vec<u8>> {
    let mut t = ZstdBlobStore::new(MemoryBlobStore::new(), level);
    let id = t.put(d).map_err(|_| ())?;
    t.inner().get(id).map_err(|_| ())
}

/// A wrapper created over an inner store that already holds `recs`; returns the ids the inner store handed out.
fn make_wrapped(name: &str, seed: u64, recs: &[Vec<u8>]) -> Option<(Box<dyn Store>, Vec<u32>)> {
    let var = name.strip_prefix("wrap:")?;
    let fill = |s: &mut dyn BlobStore| -> Option<Vec<u32>> { recs.iter().map(|r| s.put(r).ok()).collect() };
    let cached_over_mem = |m: MemoryBlobStore, ids: Vec<u32>, strat: CacheWriteStrategy, shared: bool, disabled: bool| -> Option<(Box<dyn Store>, Vec<u32>)> {
        let mut c = if shared {
            let cache = std::sync::Arc::new(zipora::cache::LruPageCache::new(PageCacheConfig::memory_optimized()).ok()?);
            CachedBlobStore::with_cache_and_strategy(m, cache, strat).ok()?
        } else {
            CachedBlobStore::with_write_strategy(m, PageCacheConfig::memory_optimized(), strat).ok()?
        };
        if disabled {
            c.disable_cache();
        }
        let mut w = W::new(c);
        w.inner_put = Some(|s, d| s.inner_mut().put(d).map_err(|_| ()));
        w.inner_remove = Some(|s, id| s.inner_mut().remove(id).map_err(|_| ()));
        Some((w.boxed(), ids))
    };
    Some(match var {
        "cached_mem_filled" | "cached_back_mem" | "cached_around_mem" | "cached_shared_mem" | "cached_disabled_mem" => {
            let mut m = MemoryBlobStore::new();
            let ids = fill(&mut m)?;
            let strat = match var {
                "cached_back_mem" => CacheWriteStrategy::WriteBack,
                "cached_around_mem" => CacheWriteStrategy::WriteAround,
                _ => CacheWriteStrategy::WriteThrough,
            };
            return cached_over_mem(m, ids, strat, var == "cached_shared_mem", var == "cached_disabled_mem");
        }
        "cached_mem_from_data" => {
            let ids: Vec<u32> = (0..recs.len() as u32).map(|i| i * 3 + 1).collect();
            let m = MemoryBlobStore::from_data(ids.iter().copied().zip(recs.iter().cloned()).collect());
            return cached_over_mem(m, ids, CacheWriteStrategy::WriteThrough, false, false);
        }
        "cached_plain_reopened" => {
            let d = TmpDir::new("wrapplain");
            let ids = {
                let mut p = PlainBlobStore::create_new(&d.0).ok()?;
                fill(&mut p)?
            };
            let mut w = W::new(CachedBlobStore::new(PlainBlobStore::new(&d.0).ok()?, PageCacheConfig::memory_optimized()).ok()?);
            w.inner_put = Some(|s, d| s.inner_mut().put(d).map_err(|_| ()));
            w.inner_remove = Some(|s, id| s.inner_mut().remove(id).map_err(|_| ()));
            w.rewrap = Some(|s| {
                let dir = s.inner().base_dir().to_path_buf();
                match PlainBlobStore::new(&dir).ok().and_then(|p| CachedBlobStore::new(p, PageCacheConfig::memory_optimized()).ok()) {
                    Some(n) => {
                        *s = n;
                        true
                    }
                    None => false,
                }
            });
            w._dir = Some(d);
            (w.boxed(), ids)
        }
        "cached_dictzip" => {
            let mut dz = dictzip(dz_small(10), seed)?;
            let ids = fill(&mut dz)?;
            let mut w = W::new(CachedBlobStore::new(dz, PageCacheConfig::memory_optimized()).ok()?);
            w.inner_put = Some(|s, d| s.inner_mut().put(d).map_err(|_| ()));
            w.inner_remove = Some(|s, id| s.inner_mut().remove(id).map_err(|_| ()));
            (w.boxed(), ids)
        }
        "cached_zstd_mem" => {
            let mut z = ZstdBlobStore::new(MemoryBlobStore::new(), 3);
            let ids = fill(&mut z)?;
            let mut w = W::new(CachedBlobStore::with_write_strategy(z, PageCacheConfig::memory_optimized(), CacheWriteStrategy::WriteBack).ok()?);
            w.inner_put = Some(|s, d| s.inner_mut().put(d).map_err(|_| ()));
            w.inner_remove = Some(|s, id| s.inner_mut().remove(id).map_err(|_| ()));
            (w.boxed(), ids)
        }
        // ZstdBlobStore: the populated inner store comes out of another wrapper of the same type (into_inner),
        // so it holds what this wrapper type stores; re-wrap = into_inner -> new
        "zstd_mem" => {
            let mut z = ZstdBlobStore::new(MemoryBlobStore::new(), 3);
            let ids = fill(&mut z)?;
            let mut w = W::new(ZstdBlobStore::new(z.into_inner(), 3)).batching().iterable().stored(zstd_inner_size);
            w.inner_put = Some(|s, d| {
                let b = zstd_stored(s.compression_level(), d)?;
                s.inner_mut().put(&b).map_err(|_| ())
            });
            w.inner_remove = Some(|s, id| s.inner_mut().remove(id).map_err(|_| ()));
            w.rewrap = Some(|s| {
                let lvl = s.compression_level();
                let old = std::mem::replace(s, ZstdBlobStore::new(MemoryBlobStore::new(), lvl));
                *s = ZstdBlobStore::new(old.into_inner(), lvl);
                true
            });
            (w.boxed(), ids)
        }
        "zstd_plain" => {
            let d = TmpDir::new("wrapzplain");
            let ids = {
                let mut z = ZstdBlobStore::new(PlainBlobStore::create_new(&d.0).ok()?, 3);
                fill(&mut z)?
            };
            let mut w = W::new(ZstdBlobStore::new(PlainBlobStore::new(&d.0).ok()?, 3)).batching().iterable().stored(zstd_inner_size);
            w.inner_put = Some(|s, d| {
                let b = zstd_stored(s.compression_level(), d)?;
                s.inner_mut().put(&b).map_err(|_| ())
            });
            w.inner_remove = Some(|s, id| s.inner_mut().remove(id).map_err(|_| ()));
            w.rewrap = Some(|s| match zstd_plain_reopen(s) {
                Ok(n) => {
                    *s = n;
                    true
                }
                Err(()) => false,
            });
            w._dir = Some(d);
            (w.boxed(), ids)
        }
        "zstd_zstd_mem" => {
            let mut z = ZstdBlobStore::new(ZstdBlobStore::new(MemoryBlobStore::new(), 3), 1);
            let ids = fill(&mut z)?;
            let mut w = W::new(ZstdBlobStore::new(z.into_inner(), 1)).batching().iterable().stored(zstd_inner_size);
            // the inner store is itself a wrapper: a record put into IT must be what the outer wrapper stores
            w.inner_put = Some(|s, d| {
                let b = zstd_stored(s.compression_level(), d)?;
                s.inner_mut().put(&b).map_err(|_| ())
            });
            w.inner_remove = Some(|s, id| s.inner_mut().remove(id).map_err(|_| ()));
            w.rewrap = Some(|s| {
                let old = std::mem::replace(s, ZstdBlobStore::new(ZstdBlobStore::new(MemoryBlobStore::new(), 3), 1));
                *s = ZstdBlobStore::new(old.into_inner(), 1);
                true
            });
            (w.boxed(), ids)
        }
        "zstd_cached_mem" => {
            let mut z = ZstdBlobStore::new(MemoryBlobStore::new(), 3);
            let ids = fill(&mut z)?;
            let c = CachedBlobStore::new(z.into_inner(), PageCacheConfig::memory_optimized()).ok()?;
            let mut w = W::new(ZstdBlobStore::new(c, 3)).stored(zstd_inner_size);
            w.inner_put = Some(|s, d| {
                let b = zstd_stored(s.compression_level(), d)?;
                s.inner_mut().inner_mut().put(&b).map_err(|_| ()) // two layers down
            });
            w.inner_remove = Some(|s, id| s.inner_mut().inner_mut().remove(id).map_err(|_| ()));
            (w.boxed(), ids)
        }
        // the entropy wrappers have no inner accessors: only "wrap a populated store"
        "huff_mem" | "huff_trained_mem" | "rans_mem" | "dict_mem" => {
            let mut m = MemoryBlobStore::new();
            let ids = fill(&mut m)?;
            let b: Box<dyn Store> = match var {
                "huff_mem" => W::new(HuffmanBlobStore::new(m)).boxed(),
                "huff_trained_mem" => {
                    let mut h = HuffmanBlobStore::new(m);
                    h.add_training_data(&training("trained_text", seed));
                    h.build_tree().ok()?;
                    W::new(h).boxed()
                }
                "rans_mem" => {
                    let mut r = RansBlobStore::new(m);
                    r.train(&training("all", seed)).ok()?;
                    W::new(r).boxed()
                }
                _ => {
                    let mut x = DictionaryBlobStore::new(m);
                    x.train(&training("all", seed)).ok()?;
                    W::new(x).boxed()
                }
            };
            (b, ids)
        }
        _ => return None,
    })
}

/// a wrapper over an already populated inner store: every record is probed before the wrapper writes anything;
/// then wrapper operations interleaved with changes through inner_mut() and unwrap -> wrap again
fn wrapped_run(tr: &mut Tracer, c: &mut Counters, a: &Args, name: &str, run: usize, n: usize, steps: usize) {
    let mut rng = Rng::new(a.seed).derive(&format!("{name}/wrapped/{run}"));
    let mut fams: Vec<&'static str> = vec!["one", "eq32", "text", "rand_small", "thresh", "zeros4k"];
    if !name.contains("dictzip") {
        fams.push("empty"); // DictZipBlobStore refuses empty records
    }
    let recs: Vec<Vec<u8>> = (0..n).map(|_| payload(&fams, &mut rng)).collect();
    let dj: Vec<Value> = recs.iter().map(|d| digest(d)).collect();
    tr.reset("blobstore", name, json!({"fam":fam_of(name),"variant":variant_of(name),"regime":"wrapped","n":n,"seed":a.seed,"keyed":false}));
    c.runs += 1;
    let (mut s, ids) = match guard(|| make_wrapped(name, a.seed, &recs)) {
        Ok(Some(x)) => x,
        Ok(None) => {
            emit(tr, c, json!({"op":"build_at","ids":[],"ds":dj,"ok":false,"len_after":0}));
            return;
        }
        Err(msg) => {
            emit(tr, c, json!({"op":"panic","in":"build","msg":msg.chars().take(160).collect::<String>()}));
            return;
        }
    };
    let len_after = guard(|| s.len()).unwrap_or(usize::MAX >> 40);
    let mut alive = emit(tr, c, json!({"op":"build_at","ids":ids,"ds":dj,"ok":true,"len_after":len_after}));
    let mut issued = ids.clone();
    // before any write of the wrapper itself: every observer, every record
    let first = [Op::Probe(&probe_ids(&issued)), Op::GetBatch(&probe_ids(&issued)), Op::IterIds, Op::IterBlobs, Op::Len];
    for op in first.iter() {
        if alive {
            alive = exec(&mut s, op).map_or(true, |e| emit(tr, c, e));
        }
    }
    for id in issued.clone().iter().take(3) {
        for op in [Op::Contains(*id), Op::Size(*id), Op::Get(*id)] {
            if alive {
                alive = exec(&mut s, &op).map_or(true, |e| emit(tr, c, e));
            }
        }
    }
    for _ in 0..steps {
        if !alive {
            break;
        }
        let pick = |rng: &mut Rng, issued: &[u32]| if issued.is_empty() || rng.chance(1, 8) { *rng.pick(NEVER) } else { *rng.pick(issued) };
        let ev = match rng.below(100) {
            0..=13 => {
                let d = payload(&fams, &mut rng);
                exec(&mut s, &Op::Put(&d))
            }
            14..=27 => {
                let d = payload(&fams, &mut rng);
                exec(&mut s, &Op::InnerPut(&d))
            }
            28..=35 => exec(&mut s, &Op::Remove(pick(&mut rng, &issued))),
            36..=45 => exec(&mut s, &Op::InnerRemove(pick(&mut rng, &issued))),
            46..=55 => exec(&mut s, &Op::Get(pick(&mut rng, &issued))),
            56..=65 => exec(&mut s, &Op::Contains(pick(&mut rng, &issued))),
            66..=71 => exec(&mut s, &Op::Size(pick(&mut rng, &issued))),
            72..=75 => exec(&mut s, &Op::Len),
            76..=79 => {
                let v: Vec<u32> = (0..3).map(|_| pick(&mut rng, &issued)).collect();
                exec(&mut s, &Op::GetBatch(&v))
            }
            80..=82 => exec(&mut s, &Op::IterIds),
            83..=87 => exec(&mut s, &Op::SaveLoad), // unwrap -> wrap again
            _ => exec(&mut s, &Op::Probe(&probe_ids(&issued))),
        };
        if let Some(e) = ev {
            if e["op"] == "put" && e["ok"] == json!(true) {
                if let Some(id) = e["id"].as_u64() {
                    if !issued.contains(&(id as u32)) {
                        issued.push(id as u32);
                    }
                }
            }
            alive = emit(tr, c, e);
        }
    }
    for op in [Op::SaveLoad, Op::Probe(&probe_ids(&issued)), Op::GetBatch(&probe_ids(&issued)), Op::IterIds] {
        if alive {
            alive = exec(&mut s, &op).map_or(true, |e| emit(tr, c, e));
        }
    }
    if !alive {
        std::mem::forget(s);
    }
}

fn fam_of(name: &str) -> String {
    name.split(':').next().unwrap_or("").to_string()
}
fn variant_of(name: &str) -> String {
    name.split(':').nth(1).unwrap_or("").to_string()
}

// ---------------------------------------------------------------- executing operations

enum Op<'a> {
    Put(&'a [u8]),
    PutBatch(&'a [Vec<u8>]),
    Get(u32),
    GetBatch(&'a [u32]),
    Remove(u32),
    RemoveBatch(&'a [u32]),
    IterIds,
    IterBlobs,
    InnerPut(&'a [u8]),
    InnerRemove(u32),
    Maintain(usize),
    Clear2,
    MixedShape(&'a [u32]),
    PutBatchKeys(&'a [(Vec<u8>, Vec<u8>)]),
    Keys(Option<&'a [u8]>),
    Contains(u32),
    Size(u32),
    Len,
    Clear,
    SaveLoad,
    Probe(&'a [u32]),
    PutKey(&'a [u8], &'a [u8]),
    GetKey(&'a [u8]),
    ContainsKey(&'a [u8]),
    GetPrefix(&'a [u8]),
}
impl Op<'_> {
    fn name(&self) -> &'static str {
        match self {
            Op::Put(_) => "put",
            Op::PutBatch(_) => "put_batch",
            Op::Get(_) => "get",
            Op::GetBatch(_) => "get_batch",
            Op::Remove(_) => "remove",
            Op::RemoveBatch(_) => "remove_batch",
            Op::IterIds => "iter_ids",
            Op::IterBlobs => "iter_blobs",
            Op::InnerPut(_) => "put",
            Op::InnerRemove(_) => "remove",
            Op::Maintain(_) => "maintenance",
            Op::Clear2 => "clear",
            Op::MixedShape(_) => "mixed_shape",
            Op::PutBatchKeys(_) => "put_batch_keys",
            Op::Keys(_) => "keys",
            Op::Contains(_) => "contains",
            Op::Size(_) => "size",
            Op::Len => "len",
            Op::Clear => "clear",
            Op::SaveLoad => "saveload",
            Op::Probe(_) => "probe",
            Op::PutKey(..) => "put_key",
            Op::GetKey(_) => "get_key",
            Op::ContainsKey(_) => "contains_key",
            Op::GetPrefix(_) => "get_prefix",
        }
    }
}

fn get_json(r: &R<Vec<u8>>) -> Value {
    match r {
        Ok(b) => json!({"ok": true, "d": digest(b)}),
        Err(()) => json!({"ok": false, "d": digest(&[])}),
    }
}
fn size_json(r: &R<Option<usize>>) -> Value {
    match r {
        Ok(o) => json!({"ok": true, "r": opt(o.map(|x| x as u64))}),
        Err(()) => json!({"ok": false, "r": []}),
    }
}

/// Execute one operation on the subject and return the event to log (None = not offered by this
/// subject).  A panic of the code under test is data.
fn exec(s: &mut Box<dyn Store>, op: &Op) -> Option<Value> {
    let r = guard(|| -> Option<Value> {
        Some(match op {
            Op::Put(d) => match s.put(d) {
                Ok(id) => json!({"op":"put","d":digest(d),"ok":true,"id":id,"stored":opt(s.stored(id).map(|x| x as u64))}),
                Err(()) => json!({"op":"put","d":digest(d),"ok":false,"id":0,"stored":[]}),
            },
            Op::PutBatch(ds) => {
                let dj: Vec<Value> = ds.iter().map(|d| digest(d)).collect();
                match s.put_batch(ds.to_vec())? {
                    Ok(ids) => json!({"op":"put_batch","ds":dj,"ok":true,"ids":ids,"len_after":s.len()}),
                    // len() right after a refused batch: a cheap projection that shows whether the refusal left something behind
                    Err(()) => json!({"op":"put_batch","ds":dj,"ok":false,"ids":[],"len_after":s.len()}),
                }
            }
            Op::Get(id) => {
                let mut e = get_json(&s.get(*id));
                e["op"] = json!("get");
                e["id"] = json!(id);
                e
            }
            Op::GetBatch(ids) => match s.get_batch(ids.to_vec())? {
                Ok(v) => {
                    let r: Vec<Value> = v.iter().map(|o| match o {
                        Some(b) => json!({"some": true, "d": digest(b)}),
                        None => json!({"some": false, "d": digest(&[])}),
                    }).collect();
                    json!({"op":"get_batch","ids":ids,"ok":true,"r":r})
                }
                Err(()) => json!({"op":"get_batch","ids":ids,"ok":false,"r":[]}),
            },
            Op::Remove(id) => json!({"op":"remove","id":id,"ok":s.remove(*id).is_ok()}),
            Op::RemoveBatch(ids) => match s.remove_batch(ids.to_vec())? {
                Ok(n) => json!({"op":"remove_batch","ids":ids,"ok":true,"n":n}),
                Err(()) => json!({"op":"remove_batch","ids":ids,"ok":false,"n":0}),
            },
            Op::IterIds => json!({"op":"iter_ids","r":s.iter_ids()?}),
            Op::IterBlobs => match s.iter_blobs()? {
                Ok(v) => {
                    let r: Vec<Value> = v.iter().map(|x| match x {
                        Ok((id, b)) => json!({"ok": true, "id": id, "d": digest(b)}),
                        Err(()) => json!({"ok": false, "id": 0, "d": digest(&[])}),
                    }).collect();
                    json!({"op":"iter_blobs","ok":true,"r":r})
                }
                Err(()) => json!({"op":"iter_blobs","ok":false,"r":[]}),
            },
            // the same contract actions as put / remove: the abstract store is what the inner store holds
            Op::InnerPut(d) => match s.inner_put(d)? {
                Ok(id) => json!({"op":"put","via":"inner_mut","d":digest(d),"ok":true,"id":id,"stored":[]}),
                Err(()) => json!({"op":"put","via":"inner_mut","d":digest(d),"ok":false,"id":0,"stored":[]}),
            },
            Op::InnerRemove(id) => json!({"op":"remove","via":"inner_mut","id":id,"ok":s.inner_remove(*id)?.is_ok()}),
            Op::Maintain(i) => {
                let (what, ok) = s.maintain(*i)?;
                json!({"op":"maintenance","what":what,"ok":ok})
            }
            Op::Clear2 => {
                let (what, ok) = s.clear2()?;
                json!({"op":"clear","what":what,"ok":ok})
            }
            Op::MixedShape(ids) => s.mixed_shape(ids)?,
            Op::PutBatchKeys(kd) => {
                let ks: Vec<Value> = kd.iter().map(|(k, _)| bytes_json(k)).collect();
                let ds: Vec<Value> = kd.iter().map(|(_, d)| digest(d)).collect();
                match s.put_batch_keys(kd.to_vec())? {
                    Ok(ids) => json!({"op":"put_batch_keys","ks":ks,"ds":ds,"ok":true,"ids":ids,"len_after":s.len()}),
                    Err(()) => json!({"op":"put_batch_keys","ks":ks,"ds":ds,"ok":false,"ids":[],"len_after":s.len()}),
                }
            }
            Op::Keys(p) => {
                let pj = bytes_json(p.unwrap_or(&[]));
                match s.keys(*p)? {
                    Ok(v) => json!({"op":"keys","p":pj,"all":p.is_none(),"ok":true,"r":v.iter().map(|k| bytes_json(k)).collect::<Vec<_>>()}),
                    Err(()) => json!({"op":"keys","p":pj,"all":p.is_none(),"ok":false,"r":[]}),
                }
            }
            Op::Contains(id) => json!({"op":"contains","id":id,"r":s.contains(*id)}),
            Op::Size(id) => {
                let mut e = size_json(&s.size(*id));
                e["op"] = json!("size");
                e["id"] = json!(id);
                e
            }
            Op::Len => json!({"op":"len","r":s.len()}),
            Op::Clear => {
                if !s.clear() {
                    return None;
                }
                json!({"op":"clear","what":"clear","ok":true})
            }
            Op::SaveLoad => json!({"op":"saveload","ok":s.saveload()?.is_ok()}),
            Op::Probe(ids) => {
                let g: Vec<Value> = ids.iter().map(|&i| get_json(&s.get(i))).collect();
                let c: Vec<bool> = ids.iter().map(|&i| s.contains(i)).collect();
                let z: Vec<Value> = ids.iter().map(|&i| size_json(&s.size(i))).collect();
                json!({"op":"probe","ids":ids,"get":g,"contains":c,"size":z,"len":s.len()})
            }
            Op::PutKey(k, d) => match s.put_key(k, d)? {
                Ok(id) => json!({"op":"put_key","k":bytes_json(k),"d":digest(d),"ok":true,"id":id}),
                Err(()) => json!({"op":"put_key","k":bytes_json(k),"d":digest(d),"ok":false,"id":0}),
            },
            Op::GetKey(k) => {
                let mut e = get_json(&s.get_key(k)?);
                e["op"] = json!("get_key");
                e["k"] = bytes_json(k);
                e
            }
            Op::ContainsKey(k) => json!({"op":"contains_key","k":bytes_json(k),"r":s.contains_key(k)?}),
            Op::GetPrefix(p) => match s.get_prefix(p)? {
                Ok(v) => {
                    let r: Vec<Value> = v.iter().map(|(k, d)| json!({"k":bytes_json(k),"d":digest(d)})).collect();
                    json!({"op":"get_prefix","p":bytes_json(p),"ok":true,"r":r})
                }
                Err(()) => json!({"op":"get_prefix","p":bytes_json(p),"ok":false,"r":[]}),
            },
        })
    });
    match r {
        Ok(x) => x,
        Err(msg) => Some(json!({"op":"panic","in":op.name(),"msg":msg.chars().take(160).collect::<String>()})),
    }
}

/// Record ids are u32; TLC integers are 32-bit signed.  Ids only need equality, so every id is logged
/// reinterpreted as i32 (injective): u32::MAX appears as -1.  Applied when an event is written.
fn project_ids(mut e: Value) -> Value {
    fn p(v: &mut Value) {
        if let Some(x) = v.as_u64() {
            *v = json!(x as u32 as i32);
        }
    }
    let op = e["op"].as_str().unwrap_or("").to_string();
    if e.get("id").is_some() {
        p(&mut e["id"]);
    }
    if let Some(a) = e.get_mut("ids").and_then(|x| x.as_array_mut()) {
        a.iter_mut().for_each(p);
    }
    if op == "iter_ids" {
        if let Some(a) = e.get_mut("r").and_then(|x| x.as_array_mut()) {
            a.iter_mut().for_each(p);
        }
    }
    if op == "iter_blobs" {
        if let Some(a) = e.get_mut("r").and_then(|x| x.as_array_mut()) {
            a.iter_mut().for_each(|x| p(&mut x["id"]));
        }
    }
    e
}

/// per-subject counters for the evidence
#[derive(Default)]
struct Counters {
    events: usize,
    runs: usize,
    panics: usize,
    put_ok: usize,
    put_refused: usize,
    remove_ok: usize,
    remove_refused: usize,
    get_ok: usize,
    build_ok: usize,
    build_refused: usize,
    stored_known: usize,
    stored_differs: usize,
    get_batch: usize,
    remove_batch_ok: usize,
    remove_batch_refused: usize,
    iter_ids: usize,
}
impl Counters {
    fn note(&mut self, e: &Value) {
        self.events += 1;
        let ok = e["ok"] == json!(true);
        match e["op"].as_str().unwrap_or("") {
            "put" | "put_key" | "put_batch" => {
                if ok {
                    self.put_ok += 1
                } else {
                    self.put_refused += 1
                }
                if let Some(st) = e["stored"].as_array().and_then(|a| a.first()).and_then(|x| x.as_u64()) {
                    self.stored_known += 1;
                    if Some(st) != e["d"]["len"].as_u64() {
                        self.stored_differs += 1;
                    }
                }
            }
            "remove" => {
                if ok {
                    self.remove_ok += 1
                } else {
                    self.remove_refused += 1
                }
            }
            "get" | "get_key" => {
                if ok {
                    self.get_ok += 1
                }
            }
            "get_batch" => {
                self.get_batch += 1;
                self.get_ok += e["r"].as_array().map_or(0, |a| a.iter().filter(|g| g["some"] == json!(true)).count());
            }
            "remove_batch" => {
                if ok {
                    self.remove_batch_ok += 1
                } else {
                    self.remove_batch_refused += 1
                }
            }
            "iter_ids" => self.iter_ids += 1,
            "probe" => self.get_ok += e["get"].as_array().map_or(0, |a| a.iter().filter(|g| g["ok"] == json!(true)).count()),
            "build" | "build_keyed" | "build_at" => {
                if ok {
                    self.build_ok += 1
                } else {
                    self.build_refused += 1
                }
            }
            "panic" => self.panics += 1,
            _ => {}
        }
    }
    fn json(&self) -> Value {
        json!({"events":self.events,"runs":self.runs,"panics":self.panics,"put_ok":self.put_ok,"put_refused":self.put_refused,
            "remove_ok":self.remove_ok,"remove_refused":self.remove_refused,"get_ok":self.get_ok,"build_ok":self.build_ok,
            "build_refused":self.build_refused,"stored_size_known":self.stored_known,"stored_size_differs":self.stored_differs,
            "get_batch":self.get_batch,"remove_batch_ok":self.remove_batch_ok,"remove_batch_refused":self.remove_batch_refused,"iter_ids":self.iter_ids})
    }
}

/// log one event; returns false when the run must stop (panic: the object may be inconsistent)
fn emit(tr: &mut Tracer, c: &mut Counters, e: Value) -> bool {
    c.note(&e);
    let alive = e["op"] != "panic";
    tr.ev(project_ids(e));
    alive
}

// ---------------------------------------------------------------- B1: random histories

const NEVER: &[u32] = &[0, 1_000_000, 2_147_483_647];
/// more ids no store hands out in these runs, at the end of the id space
const NEVER_TOP: &[u32] = &[2_147_483_648, u32::MAX - 1, u32::MAX];

fn probe_ids(issued: &[u32]) -> Vec<u32> {
    let mut v: Vec<u32> = issued.to_vec();
    let mx = issued.iter().copied().max().unwrap_or(0);
    for x in NEVER.iter().chain(NEVER_TOP).copied().chain([mx.wrapping_add(1)]) {
        if !v.contains(&x) {
            v.push(x);
        }
    }
    v
}

fn allowed_families(name: &str) -> Vec<&'static str> {
    if name.starts_with("zerolen") {
        return vec!["empty", "empty", "empty", "one"];
    }
    let mut v = FAMILIES.to_vec();
    if name.contains("plain") || name.contains("l19") || name.contains("l22") {
        v.retain(|f| !f.ends_with("64k") && !f.ends_with("128k") && *f != "huge"); // fsync per record / 50-500 ms per put: keep it light
    }
    v
}

/// one seeded random history on a mutable subject
#[allow(clippy::too_many_arguments)]
fn random_run(tr: &mut Tracer, c: &mut Counters, a: &Args, name: &str, regime: &str, run: usize, steps: usize, fams: &[&'static str]) {
    let mut rng = Rng::new(a.seed).derive(&format!("{name}/{regime}/{run}"));
    let mut s = match guard(|| make(name, a.seed)) {
        Ok(Some(s)) => s,
        _ => return,
    };
    tr.reset("blobstore", name, json!({"fam":fam_of(name),"variant":variant_of(name),"regime":regime,"seed":a.seed,"keyed":false}));
    c.runs += 1;
    let mut issued: Vec<u32> = vec![];
    let mut alive = true;
    for _ in 0..steps {
        let pick_id = |rng: &mut Rng, issued: &[u32]| -> u32 {
            if issued.is_empty() || rng.chance(1, 6) {
                *rng.pick(NEVER)
            } else {
                *rng.pick(issued)
            }
        };
        let pick_ids = |rng: &mut Rng, issued: &[u32]| -> Vec<u32> {
            let n = rng.range(0, 4) as usize;
            (0..n).map(|_| pick_id(rng, issued)).collect()
        };
        let k = rng.below(100);
        let evs: Vec<Option<Value>> = match k {
            0..=29 => {
                let d = payload(fams, &mut rng);
                vec![exec(&mut s, &Op::Put(&d))]
            }
            30..=37 => {
                let n = rng.range(0, 4) as usize;
                let ds: Vec<Vec<u8>> = (0..n).map(|_| payload(fams, &mut rng)).collect();
                vec![exec(&mut s, &Op::PutBatch(&ds))]
            }
            38..=49 => vec![exec(&mut s, &Op::Remove(pick_id(&mut rng, &issued)))],
            50..=54 => vec![exec(&mut s, &Op::RemoveBatch(&pick_ids(&mut rng, &issued)))],
            55..=63 => vec![exec(&mut s, &Op::Get(pick_id(&mut rng, &issued)))],
            64..=67 => vec![exec(&mut s, &Op::GetBatch(&pick_ids(&mut rng, &issued)))],
            68..=71 => vec![exec(&mut s, &Op::Contains(pick_id(&mut rng, &issued)))],
            72..=73 => vec![exec(&mut s, &Op::IterIds)],
            74..=78 => vec![exec(&mut s, &Op::Size(pick_id(&mut rng, &issued)))],
            79..=82 => vec![exec(&mut s, &Op::Len)],
            83..=85 if !issued.is_empty() => {
                // deliberately placed: read a record (single and batch read paths), remove it through the
                // batch path, read it again through both paths -- a store that caches what it has read
                // must not answer from the cache after the removal
                let a_id = issued[issued.len() - 1 - rng.below(issued.len().min(3) as u64) as usize];
                let b_id = pick_id(&mut rng, &issued);
                let both = [a_id, b_id];
                let first: Vec<u32> = if rng.chance(1, 2) { vec![a_id] } else { vec![b_id, a_id] };
                let mut v = vec![];
                if rng.chance(2, 3) {
                    v.push(exec(&mut s, &Op::Get(a_id)));
                }
                if rng.chance(1, 2) {
                    v.push(exec(&mut s, &Op::GetBatch(&both)));
                }
                v.push(exec(&mut s, &Op::RemoveBatch(&first)));
                v.push(exec(&mut s, &Op::Get(a_id)));
                v.push(exec(&mut s, &Op::GetBatch(&both)));
                v.push(exec(&mut s, &Op::Contains(a_id)));
                v
            }
            83..=85 => vec![exec(&mut s, &Op::Len)],
            86 => vec![exec(&mut s, &Op::SaveLoad)],
            87 => vec![exec(&mut s, &Op::Clear)],
            88..=90 => {
                let i = rng.below(s.maint_count().max(1) as u64) as usize;
                vec![exec(&mut s, &Op::Maintain(i))]
            }
            91 => vec![exec(&mut s, &Op::IterBlobs)],
            92 if rng.chance(1, 3) => vec![exec(&mut s, &Op::Clear2)],
            _ => vec![exec(&mut s, &Op::Probe(&probe_ids(&issued)))],
        };
        for e in evs.into_iter().flatten() {
            if e["ok"] == json!(true) {
                if let Some(id) = e["id"].as_u64() {
                    if e["op"] == "put" && !issued.contains(&(id as u32)) {
                        issued.push(id as u32);
                    }
                }
                if let Some(ids) = e["ids"].as_array().filter(|_| e["op"] == "put_batch") {
                    for id in ids.iter().filter_map(|x| x.as_u64()) {
                        if !issued.contains(&(id as u32)) {
                            issued.push(id as u32);
                        }
                    }
                }
            }
            if alive {
                alive = emit(tr, c, e);
            }
        }
        if !alive {
            break;
        }
    }
    if alive {
        alive = exec(&mut s, &Op::IterIds).map_or(true, |e| emit(tr, c, e));
    }
    if alive {
        alive = exec(&mut s, &Op::IterBlobs).map_or(true, |e| emit(tr, c, e));
    }
    if alive {
        if let Some(e) = exec(&mut s, &Op::Probe(&probe_ids(&issued))) {
            alive = emit(tr, c, e);
        }
    }
    if !alive {
        std::mem::forget(s);
    }
}

/// fill a mutable store with n records, read every one back, remove every third, read back again
fn fill_run(tr: &mut Tracer, c: &mut Counters, a: &Args, name: &str, n: usize, fams: &[&'static str]) {
    let mut rng = Rng::new(a.seed).derive(&format!("{name}/fill/{n}"));
    let mut s = match guard(|| make(name, a.seed)) {
        Ok(Some(s)) => s,
        _ => return,
    };
    tr.reset("blobstore", name, json!({"fam":fam_of(name),"variant":variant_of(name),"regime":"fill","n":n,"seed":a.seed,"keyed":false}));
    c.runs += 1;
    let small: Vec<&'static str> = fams.iter().copied().filter(|f| !f.ends_with("64k") && !f.ends_with("128k") && *f != "zeros4k" && *f != "rand_mid" && *f != "huge").collect();
    let mut issued: Vec<u32> = vec![];
    let mut alive = true;
    let mut i = 0;
    while i < n && alive {
        // mostly single puts, sometimes a batch
        let b = if rng.chance(1, 8) { (rng.range(2, 5) as usize).min(n - i) } else { 1 };
        let ds: Vec<Vec<u8>> = (0..b).map(|_| payload(&small, &mut rng)).collect();
        let ev = if b == 1 { exec(&mut s, &Op::Put(&ds[0])) } else { exec(&mut s, &Op::PutBatch(&ds)).or_else(|| exec(&mut s, &Op::Put(&ds[0]))) };
        i += if ev.as_ref().map_or(false, |e| e["op"] == "put_batch") { b } else { 1 };
        if let Some(e) = ev {
            if let Some(id) = e["id"].as_u64().filter(|_| e["ok"] == json!(true) && e["op"] == "put") {
                issued.push(id as u32);
            }
            if let Some(ids) = e["ids"].as_array() {
                issued.extend(ids.iter().filter_map(|x| x.as_u64()).map(|x| x as u32));
            }
            alive = emit(tr, c, e);
        }
    }
    if alive {
        alive = exec(&mut s, &Op::Probe(&probe_ids(&issued))).map_or(true, |e| emit(tr, c, e));
    }
    if alive {
        alive = exec(&mut s, &Op::GetBatch(&probe_ids(&issued))).map_or(true, |e| emit(tr, c, e));
    }
    if alive {
        alive = exec(&mut s, &Op::IterIds).map_or(true, |e| emit(tr, c, e));
    }
    if alive {
        // every third record goes (all of them have just been read): the first half one by one, the rest
        // through remove_batch in chunks of up to four, where the store offers it
        let victims: Vec<u32> = issued.iter().enumerate().filter(|(j, _)| j % 3 == 1).map(|(_, id)| *id).collect();
        let (single, batched) = victims.split_at(victims.len() / 2);
        for id in single {
            if alive {
                alive = exec(&mut s, &Op::Remove(*id)).map_or(true, |e| emit(tr, c, e));
            }
        }
        for chunk in batched.chunks(4) {
            if !alive {
                break;
            }
            match exec(&mut s, &Op::RemoveBatch(chunk)) {
                Some(e) => alive = emit(tr, c, e),
                None => {
                    for id in chunk {
                        if alive {
                            alive = exec(&mut s, &Op::Remove(*id)).map_or(true, |e| emit(tr, c, e));
                        }
                    }
                }
            }
        }
    }
    if alive {
        // before and after save -> load / reopen
        alive = exec(&mut s, &Op::GetBatch(&probe_ids(&issued))).map_or(true, |e| emit(tr, c, e));
    }
    if alive {
        alive = exec(&mut s, &Op::SaveLoad).map_or(true, |e| emit(tr, c, e));
    }
    if alive {
        alive = exec(&mut s, &Op::Probe(&probe_ids(&issued))).map_or(true, |e| emit(tr, c, e));
    }
    if alive {
        alive = exec(&mut s, &Op::IterIds).map_or(true, |e| emit(tr, c, e));
    }
    if !alive {
        std::mem::forget(s);
    }
}

/// keys with prefix relations ("" , a, ab, abc, b, \0, \xff\xff, a long one)
fn key_universe() -> Vec<Vec<u8>> {
    let mut v: Vec<Vec<u8>> = vec![b"a".to_vec(), b"ab".to_vec(), b"abc".to_vec(), b"abd".to_vec(), b"b".to_vec(), b"user/1".to_vec(), b"user/12".to_vec(), b"user/2".to_vec(), vec![0], vec![0xff, 0xff], vec![]];
    let mut long = b"user/".to_vec();
    long.extend(std::iter::repeat(b'x').take(300));
    v.push(long);
    v
}

/// keyed history on NestLoudsTrieBlobStore: put_with_key / get_by_key / contains_key / get_by_prefix / remove
fn keyed_run(tr: &mut Tracer, c: &mut Counters, a: &Args, name: &str, run: usize, steps: usize, with_remove: bool) {
    let mut rng = Rng::new(a.seed).derive(&format!("{name}/keyed/{run}"));
    let mut s = match guard(|| make(name, a.seed)) {
        Ok(Some(s)) => s,
        _ => return,
    };
    tr.reset("blobstore", name, json!({"fam":fam_of(name),"variant":variant_of(name),"regime":if with_remove {"keyed_rm"} else {"keyed"},"seed":a.seed,"keyed":true}));
    c.runs += 1;
    let keys = key_universe();
    let prefixes: Vec<Vec<u8>> = vec![b"a".to_vec(), b"ab".to_vec(), b"user/".to_vec(), b"user/1".to_vec(), b"zz".to_vec(), vec![], vec![0xff]];
    let fams = ["empty", "one", "eq32", "text", "rand_small", "thresh"];
    let mut issued: Vec<u32> = vec![];
    // the key this harness supplied with each id it was handed (argument bookkeeping, logged with remove events)
    let mut key_given: HashMap<u32, Vec<u8>> = HashMap::new();
    let mut alive = true;
    for _ in 0..steps {
        let k = rng.below(100);
        let ev = match k {
            0..=27 => {
                let d = payload(&fams, &mut rng);
                let key = rng.pick(&keys).clone();
                let e = exec(&mut s, &Op::PutKey(&key, &d));
                if let Some(id) = e.as_ref().and_then(|e| e["id"].as_u64().filter(|_| e["ok"] == json!(true))) {
                    key_given.insert(id as u32, key);
                }
                e
            }
            28..=34 => {
                // the batch twin, deliberately with a key repeated inside the batch now and then
                let n = rng.range(0, 3) as usize;
                let mut kd: Vec<(Vec<u8>, Vec<u8>)> = (0..n).map(|_| (rng.pick(&keys).clone(), payload(&fams, &mut rng))).collect();
                if n >= 2 && rng.chance(1, 3) {
                    kd[n - 1].0 = kd[0].0.clone();
                }
                let e = exec(&mut s, &Op::PutBatchKeys(&kd));
                if let Some(ids) = e.as_ref().and_then(|e| e["ids"].as_array().filter(|_| e["ok"] == json!(true))) {
                    for (i, id) in ids.iter().filter_map(|x| x.as_u64()).enumerate() {
                        if let Some((key, _)) = kd.get(i) {
                            key_given.insert(id as u32, key.clone());
                            issued.push(id as u32);
                        }
                    }
                }
                e
            }
            35..=52 => {
                let key: Vec<u8> = rng.pick(&keys).clone();
                exec(&mut s, &Op::GetKey(&key))
            }
            53..=58 => {
                let key: Vec<u8> = rng.pick(&keys).clone();
                exec(&mut s, &Op::ContainsKey(&key))
            }
            59..=68 => {
                let p: Vec<u8> = rng.pick(&prefixes).clone();
                exec(&mut s, &Op::GetPrefix(&p))
            }
            69..=72 => {
                let p: Vec<u8> = rng.pick(&prefixes).clone();
                exec(&mut s, &Op::Keys(Some(&p)))
            }
            73..=74 => exec(&mut s, &Op::Keys(None)),
            75..=84 if with_remove && !issued.is_empty() => {
                let id = *rng.pick(&issued);
                let key = key_given.get(&id).cloned().unwrap_or_default();
                exec(&mut s, &Op::Remove(id)).map(|mut e| {
                    // what the key index says about that key right after the call (cheap projection)
                    e["k"] = bytes_json(&key);
                    e["key_after"] = json!(guard(|| s.contains_key(&key)).ok().flatten().unwrap_or(false));
                    e
                })
            }
            75..=84 => exec(&mut s, &Op::Get(if issued.is_empty() { 0 } else { *rng.pick(&issued) })),
            _ => exec(&mut s, &Op::Probe(&probe_ids(&issued))),
        };
        if let Some(e) = ev {
            if e["op"] == "put_key" && e["ok"] == json!(true) {
                if let Some(id) = e["id"].as_u64() {
                    issued.push(id as u32);
                }
            }
            alive = emit(tr, c, e);
        }
        if !alive {
            break;
        }
    }
    // every other run ends with finalize(): the store turns read-only (refusals), every answer stays the same
    let tail: Vec<Op> = if run % 2 == 0 { vec![Op::Maintain(1)] } else { vec![] };
    for op in tail.iter() {
        if alive {
            alive = exec(&mut s, op).map_or(true, |e| emit(tr, c, e));
        }
    }
    if alive {
        for key in keys.iter() {
            if alive {
                alive = exec(&mut s, &Op::GetKey(key)).map_or(true, |e| emit(tr, c, e));
            }
        }
    }
    if alive {
        for p in [&b"user/"[..], &b""[..]] {
            if alive {
                alive = exec(&mut s, &Op::GetPrefix(p)).map_or(true, |e| emit(tr, c, e));
            }
        }
    }
    for op in [Op::Keys(None), Op::Probe(&probe_ids(&issued)), Op::IterIds, Op::IterBlobs, Op::PutKey(b"late", b"after the end"), Op::GetKey(b"late")] {
        if alive {
            alive = exec(&mut s, &op).map_or(true, |e| emit(tr, c, e));
        }
    }
    if !alive {
        std::mem::forget(s);
    }
}

// ---------------------------------------------------------------- B1: bulk builds

const PROFILES: &[&str] = &["all_empty", "equal16", "mixed16", "text", "big_first", "ragged", "thresh", "long_runs"];
/// lengths of the delimiter-free runs of profile "long_runs": both sides of 2^16 (a fragment length that no longer fits
/// 16 bits), 200 000, both sides of the 1 MiB upper bound of SimpleZipConfig::max_frag_len, and small ones
const RUNS: &[usize] = &[65535, 65536, 65537, 200_000, (1 << 20) - 1, 1 << 20, (1 << 20) + 1, 5, 131_073, 0, 70_000, 300];
/// a run without any delimiter of the default set (\n \r \t space) or of the custom sets used here ('|', NUL)
fn run_of(len: usize, r: &mut Rng) -> Vec<u8> {
    let (a, b) = (r.next(), r.next() | 1);
    (0..len as u64).map(|i| b'A' + ((a.wrapping_add(i.wrapping_mul(b)) >> 7) % 58) as u8).map(|c| if c == b'|' { b'#' } else { c }).collect()
}
fn bulk_records(profile: &str, n: usize, r: &mut Rng) -> Vec<Vec<u8>> {
    (0..n)
        .map(|i| match profile {
            "all_empty" => vec![],
            "equal16" => r.bytes(16),
            "mixed16" => {
                if r.chance(3, 5) {
                    r.bytes(16)
                } else {
                    let n = r.below(41) as usize;
                    r.bytes(n)
                }
            }
            "text" => text_line(r),
            // one delimiter-free run per record; every fourth record: two runs joined by each kind of delimiter
            "long_runs" => {
                let mut v = run_of(RUNS[i % RUNS.len()], r);
                if i % 4 == 3 {
                    v.extend_from_slice(b" |");
                    v.extend(run_of(70_000, r));
                }
                v
            }
            // record lengths t-1, t, t+1 around every threshold of the stores' code, in turn
            "thresh" => {
                let t = THRESHOLDS[i % THRESHOLDS.len()];
                let len = t + (i / THRESHOLDS.len()) % 3 - 1;
                if i % 2 == 0 {
                    r.bytes(len)
                } else {
                    let mut v = corpus(i as u64, len);
                    v.truncate(len);
                    v
                }
            }
            "big_first" => {
                if i == 0 {
                    compressible_64k(r)
                } else {
                    let n = r.below(24) as usize;
                    r.bytes(n)
                }
            }
            _ => {
                let n = r.below(300) as usize;
                r.bytes(n)
            }
        })
        .collect()
}

fn bulk_run(tr: &mut Tracer, c: &mut Counters, a: &Args, name: &str, profile: &str, n: usize) {
    let mut rng = Rng::new(a.seed).derive(&format!("{name}/{profile}/{n}"));
    let var = variant_of(name);
    let stringy = name.starts_with("triefrom:") && var != "kv";
    let recs = if stringy {
        // constructors taking string vectors: ascending, distinct, NUL-free text; at most 32 bytes for FixedLenStrVec<32>
        strings(rng.next(), n).into_iter().map(|x| if var == "fixed" { x[..x.len().min(32)].to_string() } else { x }.into_bytes()).collect()
    } else {
        bulk_records(profile, n, &mut rng)
    };
    let dj: Vec<Value> = recs.iter().map(|d| digest(d)).collect();
    tr.reset("blobstore", name, json!({"fam":fam_of(name),"variant":variant_of(name),"regime":"bulk","profile":profile,"n":n,"seed":a.seed,"keyed":false}));
    c.runs += 1;
    let (mut s, built) = match guard(|| build(name, &recs)) {
        Ok(Ok(s)) => s,
        Ok(Err(msg)) => {
            emit(tr, c, json!({"op":"build","ds":dj,"ok":false,"len_after":0,"msg":msg.chars().take(120).collect::<String>()}));
            return;
        }
        Err(msg) => {
            emit(tr, c, json!({"op":"panic","in":"build","msg":msg.chars().take(160).collect::<String>()}));
            return;
        }
    };
    let len_after = guard(|| s.len()).unwrap_or(usize::MAX >> 40);
    let ids: Vec<u32> = built.ids.clone().unwrap_or_else(|| (0..n as u32).collect());
    let build_ev = match (&built.ids, &built.keys) {
        (Some(ids), _) => json!({"op":"build_at","ids":ids,"ds":dj,"ok":true,"len_after":len_after}),
        (None, Some(ks)) => json!({"op":"build_keyed","ks":ks.iter().map(|k| bytes_json(k)).collect::<Vec<_>>(),"ds":dj,"ok":true,"len_after":len_after}),
        (None, None) => json!({"op":"build","ds":dj,"ok":true,"len_after":len_after}),
    };
    let mut alive = emit(tr, c, build_ev);
    let pids = probe_ids(&ids);
    if alive {
        alive = exec(&mut s, &Op::Probe(&pids)).map_or(true, |e| emit(tr, c, e));
    }
    if alive {
        alive = exec(&mut s, &Op::IterBlobs).map_or(true, |e| emit(tr, c, e));
    }
    if alive {
        alive = exec(&mut s, &Op::MixedShape(&pids)).map_or(true, |e| emit(tr, c, e));
    }
    for i in 0..s.maint_count() {
        if alive {
            alive = exec(&mut s, &Op::Maintain(i)).map_or(true, |e| emit(tr, c, e));
        }
    }
    if let Some(ks) = &built.keys {
        // keyed reads of a keyed build: first / middle / last entry, a key given several times, a key never given
        let mut some: Vec<Vec<u8>> = [0, n / 2, n.saturating_sub(1)].iter().filter_map(|&i| ks.get(i).cloned()).collect();
        some.push(b"no such key".to_vec());
        for k in some {
            if alive {
                alive = exec(&mut s, &Op::GetKey(&k)).map_or(true, |e| emit(tr, c, e));
            }
            if alive {
                alive = exec(&mut s, &Op::ContainsKey(&k)).map_or(true, |e| emit(tr, c, e));
            }
        }
        if alive && n <= 130 {
            alive = exec(&mut s, &Op::Keys(None)).map_or(true, |e| emit(tr, c, e));
        }
        if alive {
            let p: Vec<u8> = ks.get(n / 2).map(|k| k[..k.len().saturating_sub(1)].to_vec()).unwrap_or_default();
            alive = exec(&mut s, &Op::Keys(Some(&p))).map_or(true, |e| emit(tr, c, e));
            if alive && n <= 130 {
                alive = exec(&mut s, &Op::GetPrefix(&p)).map_or(true, |e| emit(tr, c, e));
            }
        }
    }
    // a built store may be read-only: put / remove may be refused, never answered wrongly
    let extra = if name.starts_with("zerolen") { vec![] } else { b"one more record".to_vec() };
    let mut more = pids.clone();
    if alive {
        if let Some(e) = exec(&mut s, &Op::Put(&extra)) {
            if let Some(id) = e["id"].as_u64().filter(|_| e["ok"] == json!(true)) {
                if !more.contains(&(id as u32)) {
                    more.push(id as u32);
                }
            }
            alive = emit(tr, c, e);
        }
    }
    if alive {
        alive = exec(&mut s, &Op::IterIds).map_or(true, |e| emit(tr, c, e));
    }
    if alive {
        // batch read: block boundaries, first and last ids, ids never handed out
        let some: Vec<u32> = more.iter().copied().filter(|&i| i as usize + 3 >= n || i < 3 || (i + 1) % 64 < 3).collect();
        alive = exec(&mut s, &Op::GetBatch(&some)).map_or(true, |e| emit(tr, c, e));
    }
    if alive && n > 0 {
        alive = exec(&mut s, &Op::Remove(ids[n / 2])).map_or(true, |e| emit(tr, c, e));
    }
    if alive && n > 1 {
        alive = exec(&mut s, &Op::RemoveBatch(&[ids[(n / 2 + 1).min(n - 1)], ids[0], NEVER[1]])).map_or(true, |e| emit(tr, c, e));
    }
    let mut reloaded = false;
    if alive {
        if let Some(e) = exec(&mut s, &Op::SaveLoad) {
            reloaded = true;
            alive = emit(tr, c, e);
        }
    }
    if alive {
        // after save -> load every record is read back again; otherwise the neighbourhood of the
        // ids just touched, the block boundaries and the ids that were never handed out
        let near: Vec<u32> = if reloaded {
            more
        } else {
            more.iter().copied().filter(|&i| i as usize >= n || (i as usize + 2 >= n / 2 && i as usize <= n / 2 + 2) || i < 2 || (i + 1) % 64 < 3).collect()
        };
        alive = exec(&mut s, &Op::Probe(&near)).map_or(true, |e| emit(tr, c, e));
    }
    if !alive {
        std::mem::forget(s);
    }
}

fn drive(a: &Args) {
    let _ = std::fs::create_dir_all(TMP_ROOT);
    let msubs: Vec<String> = mutable_subjects().into_iter().filter(|s| a.wants(s)).collect();
    let bsubs: Vec<String> = bulk_subjects().into_iter().filter(|s| a.wants(s)).collect();
    let all: Vec<(bool, String)> = msubs.iter().map(|s| (false, s.clone())).chain(bsubs.iter().map(|s| (true, s.clone()))).collect();
    let next = AtomicUsize::new(0);
    let results = std::sync::Mutex::new(Vec::<(String, Value)>::new());
    let totals = std::sync::Mutex::new((0usize, 0usize, Vec::<String>::new()));
    let nthreads = a.get_u64("threads", 12) as usize;
    let thorough = a.thorough();
    std::thread::scope(|sc| {
        for t in 0..nthreads {
            let (results, totals, next, all) = (&results, &totals, &next, &all);
            sc.spawn(move || {
                // subjects recorded to deviate (--isolate) get a trace file of their own, so that one
                // deviating subject never forces TLC to re-validate the others; the rest share a file per thread
                let mut shared = Tracer::new(&a.out, &format!("bs-t{t:02}"));
                shared.max_events = 4000;
                loop {
                    let i = next.fetch_add(1, Ordering::SeqCst);
                    if i >= all.len() {
                        break;
                    }
                    let (bulk, name) = &all[i];
                    let t0 = thread_cpu_ms();
                    let mut own = if isolated(a, name) {
                        let mut x = Tracer::new(&a.out, &format!("bs-s{i:03}"));
                        x.max_events = usize::MAX;
                        Some(x)
                    } else {
                        None
                    };
                    let tr: &mut Tracer = match own.as_mut() {
                        Some(x) => x,
                        None => &mut shared,
                    };
                    let mut c = Counters::default();
                    if *bulk {
                        drive_bulk(tr, &mut c, a, name, thorough);
                    } else {
                        drive_mutable(tr, &mut c, a, name, thorough);
                    }
                    let mut cj = c.json();
                    cj["cpu_ms"] = json!(thread_cpu_ms() - t0);
                    results.lock().unwrap().push((name.clone(), cj));
                    if let Some(mut x) = own {
                        x.close();
                        let mut g = totals.lock().unwrap();
                        g.0 += x.total_events;
                        g.1 += x.runs;
                        g.2.extend(x.files.iter().map(|p| p.display().to_string()));
                    }
                }
                shared.close();
                let mut g = totals.lock().unwrap();
                g.0 += shared.total_events;
                g.1 += shared.runs;
                g.2.extend(shared.files.iter().map(|p| p.display().to_string()));
            });
        }
    });
    let mut per_subject = serde_json::Map::new();
    for (name, v) in results.into_inner().unwrap() {
        per_subject.insert(name, v);
    }
    let (events, runs, mut files) = totals.into_inner().unwrap();
    files.sort();
    let _ = std::fs::remove_dir(TMP_ROOT);
    write_summary(&a.out, &json!({"mode":"drive","events":events,"runs":runs,"files":files,"subjects":per_subject,
        "mutable_subjects":msubs.len(),"bulk_subjects":bsubs.len()}));
}

/// CPU time of the calling thread in ms (wall time says little on a loaded machine)
fn thread_cpu_ms() -> u64 {
    let mut ts = libc::timespec { tv_sec: 0, tv_nsec: 0 };
    unsafe {
        libc::clock_gettime(libc::CLOCK_THREAD_CPUTIME_ID, &mut ts);
    }
    ts.tv_sec as u64 * 1000 + ts.tv_nsec as u64 / 1_000_000
}

fn isolated(a: &Args, name: &str) -> bool {
    a.get("isolate").map_or(false, |l| l.split(',').any(|p| !p.is_empty() && name.starts_with(p)))
}

fn drive_bulk(tr: &mut Tracer, c: &mut Counters, a: &Args, name: &str, thorough: bool) {
    if name.starts_with("wrap:") {
        let io = name.contains("plain");
        let runs = match (thorough, io) {
            (false, false) => 5,
            (false, true) => 2,
            (true, false) => 40,
            (true, true) => 8,
        };
        for run in 0..runs {
            wrapped_run(tr, c, a, name, run, [0, 1, 5, 12, 40][run % 5], if io { 30 } else { 60 });
        }
        return;
    }
    let sizes: Vec<usize> = if thorough {
        vec![0, 1, 2, 63, 64, 65, 127, 128, 129, 255, 256, 257, 511, 512, 513, 1023, 1024, 1025, 4097]
    } else {
        vec![0, 1, 2, 63, 64, 65, 127, 128, 129, 255, 256, 257, 511, 512, 513]
    };
    for p in PROFILES {
        if name.starts_with("zerolen") && *p != "all_empty" {
            continue;
        }
        // the string-vector constructors generate their own (string) records: one profile
        let stringy = name.starts_with("triefrom:") && name != "triefrom:kv";
        if stringy && *p != "ragged" {
            continue;
        }
        for &n in &sizes {
            if (name.ends_with("vec_u8") || name.ends_with("slice_u8")) && n > 1 {
                continue;
            }
            // the long delimiter-free runs: one build holding every run length once (about 4.5 MB)
            if *p == "long_runs" {
                if n != 1 {
                    continue;
                }
                bulk_run(tr, c, a, name, p, RUNS.len());
                continue;
            }
            // ids at both ends of the id space: the point is the wrap of the id counter, not the size
            // (TLC overflows its stack building functions over thousands of scattered negative ids)
            if name == "mem:from_data_top" && n > 513 {
                continue;
            }
            // every size with the two irregular profiles; the regular ones and the 64 KiB
            // record (x compression level 9 adds up) with a few sizes
            let few: &[usize] = if *p == "big_first" {
                &[1, 65, 129]
            } else if thorough {
                &[0, 1, 2, 64, 65, 128, 256, 257, 513, 1025]
            } else {
                &[0, 1, 65, 256, 513]
            };
            if !["mixed16", "ragged"].contains(p) && !few.contains(&n) {
                continue;
            }
            bulk_run(tr, c, a, name, p, n);
        }
    }
}

fn drive_mutable(tr: &mut Tracer, c: &mut Counters, a: &Args, name: &str, thorough: bool) {
    let fams = allowed_families(name);
    let light: Vec<&'static str> = fams.iter().copied().filter(|f| !f.ends_with("64k") && !f.ends_with("128k") && *f != "huge").collect();
    let heavy_io = name.contains("plain") || name.contains("l19"); // fsync per record / ~50 ms per put
    if name.contains("l22") {
        // zstd level 22: ~0.5 s per put; the clamp at the top of the level range only needs a handful of records
        random_run(tr, c, a, name, "small", 0, 14, &["empty", "one", "eq32", "text"]);
        return;
    }
    let (r1, r2, r3) = match (thorough, heavy_io) {
        (false, false) => (4, 2, 2),
        (false, true) => (2, 1, 1),
        (true, false) => (40, 20, 10),
        (true, true) => (8, 4, 2),
    };
    if name.starts_with("triekey") {
        for run in 0..r1 + 1 {
            keyed_run(tr, c, a, name, run, 70, false);
            keyed_run(tr, c, a, name, run, 70, true);
        }
        return;
    }
    let small: Vec<&'static str> = ["empty", "one", "eq32", "text"].iter().copied().filter(|f| fams.contains(f)).collect();
    for run in 0..r1 {
        random_run(tr, c, a, name, "small", run, 50, &small);
    }
    for run in 0..r2 {
        random_run(tr, c, a, name, "mixed", run, 90, &light);
    }
    for run in 0..r3 {
        random_run(tr, c, a, name, "heavy", run, 40, &fams);
    }
    let sizes: &[usize] = if thorough && !heavy_io { &[0, 1, 63, 64, 65, 127, 128, 129, 1025] } else if heavy_io { &[0, 1, 65] } else { &[0, 1, 65, 129] };
    for &n in sizes {
        fill_run(tr, c, a, name, n, &fams);
    }
}

// ---------------------------------------------------------------- B2: TLC behaviours

/// a behaviour = JSON array of steps {op, rs, i, ids, st}: abstract records "r1".., ids = issue indices
fn replay(a: &Args) {
    let _ = std::fs::create_dir_all(TMP_ROOT);
    let input = a.input.clone().expect("--in");
    let text = std::fs::read_to_string(&input).expect("read behaviours");
    let behaviours: Vec<Value> = text.lines().filter(|l| !l.trim().is_empty()).map(|l| serde_json::from_str(l).expect("behaviour json")).collect();
    // the histories run on every mutable subject except the keyed ones (own driver) and the constructor twins of
    // DictZipBlobStore (0.1-0.3 s of dictionary training each; the store type is covered by the other dictzip subjects)
    let skip = |s: &str| {
        s.starts_with("triekey") || s.starts_with("dictzip:from_") || s == "dictzip:external_dict" || s == "dictzip:builder_setters" || s == "zstd:mem_l22" || s.starts_with("dictzip:ratio")
    };
    let subs: Vec<String> = mutable_subjects().into_iter().filter(|s| a.wants(s) && !skip(s)).collect();
    let next = AtomicUsize::new(0);
    let results = std::sync::Mutex::new(Vec::<(String, Value, usize)>::new());
    let totals = std::sync::Mutex::new((0usize, 0usize, Vec::<String>::new()));
    let nthreads = a.get_u64("threads", 14) as usize;
    std::thread::scope(|sc| {
        for t in 0..nthreads {
            let (results, totals, next, subs, behaviours) = (&results, &totals, &next, &subs, &behaviours);
            sc.spawn(move || {
                let mut shared = Tracer::new(&a.out, &format!("bsb2-t{t:02}"));
                shared.max_events = 4000;
                loop {
                    let i = next.fetch_add(1, Ordering::SeqCst);
                    if i >= subs.len() {
                        break;
                    }
                    let mut own = if isolated(a, &subs[i]) {
                        let mut x = Tracer::new(&a.out, &format!("bsb2-s{i:03}"));
                        x.max_events = usize::MAX;
                        Some(x)
                    } else {
                        None
                    };
                    let tr: &mut Tracer = match own.as_mut() {
                        Some(x) => x,
                        None => &mut shared,
                    };
                    let (v, ex) = replay_subject(a, tr, &subs[i], i, behaviours);
                    results.lock().unwrap().push((subs[i].clone(), v, ex));
                    if let Some(mut x) = own {
                        x.close();
                        let mut g = totals.lock().unwrap();
                        g.0 += x.total_events;
                        g.1 += x.runs;
                        g.2.extend(x.files.iter().map(|p| p.display().to_string()));
                    }
                }
                shared.close();
                let mut g = totals.lock().unwrap();
                g.0 += shared.total_events;
                g.1 += shared.runs;
                g.2.extend(shared.files.iter().map(|p| p.display().to_string()));
            });
        }
    });
    let mut per_subject = serde_json::Map::new();
    let mut total_exec = 0usize;
    for (name, v, ex) in results.into_inner().unwrap() {
        per_subject.insert(name, v);
        total_exec += ex;
    }
    let (events, runs, mut files) = totals.into_inner().unwrap();
    files.sort();
    let _ = std::fs::remove_dir(TMP_ROOT);
    write_summary(&a.out, &json!({"mode":"replay","behaviours":behaviours.len(),"executions":total_exec,"events":events,"runs":runs,
        "files":files,"subjects":per_subject}));
}

fn rec_index(v: &Value) -> usize {
    v.as_str().and_then(|x| x[1..].parse::<usize>().ok()).unwrap_or(1) - 1
}

fn replay_subject(a: &Args, tr: &mut Tracer, name: &str, idx: usize, behaviours: &[Value]) -> (Value, usize) {
    let t0 = thread_cpu_ms();
    let mut c = Counters::default();
    let mut rng = Rng::new(a.seed).derive("b2sample").derive(name);
    let sample_every = a.get_u64("sample", 300);
    let max_mismatch_traces = a.get_u64("max_mismatch", 60) as usize;
    // how many of the behaviours this subject executes (expensive constructors / file I/O: a seeded subset)
    let stride = if name.contains("plain") {
        a.get_u64("stride_io", 40)
    } else if name.contains("l19") {
        a.get_u64("stride_slow", 400) // zstd level 19: ~50 ms per put
    } else if name == "trie:memory" {
        10 // ~2 ms per put
    } else if name.contains("dictzip") {
        // dictionary training per rebuilt store: a seeded half / sixth of the behaviours
        // (the thorough tier has 17x the behaviours: wider strides keep the slowest subject within minutes)
        match (name == "dictzip:small", a.thorough()) {
            (true, false) => 2,
            (true, true) => 8,
            (false, false) => a.get_u64("stride_dz", 6),
            (false, true) => 16,
        }
    } else if name == "stack:zstd_zstd_mem" || name == "trie:security" {
        3
    } else if a.thorough() && name.starts_with("zstd:mem_l") {
        3
    } else {
        1
    };
    // DictZipBlobStore refuses empty records: the concretisations containing one run on a tenth of the behaviours
    let rare_empty = name.contains("dictzip");
    let concs: Vec<&str> = if name.starts_with("zerolen") {
        vec!["allempty", "tiny"]
    } else {
        CONCS.iter().copied().filter(|c| *c != "allempty").collect()
    };
    let recs: Vec<[Vec<u8>; 3]> = concs.iter().map(|c| concretise(c, a.seed)).collect();
    let dig: Vec<[Value; 3]> = recs.iter().map(|r| [digest(&r[0]), digest(&r[1]), digest(&r[2])]).collect();
    let (mut executed, mut mism, mut written, mut unsupported) = (0usize, 0usize, 0usize, 0usize);
    let reuse = name.contains("dictzip") || name.contains("dict:trained") || name.contains("dict_zstd");
    let mut pool: Option<Box<dyn Store>> = None;
    let mut nb = idx; // staggered per subject
    for (bi, b) in behaviours.iter().enumerate() {
        if stride > 1 && (bi as u64 + idx as u64) % stride != 0 {
            continue;
        }
        let steps = match b.as_array() {
            Some(x) => x,
            None => continue,
        };
        nb += 1; // index among the behaviours this subject executes
        let via_batch = nb % 2 == 1;
        for (ci, conc) in concs.iter().enumerate() {
            // the 64 KiB concretisation on a seeded tenth of the behaviours
            if (*conc == "big" || (rare_empty && *conc == "tiny")) && nb % (if rare_empty { 30 } else { 10 }) != 0 {
                continue;
            }
            // subjects with an expensive constructor (dictionary training) are reused across behaviours:
            // after a behaviour every id handed out is removed again, and the next trace starts with
            // a len() event showing the store empty (all the contract assumes about a fresh store)
            let mut s = match pool.take() {
                Some(s) => s,
                None => match guard(|| make(name, a.seed)) {
                    Ok(Some(s)) => s,
                    _ => break,
                },
            };
            let mut evs: Vec<Value> = vec![];
            if reuse {
                evs.extend(exec(&mut s, &Op::Len));
            }
            let mut differs = false;
            let mut dead = false;
            let mut skip = false;
            let mut got_ids: Vec<Option<u32>> = vec![]; // issue index -> id handed out (None: the put was refused)
            for st in steps {
                let op = st["op"].as_str().unwrap_or("");
                let rs: Vec<Vec<u8>> = st["rs"].as_array().map(|x| x.iter().map(|r| recs[ci][rec_index(r)].clone()).collect()).unwrap_or_default();
                let e = match op {
                    "put" => exec(&mut s, &Op::Put(&rs[0])),
                    "put_batch" => exec(&mut s, &Op::PutBatch(&rs)),
                    "remove" => {
                        let i = st["i"].as_u64().unwrap_or(0) as usize;
                        let id = if i == 0 { NEVER[1] } else { got_ids.get(i - 1).copied().flatten().unwrap_or(NEVER[2]) };
                        // the abstract remove(i) is executed through remove_batch([id]) on every other
                        // behaviour where the store offers it (same contract: RemoveBatch(<<id>>) = Remove(id))
                        if via_batch { exec(&mut s, &Op::RemoveBatch(&[id])).or_else(|| exec(&mut s, &Op::Remove(id))) } else { exec(&mut s, &Op::Remove(id)) }
                    }
                    _ => None,
                };
                let e = match e {
                    Some(e) => e,
                    None => {
                        skip = true; // operation not offered by this subject
                        break;
                    }
                };
                if e["op"] == "panic" {
                    dead = true;
                    differs = true;
                    evs.push(e);
                    break;
                }
                match op {
                    "put" => got_ids.push(e["id"].as_u64().filter(|_| e["ok"] == json!(true)).map(|x| x as u32)),
                    "put_batch" => {
                        let ids: Vec<u32> = e["ids"].as_array().map(|x| x.iter().filter_map(|v| v.as_u64()).map(|v| v as u32).collect()).unwrap_or_default();
                        for j in 0..rs.len() {
                            got_ids.push(ids.get(j).copied().filter(|_| e["ok"] == json!(true)));
                        }
                    }
                    _ => {}
                }
                evs.push(e);
                // observable projection after the step, compared with the state TLC computed
                let mut pids: Vec<u32> = got_ids.iter().flatten().copied().collect();
                for x in [NEVER[1], NEVER[2]] {
                    if !pids.contains(&x) {
                        pids.push(x);
                    }
                }
                let p = exec(&mut s, &Op::Probe(&pids)).unwrap();
                if p["op"] == "panic" {
                    dead = true;
                    differs = true;
                    evs.push(p);
                    break;
                }
                // expected: st = [[issue index, "rK"], ...]
                let exp: HashMap<usize, usize> = st["st"].as_array().map(|x| x.iter().map(|q| (q[0].as_u64().unwrap_or(0) as usize, rec_index(&q[1]))).collect()).unwrap_or_default();
                let mut same = p["len"].as_u64() == Some(exp.len() as u64);
                for (j, gid) in got_ids.iter().enumerate() {
                    let want = exp.get(&(j + 1));
                    match (gid, want) {
                        (None, None) => {}
                        (None, Some(_)) => same = false, // refused put: TLC judges whether that is a refusal
                        (Some(id), w) => {
                            let pos = pids.iter().position(|x| x == id).unwrap();
                            let g = &p["get"][pos];
                            let live = g["ok"] == json!(true);
                            match w {
                                Some(&ri) => {
                                    same &= live && g["d"] == dig[ci][ri] && p["contains"][pos] == json!(true) && p["size"][pos]["r"] == json!([recs[ci][ri].len()]);
                                }
                                None => {
                                    // an id may legitimately be live again only if it was re-issued to a later record
                                    let reissued = got_ids.iter().skip(j + 1).any(|x| x == gid);
                                    same &= reissued || (!live && p["contains"][pos] == json!(false) && p["size"][pos]["r"] == json!([]));
                                }
                            }
                        }
                    }
                }
                for x in [NEVER[1], NEVER[2]] {
                    if !got_ids.contains(&Some(x)) {
                        let pos = pids.iter().position(|y| *y == x).unwrap();
                        same &= p["get"][pos]["ok"] == json!(false) && p["contains"][pos] == json!(false);
                    }
                }
                if !same {
                    differs = true;
                }
                // the batch read path must give the same answers as the single reads just compared
                let gb = if via_batch { exec(&mut s, &Op::GetBatch(&pids)) } else { None };
                if let Some(g) = &gb {
                    let agree = g["ok"] == json!(true)
                        && (0..pids.len()).all(|i| g["r"][i]["some"] == p["get"][i]["ok"] && (p["get"][i]["ok"] == json!(false) || g["r"][i]["d"] == p["get"][i]["d"]));
                    if !agree {
                        differs = true;
                    }
                }
                evs.push(p);
                if let Some(g) = gb {
                    if g["op"] == "panic" {
                        dead = true;
                        differs = true;
                        evs.push(g);
                        break;
                    }
                    evs.push(g);
                }
            }
            if dead {
                std::mem::forget(s);
            } else if reuse {
                let clean = guard(|| {
                    for id in got_ids.iter().flatten() {
                        if s.contains(*id) {
                            let _ = s.remove(*id);
                        }
                    }
                    s.len() == 0
                });
                match clean {
                    Ok(true) => pool = Some(s),
                    Ok(false) => drop(s),
                    Err(_) => std::mem::forget(s),
                }
            }
            if skip {
                unsupported += 1;
                continue;
            }
            executed += 1;
            let sampled = rng.below(sample_every) == 0;
            if differs {
                mism += 1;
            }
            if (differs && written < max_mismatch_traces) || sampled {
                if differs {
                    written += 1;
                }
                tr.reset("blobstore", name, json!({"fam":fam_of(name),"variant":variant_of(name),"regime":"b2","conc":conc,"behaviour":bi,"b2":true,"via_batch":via_batch,"differs":differs,"keyed":false}));
                c.runs += 1;
                for e in evs {
                    c.note(&e);
                    tr.ev(project_ids(e));
                }
            }
        }
    }
    let mut v = c.json();
    v["behaviours"] = json!(executed);
    v["unsupported"] = json!(unsupported);
    v["mismatching"] = json!(mism);
    v["mismatch_traces_written"] = json!(written);
    v["cpu_ms"] = json!(thread_cpu_ms() - t0);
    (v, executed)
}

// ---------------------------------------------------------------- development aid

fn bench(a: &Args) {
    for name in mutable_subjects().into_iter().filter(|s| a.wants(s)) {
        let n = 10;
        let (mut ok, mut t_make, mut t_ops) = (0, 0u128, 0u128);
        for _ in 0..n {
            let t = std::time::Instant::now();
            let made = guard(|| make(&name, a.seed));
            t_make += t.elapsed().as_micros();
            if let Ok(Some(mut s)) = made {
                ok += 1;
                let t = std::time::Instant::now();
                let _ = guard(|| {
                    let id = s.put(b"hello hello hello hello hello hello hello hello hello hello hello hello hello").ok();
                    id.map(|i| s.get(i).ok())
                });
                t_ops += t.elapsed().as_micros();
            }
        }
        println!("{name:32} constructed {ok}/{n}  make {:9.1} us  put+get {:9.1} us", t_make as f64 / n as f64, t_ops as f64 / n as f64);
    }
}

fn main() {
    let a = Args::parse();
    quiet_panics();
    if a.mode == "drive" || a.mode == "replay" {
        // the library prints debug lines (FSE encoder) on stdout; results go to files only
        unsafe {
            let fd = libc::open(b"/dev/null\0".as_ptr() as *const libc::c_char, libc::O_WRONLY);
            if fd >= 0 {
                libc::dup2(fd, 1);
            }
        }
    }
    match a.mode.as_str() {
        "drive" => drive(&a),
        "replay" => replay(&a),
        "bench" => bench(&a),
        "subjects" => {
            for s in mutable_subjects().into_iter().chain(bulk_subjects()) {
                println!("{s}");
            }
        }
        m => {
            eprintln!("c03: unknown mode {m}");
            std::process::exit(2)
        }
    }
}
