//! C12 — suffix arrays order all suffixes; LCP, BWT and pattern search are exact.
//!
//! Runs the real zipora suffix-array code on generated texts and logs what it returned as
//! NDJSON batch events; TLC judges them against spec/SuffixArray.tla (Trace_SuffixArray.tla).
//! This file contains no suffix sorting, no LCP and no search of its own: it generates texts
//! and patterns, calls zipora, and writes down the answers.  The only computation on answers
//! is the *projection* of large cases (mode drive, family "big"): permutation flag and number
//! of adjacent rank pairs whose suffixes are out of order (generic slice comparison).
//!
//! subjects (reset.subject):
//!   sab:<algo>       algorithms::suffix_array::SuffixArrayBuilder::build, algorithm fixed
//!                    (sais, divsufsort, dc3, ls, adaptive; sais_noopt = optimize_small_alphabet off;
//!                    sais_par = parallel path forced) + LcpArray::new + search / search_range
//!   sa:new           SuffixArray::new (default configuration) + Algorithm::execute
//!   esa:lcp esa:bwt  algorithms::suffix_array::EnhancedSuffixArray::{with_lcp, with_bwt}
//!   csa:<preset>     compression::suffix_array::SuffixArrayCompressor (default, dict, realtime, large)
//!   dict:<variant>   compression::dict_zip::SuffixArrayDictionary: sa_match_continuation, da_match_max_length,
//!                    find_longest_match, sa_equal_range, find_all_matches, dictionary_text, match_count;
//!                    variants: adaptive | sais (array construction), min4 (min/max_pattern_length 4/8),
//!                    serde (deserialize(serialize)), file (save_to_file / load_from_file), optimized (optimize_cache)
//!
//! modes: drive (default) | subjects.   --text <hex> : only this text (replay of one case).
use serde_json::{json, Value};
use std::collections::BTreeMap;
use zipora::algorithms::suffix_array::{
    EnhancedSuffixArray, LcpArray, SuffixArray, SuffixArrayAlgorithm, SuffixArrayBuilder, SuffixArrayConfig,
};
use zipora::algorithms::Algorithm;
use zipora::compression::dict_zip::{DfaCacheConfig, SuffixArrayDictionary, SuffixArrayDictionaryConfig};
use zipora::compression::suffix_array::{SuffixArrayCompressor, SuffixArrayConfig as CsaConfig};
use zv::*;

const DOMAIN: &str = "SuffixArray";

// ------------------------------------------------------------------ subjects

fn subjects() -> Vec<&'static str> {
    vec![
        "sab:sais",
        "sab:divsufsort",
        "sab:dc3",
        "sab:ls",
        "sab:adaptive",
        "sab:adaptive_t16",
        "sab:sais_noopt",
        "sab:sais_par",
        "sa:new",
        "esa:lcp",
        "esa:bwt",
        "csa:default",
        "csa:dict",
        "csa:realtime",
        "csa:large",
        "dict:adaptive",
        "dict:sais",
        "dict:min4",
        "dict:serde",
        "dict:file",
        "dict:optimized",
        "dict:ls",
        "dict:dc3",
        "dict:divsufsort",
    ]
}

fn algo_of(name: &str) -> SuffixArrayAlgorithm {
    match name {
        "sais" | "sais_noopt" | "sais_par" => SuffixArrayAlgorithm::SAIS,
        "divsufsort" => SuffixArrayAlgorithm::DivSufSort,
        "dc3" => SuffixArrayAlgorithm::DC3,
        "ls" => SuffixArrayAlgorithm::LarssonSadakane,
        _ => SuffixArrayAlgorithm::Adaptive,
    }
}

fn sab_config(variant: &str) -> SuffixArrayConfig {
    let mut c = SuffixArrayConfig { algorithm: algo_of(variant), ..Default::default() };
    if variant == "sais_noopt" {
        c.optimize_small_alphabet = false;
    }
    if variant == "sais_par" {
        c.use_parallel = true;
        c.parallel_threshold = 0;
    }
    if variant == "adaptive_t16" {
        // the strategy switch of select_algorithm moved down to 16 bytes: every branch of the decision
        // (alphabet <= 4, repetition ratio > 0.7, entropy < 2.0, else) is reached by texts TLC judges fully
        c.adaptive_threshold = 16;
    }
    c
}

/// the algorithm family a subject ends in (what the known-finding guards talk about)
fn algo_label(subject: &str) -> &'static str {
    match subject {
        "sab:sais" | "sab:sais_noopt" | "sab:sais_par" | "dict:sais" => "sais",
        "sab:adaptive_t16" => "adaptive_t16",
        "csa:default" | "csa:dict" | "csa:realtime" | "csa:large" => "sais",
        "sab:divsufsort" | "dict:divsufsort" => "divsufsort",
        "sab:dc3" | "dict:dc3" => "dc3",
        "sab:ls" | "dict:ls" => "ls",
        _ => "adaptive",
    }
}

// ------------------------------------------------------------------ texts

#[derive(Clone)]
struct Text {
    fam: String,
    bytes: Vec<u8>,
    /// length of the repeated block the text starts with (0 = none): text = B f1 B f2 [B f3] tail
    blk: usize,
}

/// every string over {0,1,2} of length 0..=maxlen, symbols mapped through `map`
fn exhaustive(maxlen: usize, map: [u8; 3], fam: &str) -> Vec<Text> {
    let mut out = vec![];
    for n in 0..=maxlen {
        let total = 3usize.pow(n as u32);
        for mut x in 0..total {
            let mut b = Vec::with_capacity(n);
            for _ in 0..n {
                b.push(map[x % 3]);
                x /= 3;
            }
            b.reverse();
            out.push(Text { fam: fam.to_string(), bytes: b, blk: 0 });
        }
    }
    out
}

fn fib_word(k: usize, a: u8, b: u8) -> Vec<u8> {
    let (mut s0, mut s1) = (vec![b], vec![a]);
    for _ in 0..k {
        let mut s2 = s1.clone();
        s2.extend_from_slice(&s0);
        s0 = s1;
        s1 = s2;
    }
    s1
}

fn families(seed: u64, thorough: bool) -> Vec<Text> {
    let mut out: Vec<Text> = vec![];
    let mut push = |fam: &str, b: Vec<u8>| out.push(Text { fam: fam.to_string(), bytes: b, blk: 0 });
    // a^n
    for &n in &[1usize, 2, 3, 4, 8, 9, 16, 31, 64, 100, 255, 256, 257, 300] {
        push("a^n", vec![b'a'; n]);
    }
    push("a^n", vec![0u8; 40]);
    push("a^n", vec![0xffu8; 40]);
    push("a^n", vec![0x80u8; 17]);
    // (ab)^n, (ab)^n a, (ba)^n
    for &n in &[1usize, 2, 3, 5, 8, 32, 100, 150] {
        let mut v = vec![];
        for _ in 0..n {
            v.extend_from_slice(b"ab");
        }
        push("(ab)^n", v.clone());
        let mut w = v.clone();
        w.push(b'a');
        push("(ab)^n a", w);
        let r: Vec<u8> = v.iter().map(|&c| if c == b'a' { b'b' } else { b'a' }).collect();
        push("(ba)^n", r);
        let hi: Vec<u8> = v.iter().map(|&c| if c == b'a' { 0x7f } else { 0x80 }).collect();
        push("(7f 80)^n", hi);
    }
    // (abc)^n, (aab)^n
    for &n in &[2usize, 7, 33, 100] {
        push("(abc)^n", b"abc".iter().cycle().take(3 * n).cloned().collect());
        push("(aab)^n", b"aab".iter().cycle().take(3 * n).cloned().collect());
        push("(cba)^n", b"cba".iter().cycle().take(3 * n + 1).cloned().collect());
    }
    // Fibonacci words
    for k in 0..=11 {
        push("fib", fib_word(k, b'a', b'b'));
    }
    push("fib", fib_word(10, b'b', b'a'));
    push("fib", fib_word(9, 0xff, 0x00));
    // long runs
    for &k in &[1usize, 2, 5, 40, 99] {
        let mut v = vec![b'a'; k];
        v.extend(vec![b'b'; k]);
        v.extend(vec![b'a'; k]);
        push("runs aba", v);
        let mut v = vec![b'b'; k];
        v.extend(vec![b'a'; k]);
        v.extend(vec![b'b'; k]);
        push("runs bab", v);
        let mut v = vec![0xffu8; k];
        v.extend(vec![0x00u8; k]);
        v.extend(vec![0x80u8; k]);
        v.extend(vec![0x7fu8; k]);
        push("runs ff 00 80 7f", v.into_iter().take(300).collect());
    }
    // strictly increasing / decreasing / all 256 byte values
    push("mono", (0u8..=255).collect());
    push("mono", (0u8..=255).rev().collect());
    push("mono", (0u8..=255).chain(0u8..=43).collect());
    push("mono", b"abcdefgh".to_vec());
    push("mono", b"hgfedcba".to_vec());
    push("mono", b"abcba".to_vec());
    push("mono", b"cbabc".to_vec());
    // classics
    for w in ["banana", "mississippi", "abracadabra", "banana$", "yabbadabbadoo", "aabaaabaaaab"] {
        push("word", w.as_bytes().to_vec());
    }
    // Thue-Morse words (overlap-free, many equal-length repeats) incl. lengths around 16
    let tm: Vec<u8> = (0u32..600).map(|i| if i.count_ones() % 2 == 0 { b'a' } else { b'b' }).collect();
    for &n in &[2usize, 8, 15, 16, 17, 31, 32, 33, 64, 128, 255, 256, 300] {
        push("thue-morse", tm[..n].to_vec());
    }
    push("thue-morse", tm[..64].iter().map(|&c| if c == b'a' { 0x00 } else { 0xff }).collect());
    // lengths around the (lowered) adaptive threshold 16 for the repetitive families
    for &n in &[15usize, 16, 17] {
        push("a^n", vec![b'z'; n]);
        push("(ab)^n", b"ab".iter().cycle().take(n).cloned().collect());
        push("fib", fib_word(7, b'a', b'b')[..n].to_vec());
        push("(abcde)^n", b"abcde".iter().cycle().take(n).cloned().collect());
    }
    // ---- the strategy switch of select_algorithm (judged fully with adaptive_threshold = 16):
    // alphabet size 4 | 5 (<= 4 -> SA-IS)
    for &n in &[16usize, 17, 40, 120] {
        push("switch k=4", (0..n).map(|i| b"acgt"[(i * 7 + i / 3) % 4]).collect());
        push("switch k=5", (0..n).map(|i| b"acgtn"[(i * 7 + i / 3) % 5]).collect());
    }
    // repetition ratio = (adjacent equal pairs) / n around 0.7 with 6 symbols: n = 100, r runs -> (100 - r) / 100
    for &runs in &[29usize, 30, 31, 10, 60] {
        let n = 100usize;
        let mut v = vec![];
        for r in 0..runs {
            let len = n / runs + if r < n % runs { 1 } else { 0 };
            v.extend(std::iter::repeat(b"uvwxyz"[r % 6]).take(len));
        }
        push("switch repetition", v);
    }
    // entropy around 2.0 with > 4 symbols and few adjacent repeats: x x s x x s ... (H = 1.58) | x s x s (H = 2.16)
    push("switch entropy", (0..90).map(|i| if i % 3 == 2 { b"abcd"[(i / 3) % 4] } else { b'x' }).collect());
    push("switch entropy", (0..90).map(|i| if i % 2 == 1 { b"abcd"[(i / 2) % 4] } else { b'x' }).collect());
    push("switch entropy", (0..90).map(|i| if i % 2 == 1 { b"abcdefgh"[(i / 2) % 8] } else { b'x' }).collect());
    // texts ending in their smallest / largest symbol, in 0x00 / 0xFF
    for (tag, last) in [("min", 0usize), ("max", 1usize)] {
        let mut rng2 = Rng::new(seed).derive(&format!("c12/ends/{tag}"));
        for &n in &[6usize, 33, 150] {
            let mut b: Vec<u8> = (0..n).map(|_| *rng2.pick(&[0x00u8, 0x01, 0x7f, 0x80, 0xfe, 0xff])).collect();
            b.push(if last == 0 { 0x00 } else { 0xff });
            push(&format!("ends in {tag}"), b);
            let mut c: Vec<u8> = (0..n).map(|_| *rng2.pick(b"bcd")).collect();
            c.push(if last == 0 { b'a' } else { b'e' });
            push(&format!("ends in {tag}"), c);
        }
    }
    // random over alphabets 1..256
    let mut rng = Rng::new(seed).derive("c12/random");
    let alphas: &[usize] = &[1, 2, 3, 4, 5, 8, 16, 64, 128, 255, 256];
    let reps = if thorough { 6 } else { 2 };
    for &k in alphas {
        for rep in 0..reps {
            let n = match rep {
                0 => rng.range(5, 40) as usize,
                1 => rng.range(200, 300) as usize,
                _ => rng.range(2, 300) as usize,
            };
            // alphabet: k distinct byte values, always containing some of 0x00, 0xff, 0x80 when k >= 3
            let mut pool: Vec<u8> = (0u8..=255).collect();
            rng.shuffle(&mut pool);
            let mut alpha: Vec<u8> = pool.into_iter().take(k).collect();
            if k >= 3 && k < 256 {
                alpha[0] = 0x00;
                alpha[1] = 0xff;
                alpha[2] = 0x80;
                alpha.dedup();
            }
            let b: Vec<u8> = (0..n).map(|_| *rng.pick(&alpha)).collect();
            push(&format!("random k={k}"), b);
        }
    }
    // more than 256 distinct local-minimum substrings (name space of a byte-named reduction)
    for &n in if thorough { &[1200usize, 2000, 3000][..] } else { &[1200usize][..] } {
        push("random long", rng.bytes(n));
        let b: Vec<u8> = (0..n).map(|_| *rng.pick(&[b'a', b'b', b'c', b'd'])).collect();
        push("random long k=4", b);
    }
    out
}

/// large texts, judged through the projection only
fn big_texts(seed: u64, thorough: bool) -> Vec<Text> {
    let mut rng = Rng::new(seed).derive("c12/big");
    let mut out = vec![];
    let sizes: &[usize] = if thorough { &[9_999, 10_000, 20_000, 50_000, 100_000] } else { &[9_999, 10_000, 20_000] };
    // select_algorithm: > 50 000 -> DivSufSort (else SA-IS); build(): >= 100 000 -> parallel path; > 1 000 000 -> DivSufSort
    let edges: &[usize] = if thorough { &[50_000, 50_001, 99_999, 100_000, 1_000_000, 1_000_001] } else { &[50_000, 50_001] };
    for &n in edges {
        out.push(Text { fam: "big edge k=256".into(), bytes: rng.bytes(n), blk: 0 });
    }
    for &n in sizes {
        // k <= 4: Adaptive selects SA-IS; random bytes: SA-IS / DivSufSort by size; repetitive: Larsson-Sadakane
        let b: Vec<u8> = (0..n).map(|_| *rng.pick(&[b'a', b'c', b'g', b't'])).collect();
        out.push(Text { fam: "big k=4".into(), bytes: b, blk: 0 });
        out.push(Text { fam: "big k=256".into(), bytes: rng.bytes(n), blk: 0 });
        let mut rep = vec![];
        while rep.len() < n {
            let c = rng.next() as u8;
            let run = rng.range(3, 40) as usize;
            rep.extend(std::iter::repeat(c).take(run));
        }
        rep.truncate(n);
        out.push(Text { fam: "big runs".into(), bytes: rep, blk: 0 });
        let low: Vec<u8> = (0..n).map(|_| if rng.chance(9, 10) { b'x' } else { *rng.pick(b"abcde") }).collect();
        out.push(Text { fam: "big low entropy".into(), bytes: low, blk: 0 });
    }
    out
}


/// texts with two or three occurrences of a long block B followed by different bytes:
/// B f1 B f2 [B f3] tail, the earlier occurrence followed by the smaller and by the larger byte;
/// B random over 256 / over acgt, runs of 8 over a..g, low entropy, periodic, a^n.
/// `small` texts (|B| <= 257) are judged entry by entry, the others through the projection.
fn block_texts(seed: u64, thorough: bool, small: bool) -> Vec<Text> {
    let mut rng = Rng::new(seed).derive("c12/blocks");
    let sizes: Vec<usize> = if small {
        vec![15, 16, 17, 255, 256, 257]
    } else {
        vec![255, 256, 257, 1023, 1024, 1025, 4095, 4096, 4097, 70_000]
    };
    let kinds = ["rand256", "k4", "runs", "lowent", "periodic", "a^n"];
    let mut out = vec![];
    for &len in &sizes {
        for kind in kinds {
            if len == 70_000 && !matches!(kind, "rand256" | "k4" | "runs") {
                continue; // comparison sorts are quadratic on a 70 000-byte run / period
            }
            let gen = |n: usize, rng: &mut Rng| -> Vec<u8> {
                match kind {
                    "rand256" => rng.bytes(n),
                    "k4" => (0..n).map(|_| *rng.pick(b"acgt")).collect(),
                    "runs" => {
                        let mut v = Vec::with_capacity(n + 8);
                        let mut prev = 0u8;
                        while v.len() < n {
                            let mut c = *rng.pick(b"abcdefg");
                            if c == prev {
                                c = if c == b'g' { b'a' } else { c + 1 };
                            }
                            prev = c;
                            v.extend(std::iter::repeat(c).take(8));
                        }
                        v.truncate(n);
                        v
                    }
                    "lowent" => (0..n).map(|i| if i % 3 == 2 { *rng.pick(b"abcd") } else { b'x' }).collect(),
                    "periodic" => b"abcde".iter().cycle().take(n).cloned().collect(),
                    _ => vec![b'a'; n],
                }
            };
            let block = gen(len, &mut rng);
            // followers outside a..z so that they never extend a run / period of the block
            for (tag, f) in [("smaller first", vec![b'A', b'~']), ("larger first", vec![b'~', b'A']), ("three", vec![b'P', b'~', b'A'])] {
                if len == 70_000 && tag == "three" && !thorough {
                    continue;
                }
                let mut t = vec![];
                for &x in &f {
                    t.extend_from_slice(&block);
                    t.push(x);
                }
                if !small && t.len() < 10_050 {
                    // beyond the adaptive threshold, filler of the same kind (keeps the branch of select_algorithm)
                    let fill = gen(10_050 - t.len(), &mut rng);
                    t.extend(fill);
                }
                out.push(Text { fam: format!("block {kind} {len} {tag}"), bytes: t, blk: len });
            }
        }
    }
    out
}

// ------------------------------------------------------------------ patterns

/// patterns for a text: distinct substrings of length 1..=maxlen (all for short texts, an evenly
/// spread selection for long ones), perturbed (mostly absent) ones, over-long ones, the empty one.
fn patterns(text: &[u8], maxlen: usize, cap: usize, rng: &mut Rng) -> Vec<Vec<u8>> {
    let n = text.len();
    let mut set: Vec<Vec<u8>> = vec![];
    let add = |p: Vec<u8>, set: &mut Vec<Vec<u8>>| {
        if !set.contains(&p) {
            set.push(p);
        }
    };
    add(vec![], &mut set);
    let starts: Vec<usize> = if n <= 24 { (0..n).collect() } else {
        let mut s: Vec<usize> = vec![0, 1, n - 1, n - 2, n - 3, n / 2];
        while s.len() < 14 {
            s.push(rng.below(n as u64) as usize);
        }
        s
    };
    for &i in &starts {
        for len in 1..=maxlen {
            if set.len() >= cap {
                break;
            }
            if i + len <= n {
                add(text[i..i + len].to_vec(), &mut set);
            }
        }
    }
    // perturbed: last byte +1 / -1, first byte changed, a foreign byte
    let base: Vec<Vec<u8>> = set.iter().filter(|p| !p.is_empty()).take(8).cloned().collect();
    for p in base {
        let mut q = p.clone();
        let k = q.len() - 1;
        q[k] = q[k].wrapping_add(1);
        add(q, &mut set);
        let mut q = p.clone();
        q[k] = q[k].wrapping_sub(1);
        add(q, &mut set);
        let mut q = p.clone();
        q.push(p[0]);
        add(q, &mut set);
    }
    // the symbols of the text and their neighbours as single-byte patterns, 0x00 / 0xff / 0x80
    for &c in [0x00u8, 0xff, 0x80, 0x7f].iter() {
        add(vec![c], &mut set);
    }
    add(vec![0x00, 0x00], &mut set);
    add(vec![0xff, 0xff], &mut set);
    if n > 0 {
        add(vec![text[n - 1], 0x00], &mut set);
        add(vec![text[n - 1], 0xff], &mut set);
        add(vec![text[0], 0xff], &mut set);
    }
    if n > 0 {
        // longer than the remaining text at the end, and longer than the whole text
        let tail = &text[n.saturating_sub(2)..];
        let mut q = tail.to_vec();
        q.push(text[0]);
        add(q, &mut set);
        let mut q = tail.to_vec();
        q.push(0);
        add(q, &mut set);
        if n <= 40 {
            add(text.to_vec(), &mut set);
            let mut q = text.to_vec();
            q.push(text[n - 1]);
            add(q, &mut set);
        }
    }
    set
}

/// patterns for the exhaustive small texts: every string of length 1..=2 over the three symbols,
/// every length-3 substring, a foreign byte, over-long patterns, the empty pattern.
fn patterns_small(text: &[u8], map: [u8; 3]) -> Vec<Vec<u8>> {
    let mut set: Vec<Vec<u8>> = vec![vec![]];
    for &a in &map {
        set.push(vec![a]);
    }
    for &a in &map {
        for &b in &map {
            set.push(vec![a, b]);
        }
    }
    let n = text.len();
    for len in 3..=4 {
        for i in 0..n {
            if i + len <= n {
                let p = text[i..i + len].to_vec();
                if !set.contains(&p) {
                    set.push(p);
                }
            }
        }
    }
    let foreign = map[1].wrapping_add(1);
    set.push(vec![foreign]);
    if n > 0 {
        set.push(vec![text[n - 1], foreign]);
        let mut q = text.to_vec();
        q.push(text[0]);
        if !set.contains(&q) {
            set.push(q);
        }
        let mut q = text[n - 1..].to_vec();
        q.push(map[0]);
        q.push(map[2]);
        q.push(map[1]);
        if !set.contains(&q) {
            set.push(q);
        }
    }
    set
}

// ------------------------------------------------------------------ running one case

#[derive(Default, Clone)]
struct Stat {
    selected: BTreeMap<String, u64>,
    cases: u64,
    nontrivial: u64,
    refused: u64,
    panics: u64,
    events: u64,
    answers: u64,
    runs: u64,
}

struct Out<'a> {
    tr: &'a mut Tracer,
    st: &'a mut Stat,
}

impl<'a> Out<'a> {
    fn ev(&mut self, e: Value, answers: u64) {
        self.tr.ev(e);
        self.st.events += 1;
        self.st.answers += answers;
    }
    fn panic(&mut self, op: &str, msg: String) {
        self.st.panics += 1;
        let m: String = msg.chars().take(160).collect();
        let head: String = msg.chars().take(40).collect();
        self.ev(json!({"op":"panic","in":op,"msg":m,"head":head}), 0);
    }
}

fn pats_json(p: &[Vec<u8>]) -> Value {
    Value::Array(p.iter().map(|x| bytes_json(x)).collect())
}

fn usizes(v: &[usize]) -> Value {
    Value::Array(v.iter().map(|&x| json!(x)).collect())
}

fn flat_opt(o: Option<usize>) -> Value {
    match o {
        Some(x) => json!(x),
        None => json!(-1),
    }
}

/// questions answered by algorithms::suffix_array::SuffixArray
fn probe_sa(o: &mut Out, text: &[u8], sa: &SuffixArray, pats: &[Vec<u8>]) {
    let n = text.len();
    // suffix_at_rank(0..=n): None is projected to -1
    let ranks: Vec<Value> = (0..=n).map(|r| flat_opt(sa.suffix_at_rank(r))).collect();
    o.ev(json!({"op":"ranks","r":ranks,"n":sa.text_len()}), n as u64 + 2);
    match guard(|| {
        let a: Vec<Value> = pats
            .iter()
            .map(|p| {
                let (s, c) = sa.search(text, p);
                json!([s, c])
            })
            .collect();
        let b: Vec<Value> = pats
            .iter()
            .map(|p| {
                let (l, h) = sa.search_range(text, p);
                json!([l, h])
            })
            .collect();
        (a, b)
    }) {
        Ok((a, b)) => {
            o.ev(json!({"op":"search","pats":pats_json(pats),"search":a,"range":b}), 2 * pats.len() as u64);
        }
        Err(m) => o.panic("search", m),
    }
}

fn probe_lcp(o: &mut Out, text: &[u8], sa: &SuffixArray) {
    match guard(|| LcpArray::new(text, sa)) {
        Ok(Ok(l)) => {
            let at: Vec<Value> = (0..=text.len()).map(|r| flat_opt(l.lcp_at(r))).collect();
            o.ev(json!({"op":"lcp","lcp":usizes(l.as_slice()),"at":at}), 2 * text.len() as u64 + 1);
        }
        Ok(Err(_)) => {
            o.st.refused += 1;
            o.ev(json!({"op":"lcp_absent","why":"err"}), 0);
        }
        Err(m) => o.panic("lcp", m),
    }
}

fn log_built(o: &mut Out, text: &[u8], r: Result<zipora::error::Result<SuffixArray>, String>) -> Option<SuffixArray> {
    match r {
        Err(m) => {
            o.panic("sa", m);
            None
        }
        Ok(Err(e)) => {
            o.st.refused += 1;
            let msg: String = e.to_string().chars().take(120).collect();
            o.ev(json!({"op":"sa","ok":false,"sa":[],"err":msg}), 0);
            None
        }
        Ok(Ok(sa)) => {
            o.ev(json!({"op":"sa","ok":true,"sa":usizes(sa.as_slice())}), text.len() as u64);
            Some(sa)
        }
    }
}

fn algo_name(a: SuffixArrayAlgorithm) -> &'static str {
    match a {
        SuffixArrayAlgorithm::SAIS => "sais",
        SuffixArrayAlgorithm::DivSufSort => "divsufsort",
        SuffixArrayAlgorithm::DC3 => "dc3",
        SuffixArrayAlgorithm::LarssonSadakane => "ls",
        SuffixArrayAlgorithm::Adaptive => "adaptive",
    }
}

/// which construction select_algorithm picks (coverage information only; the contract ignores it)
fn note_selection(o: &mut Out, cfg: &SuffixArrayConfig, text: &[u8]) {
    if text.len() >= 2 {
        if let Ok(a) = guard(|| SuffixArrayBuilder::new(cfg.clone()).select_algorithm(text)) {
            // keyed by the side of the adaptive threshold the text is on
            let side = if text.len() >= cfg.adaptive_threshold { ">=thr" } else { "<thr" };
            *o.st.selected.entry(format!("{}{}", algo_name(a), side)).or_insert(0) += 1;
        }
    }
}

fn case_sab(o: &mut Out, variant: &str, text: &[u8], pats: &[Vec<u8>]) -> bool {
    let cfg = sab_config(variant);
    note_selection(o, &cfg, text);
    let built = guard(|| SuffixArrayBuilder::new(cfg.clone()).build(text));
    let Some(sa) = log_built(o, text, built) else { return false };
    probe_sa(o, text, &sa, pats);
    probe_lcp(o, text, &sa);
    true
}

fn case_sa_new(o: &mut Out, text: &[u8], pats: &[Vec<u8>]) -> bool {
    let built = guard(|| SuffixArray::new(text));
    let Some(sa) = log_built(o, text, built) else { return false };
    probe_sa(o, text, &sa, pats);
    // the Algorithm trait entry point builds the same array: logged as a second construction
    let cfg = SuffixArrayConfig::default();
    let again = guard(|| SuffixArrayBuilder::new(cfg.clone()).execute(&cfg, text.to_vec()));
    if let Some(sa2) = log_built(o, text, again) {
        probe_lcp(o, text, &sa2);
    }
    // SuffixArray::with_config, the twin of the builder, once per algorithm: each must return THE array
    for v in ["sais", "divsufsort", "dc3", "ls", "adaptive"] {
        let c = sab_config(v);
        let r = guard(|| SuffixArray::with_config(text, &c));
        let _ = log_built(o, text, r);
    }
    true
}

fn case_esa(o: &mut Out, variant: &str, text: &[u8], pats: &[Vec<u8>]) -> bool {
    let r = guard(|| if variant == "lcp" { EnhancedSuffixArray::with_lcp(text) } else { EnhancedSuffixArray::with_bwt(text) });
    let esa = match r {
        Err(m) => {
            o.panic("sa", m);
            return false;
        }
        Ok(Err(_)) => {
            o.st.refused += 1;
            o.ev(json!({"op":"sa","ok":false,"sa":[]}), 0);
            return false;
        }
        Ok(Ok(e)) => e,
    };
    o.ev(json!({"op":"sa","ok":true,"sa":usizes(esa.suffix_array().as_slice())}), text.len() as u64);
    probe_sa(o, text, esa.suffix_array(), pats);
    match esa.lcp_array() {
        Some(l) => {
            let at: Vec<Value> = (0..=text.len()).map(|r| flat_opt(l.lcp_at(r))).collect();
            o.ev(json!({"op":"lcp","lcp":usizes(l.as_slice()),"at":at}), 2 * text.len() as u64 + 1)
        }
        None => o.ev(json!({"op":"lcp_absent","why":"none"}), 0),
    }
    if let Some(b) = esa.bwt() {
        o.ev(json!({"op":"bwt","bwt":bytes_json(b)}), text.len() as u64);
    }
    true
}

fn csa_config(variant: &str) -> CsaConfig {
    match variant {
        "dict" => CsaConfig::for_dictionary_compression(),
        "realtime" => CsaConfig::for_realtime(),
        "large" => {
            // for_large_text with LCP switched on, so that the second LCP route is observed too
            let mut c = CsaConfig::for_large_text();
            c.compute_lcp = true;
            c
        }
        _ => CsaConfig::default(),
    }
}

fn case_csa(o: &mut Out, comp: &SuffixArrayCompressor, text: &[u8], pats: &[Vec<u8>]) -> bool {
    let esa = match guard(|| comp.build_suffix_array(text)) {
        Err(m) => {
            o.panic("sa", m);
            return false;
        }
        Ok(Err(e)) => {
            o.st.refused += 1;
            let msg: String = e.to_string().chars().take(120).collect();
            o.ev(json!({"op":"sa","ok":false,"sa":[],"err":msg}), 0);
            return false;
        }
        Ok(Ok(e)) => e,
    };
    // the array is observable through suffix_at_rank only: ranks 0..len() give the array
    let n = text.len();
    let got = guard(|| {
        let len = esa.len();
        let arr: Vec<Option<usize>> = (0..len).map(|r| esa.suffix_at_rank(r)).collect();
        let ranks: Vec<Value> = (0..=n).map(|r| flat_opt(esa.suffix_at_rank(r))).collect();
        let lcp: Vec<Value> = (0..=n).map(|r| flat_opt(esa.lcp_at(r))).collect();
        (arr, ranks, lcp, esa.text_len())
    });
    let (arr, ranks, lcp, tl) = match got {
        Ok(x) => x,
        Err(m) => {
            o.panic("ranks", m);
            return false;
        }
    };
    if arr.iter().any(|x| x.is_none()) {
        // a rank below len() without an entry: not an array at all
        o.ev(json!({"op":"panic","in":"sa","msg":"suffix_at_rank(r) = None for r < len()","head":"suffix_at_rank(r) = None for r < len()"}), 0);
        return false;
    }
    let flat: Vec<usize> = arr.iter().map(|x| x.unwrap()).collect();
    o.ev(json!({"op":"sa","ok":true,"sa":usizes(&flat)}), n as u64);
    o.ev(json!({"op":"ranks","r":ranks,"n":tl}), n as u64 + 2);
    if lcp.iter().all(|v| v.as_i64() == Some(-1)) {
        o.ev(json!({"op":"lcp_absent","why":"none"}), 0);
    } else {
        o.ev(json!({"op":"lcp_at","at":lcp}), n as u64 + 1);
    }
    match guard(|| {
        let a: Vec<Value> = pats
            .iter()
            .map(|p| {
                let (l, h) = esa.find_pattern_range(text, p);
                json!([l, h])
            })
            .collect();
        let b: Vec<Value> = pats.iter().map(|p| usizes(&esa.find_pattern(text, p))).collect();
        let c: Vec<Value> = pats.iter().map(|p| json!(esa.count_pattern(text, p))).collect();
        (a, b, c)
    }) {
        Ok((a, b, c)) => {
            o.ev(json!({"op":"search","pats":pats_json(pats),"range":a,"find":b,"count":c}), 3 * pats.len() as u64);
        }
        Err(m) => o.panic("search", m),
    }
    true
}

fn dict_limits(variant: &str) -> (usize, usize) {
    if variant == "min4" {
        (4, 8)
    } else {
        (1, 1 << 20)
    }
}

fn case_dict(o: &mut Out, variant: &str, text: &[u8], pats: &[Vec<u8>], scratch: &std::path::Path) -> bool {
    let (minl, maxl) = dict_limits(variant);
    let cfg = SuffixArrayDictionaryConfig {
        min_frequency: 1,
        use_memory_pool: false,
        min_pattern_length: minl,
        max_pattern_length: maxl,
        dfa_cache_config: DfaCacheConfig::small_dictionary(text.len().max(1)),
        suffix_array_config: SuffixArrayConfig { algorithm: algo_of(variant), ..Default::default() },
        ..Default::default()
    };
    let route = variant.to_string();
    let path = scratch.join("c12-dict.bin");
    let built = guard(|| -> zipora::error::Result<SuffixArrayDictionary> {
        let mut d = SuffixArrayDictionary::new(text, cfg)?;
        match route.as_str() {
            "serde" => {
                let bytes = d.serialize()?;
                SuffixArrayDictionary::deserialize(&bytes)
            }
            "file" => {
                d.save_to_file(&path)?;
                SuffixArrayDictionary::load_from_file(&path)
            }
            "optimized" => {
                d.optimize_cache()?;
                Ok(d)
            }
            _ => Ok(d),
        }
    });
    let mut d = match built {
        Err(m) => {
            o.panic("built", m);
            return false;
        }
        Ok(Err(e)) => {
            o.st.refused += 1;
            let msg: String = e.to_string().chars().take(120).collect();
            o.ev(json!({"op":"built","ok":false,"err":msg}), 0);
            return false;
        }
        Ok(Ok(d)) => d,
    };
    let n = d.dictionary_size();
    o.ev(json!({"op":"built","ok":true,"n":n,"dtext":bytes_json(d.dictionary_text())}), 1 + n as u64);
    let nonempty: Vec<Vec<u8>> = pats.iter().filter(|p| !p.is_empty()).cloned().collect();
    // ---- rank ranges: match continuation, the DFA-cache front end, match_count, ranked positions
    match guard(|| {
        let mut a = vec![];
        let mut mc = vec![];
        for p in &nonempty {
            let m = d.sa_match_continuation(0, n, 0, p);
            mc.push(json!(m.match_count()));
            a.push(json!([m.lo, m.hi, m.depth]));
        }
        let da: Vec<Value> = nonempty
            .iter()
            .map(|p| {
                let m = d.da_match_max_length(p);
                json!([m.lo, m.hi, m.depth])
            })
            .collect();
        let e = d.da_match_max_length(&[]);
        let mut ok = true;
        let b: Vec<Value> = nonempty
            .iter()
            .map(|p| match d.find_all_matches(p, usize::MAX) {
                Ok(v) => Value::Array(v.iter().map(|m| json!(m.dict_position)).collect()),
                Err(_) => {
                    ok = false;
                    json!([])
                }
            })
            .collect();
        (a, mc, da, json!([e.lo, e.hi, e.depth]), b, ok)
    }) {
        Ok((a, mc, da, da_empty, b, ok)) => {
            let mut e = json!({"op":"search","pats":pats_json(&nonempty),"match":a,"mcount":mc,"da":da,
                               "da_empty":da_empty,"minl":minl,"maxl":maxl});
            if ok {
                e["ranked"] = Value::Array(b);
            } else {
                o.st.refused += 1;
            }
            o.ev(e, 4 * nonempty.len() as u64);
        }
        Err(m) => o.panic("match", m),
    }
    // ---- find_longest_match(input, position, max): the pattern behind a junk prefix, at position 0, past the end
    let mut inputs: Vec<Vec<u8>> = vec![];
    let mut poss: Vec<usize> = vec![];
    for (k, p) in nonempty.iter().enumerate() {
        let junk = k % 3;
        let mut inp = vec![0x2au8; junk];
        inp.extend_from_slice(p);
        inputs.push(inp);
        poss.push(junk);
    }
    if let Some(p) = nonempty.first() {
        inputs.push(p.clone());
        poss.push(p.len()); // position == len: nothing to match
        inputs.push(p.clone());
        poss.push(p.len() + 3);
    }
    match guard(|| {
        let mut res = vec![];
        let mut ok = true;
        for (inp, &pos) in inputs.iter().zip(poss.iter()) {
            match d.find_longest_match(inp, pos, usize::MAX) {
                Ok(Some(m)) => res.push(json!([m.length, m.dict_position])),
                Ok(None) => res.push(json!([])),
                Err(_) => {
                    ok = false;
                    res.push(json!([]))
                }
            }
        }
        (res, ok)
    }) {
        Ok((res, true)) => {
            o.ev(json!({"op":"longest","inputs":pats_json(&inputs),"pos":usizes(&poss),"res":res,"minl":minl}), inputs.len() as u64)
        }
        Ok((_, false)) => o.st.refused += 1,
        Err(m) => o.panic("longest", m),
    }
    // ---- sa_equal_range(lo, hi, |p|, ch): one refinement step from the range of a present prefix p
    if n > 0 {
        let mut prefixes: Vec<Vec<u8>> = vec![vec![]];
        for p in nonempty.iter().take(10) {
            if p.len() <= 3 {
                prefixes.push(p.clone());
            }
        }
        let mut chs: Vec<u8> = vec![];
        for &c in text.iter().take(64).chain([0x00u8, 0xff, 0x80].iter()) {
            for x in [c, c.wrapping_add(1), c.wrapping_sub(1)] {
                if !chs.contains(&x) && chs.len() < 12 {
                    chs.push(x);
                }
            }
        }
        let mut items: Vec<Value> = vec![];
        let mut answers = 0u64;
        let mut failed = None;
        for p in prefixes {
            let r = guard(|| {
                let m = if p.is_empty() { None } else { Some(d.sa_match_continuation(0, n, 0, &p)) };
                let (lo, hi, depth) = match &m {
                    None => (0, n, 0),
                    Some(m) => (m.lo, m.hi, m.depth),
                };
                if depth != p.len() || lo >= hi {
                    return None; // p does not occur: no range to refine
                }
                let res: Vec<Value> = chs
                    .iter()
                    .map(|&c| {
                        let (a, b) = d.sa_equal_range(lo, hi, p.len(), c);
                        json!([a, b])
                    })
                    .collect();
                Some((lo, hi, res))
            });
            match r {
                Ok(Some((lo, hi, res))) => {
                    answers += chs.len() as u64;
                    items.push(json!({"p":bytes_json(&p),"lo":lo,"hi":hi,"res":res}));
                }
                Ok(None) => {}
                Err(m) => {
                    failed = Some(m);
                    break;
                }
            }
        }
        match failed {
            Some(m) => o.panic("eqr", m),
            None => o.ev(json!({"op":"eqr","chs":bytes_json(&chs),"items":items}), answers),
        }
    }
    true
}

/// projection of a large case: permutation flag + number of adjacent rank pairs out of order
fn case_big(o: &mut Out, variant: &str, text: &[u8]) -> bool {
    let cfg = sab_config(variant);
    note_selection(o, &cfg, text);
    let n = text.len();
    match guard(|| SuffixArrayBuilder::new(cfg.clone()).build(text)) {
        Err(m) => {
            o.panic("sa", m);
            false
        }
        Ok(Err(_)) => {
            o.st.refused += 1;
            o.ev(json!({"op":"sa","ok":false,"sa":[]}), 0);
            false
        }
        Ok(Ok(sa)) => {
            let s = sa.as_slice();
            let (perm, violations, distinct) = project_array(text, s);
            o.ev(json!({"op":"sa_proj","n":n,"len":s.len(),"perm":perm,"violations":violations,
                        "distinct":distinct,"text":digest(text)}), n as u64);
            true
        }
    }
}


/// permutation flag + adjacent order violations of an array given as a slice (generic projection)
fn project_array(text: &[u8], s: &[usize]) -> (bool, u64, usize) {
    let n = text.len();
    let mut seen = vec![false; n];
    let mut perm = s.len() == n;
    for &x in s {
        if x >= n || seen[x] {
            perm = false;
        } else {
            seen[x] = true;
        }
    }
    let mut violations = 0u64;
    if perm {
        for w in s.windows(2) {
            if !(text[w[0]..] < text[w[1]..]) {
                violations += 1;
            }
        }
    }
    let mut present = [false; 256];
    for &c in text {
        present[c as usize] = true;
    }
    (perm, violations, present.iter().filter(|&&p| p).count())
}

/// projection of a large case of compression::SuffixArrayCompressor (array read through suffix_at_rank)
fn case_big_csa(o: &mut Out, comp: &SuffixArrayCompressor, text: &[u8]) -> bool {
    let n = text.len();
    match guard(|| comp.build_suffix_array(text)) {
        Err(m) => {
            o.panic("sa", m);
            false
        }
        Ok(Err(_)) => {
            o.st.refused += 1;
            o.ev(json!({"op":"sa","ok":false,"sa":[]}), 0);
            false
        }
        Ok(Ok(esa)) => {
            let arr: Vec<usize> = (0..esa.len()).map(|r| esa.suffix_at_rank(r).unwrap_or(usize::MAX)).collect();
            let (perm, violations, distinct) = project_array(text, &arr);
            o.ev(json!({"op":"sa_proj","n":n,"len":arr.len(),"perm":perm,"violations":violations,
                        "distinct":distinct,"text":digest(text)}), n as u64);
            true
        }
    }
}

/// projection of a large case of the dictionary: for present patterns around the repeated block the
/// number of occurrences (generic window scan), and of the returned list: length, all entries are
/// occurrences, distinct, adjacent pairs out of suffix order; the rank range and depth of the matcher.
fn case_big_dict(o: &mut Out, variant: &str, text: &[u8], blk: usize) -> bool {
    let cfg = SuffixArrayDictionaryConfig {
        min_frequency: 1,
        use_memory_pool: false,
        min_pattern_length: 1,
        max_pattern_length: 1 << 20,
        max_bfs_depth: 3,
        dfa_cache_config: DfaCacheConfig::small_dictionary(text.len().max(1)),
        suffix_array_config: SuffixArrayConfig { algorithm: algo_of(variant), ..Default::default() },
        ..Default::default()
    };
    let d = match guard(|| SuffixArrayDictionary::new(text, cfg)) {
        Err(m) => {
            o.panic("built", m);
            return false;
        }
        Ok(Err(_)) => {
            o.st.refused += 1;
            o.ev(json!({"op":"built_proj","ok":false}), 0);
            return false;
        }
        Ok(Ok(d)) => d,
    };
    let n = d.dictionary_size();
    let b = &text[..blk.min(text.len())];
    let mut pats: Vec<Vec<u8>> = vec![b.to_vec()];
    if blk + 1 <= text.len() {
        pats.push(text[..blk + 1].to_vec()); // B f1
        let mut q = b.to_vec();
        q.push(b'#'); // B followed by a byte that follows no occurrence
        pats.push(q);
    }
    if blk > 40 {
        pats.push(b[blk - 40..].to_vec()); // the end of the block: every occurrence, shorter pattern
        pats.push(b[..blk - 1].to_vec());
    }
    let r = guard(|| {
        let mut items = vec![];
        for p in &pats {
            let occ = if p.len() <= text.len() { text.windows(p.len()).filter(|w| w == &p.as_slice()).count() } else { 0 };
            let m = d.sa_match_continuation(0, n, 0, p);
            let dm = d.da_match_max_length(p);
            let pos: Vec<usize> = match d.find_all_matches(p, usize::MAX) {
                Ok(v) => v.iter().map(|m| m.dict_position).collect(),
                Err(_) => vec![usize::MAX],
            };
            let all_occ = pos.iter().all(|&i| i <= text.len() && text[i..].starts_with(p));
            let mut sorted = pos.clone();
            sorted.sort_unstable();
            sorted.dedup();
            let distinct = sorted.len() == pos.len();
            let viol = if all_occ { pos.windows(2).filter(|w| !(text[w[0]..] < text[w[1]..])).count() } else { 0 };
            items.push(json!({"plen":p.len(),"occ":occ,"npos":pos.len(),"all_occ":all_occ,"distinct":distinct,"viol":viol,
                              "m":[m.lo, m.hi, m.depth],"da":[dm.lo, dm.hi, dm.depth]}));
        }
        items
    });
    match r {
        Ok(items) => {
            let k = items.len() as u64;
            o.ev(json!({"op":"dict_proj","n":n,"len":text.len(),"items":items}), 4 * k);
            true
        }
        Err(m) => {
            o.panic("dict_proj", m);
            false
        }
    }
}

// ------------------------------------------------------------------ driver

fn hex(s: &str) -> Vec<u8> {
    (0..s.len() / 2).map(|i| u8::from_str_radix(&s[2 * i..2 * i + 2], 16).unwrap_or(0)).collect()
}

struct Batch {
    name: String,
    map: Option<[u8; 3]>,
    texts: Vec<Text>,
    subjects: Vec<&'static str>,
    per_run: usize,
    big: bool,
}

fn drive(a: &Args) {
    let mut tr = Tracer::new(&a.out, "c12");
    tr.max_events = a.get_u64("max-events", 8000) as usize;
    let mut stats: BTreeMap<String, Stat> = BTreeMap::new();
    let all = subjects();
    let map_a = [b'a', b'b', b'c'];
    let map_b = [0x00u8, 0x80, 0xff];
    let mut batches: Vec<Batch> = vec![];
    if let Some(h) = a.get("text") {
        batches.push(Batch {
            name: "single".into(),
            map: None,
            texts: vec![Text { fam: "single".into(), bytes: hex(h), blk: 0 }],
            subjects: all.clone(),
            per_run: 1,
            big: a.get("big").is_some(),
        });
    } else {
        // every string over <= 3 symbols: up to length L0 for the five algorithms of the builder, L1 for the
        // other entry points (same constructions behind another API), L2 for the dictionary matcher
        let (l0, l1, l2) = if a.thorough() { (8, 7, 6) } else { (7, 5, 5) };
        let l0 = a.get_u64("small-len", l0) as usize;
        let algos: Vec<&'static str> = vec!["sab:sais", "sab:divsufsort", "sab:dc3", "sab:ls", "sab:adaptive"];
        let heavy: Vec<&'static str> = all.iter().cloned().filter(|s| s.starts_with("dict:")).collect();
        let other: Vec<&'static str> =
            all.iter().cloned().filter(|s| !s.starts_with("dict:") && !algos.contains(s)).collect();
        // bytes >= 0x80 only matter to code that compares bytes itself: one subject per code path
        let signed: Vec<&'static str> = vec!["sab:sais", "sab:dc3", "sab:divsufsort", "sab:ls", "esa:bwt", "csa:dict", "dict:adaptive"];
        batches.push(Batch { name: "exh abc".into(), map: Some(map_a), texts: exhaustive(l0, map_a, "exh abc"), subjects: algos, per_run: 150, big: false });
        batches.push(Batch { name: "exh abc".into(), map: Some(map_a), texts: exhaustive(l1.min(l0), map_a, "exh abc"), subjects: other, per_run: 150, big: false });
        let heavy_main: Vec<&'static str> = heavy.iter().cloned().filter(|s| matches!(*s, "dict:adaptive" | "dict:sais")).collect();
        let heavy_twin: Vec<&'static str> = heavy.iter().cloned().filter(|s| !heavy_main.contains(s)).collect();
        batches.push(Batch { name: "exh abc".into(), map: Some(map_a), texts: exhaustive(l2.min(l0), map_a, "exh abc"), subjects: heavy_main, per_run: 150, big: false });
        batches.push(Batch { name: "exh abc".into(), map: Some(map_a), texts: exhaustive((l2 - 1).min(l0), map_a, "exh abc"), subjects: heavy_twin, per_run: 150, big: false });
        batches.push(Batch { name: "exh 00 80 ff".into(), map: Some(map_b), texts: exhaustive(l2.min(l0), map_b, "exh 00 80 ff"), subjects: signed, per_run: 150, big: false });
        batches.push(Batch { name: "families".into(), map: None, texts: families(a.seed, a.thorough()), subjects: all.clone(), per_run: 12, big: false });
        // a long block repeated with different followers: judged entry by entry (|B| <= 257) ...
        let block_small = block_texts(a.seed, a.thorough(), true);
        let all_but_twins: Vec<&'static str> = all
            .iter()
            .cloned()
            .filter(|s| !matches!(*s, "dict:min4" | "dict:serde" | "dict:file" | "dict:optimized"))
            .collect();
        batches.push(Batch { name: "blocks small".into(), map: None, texts: block_small, subjects: all_but_twins, per_run: 12, big: false });
        // ... and through the projection (|B| = 1023 .. 70 000), every construction and the entry points built on them
        batches.push(Batch {
            name: "blocks big".into(),
            map: None,
            texts: block_texts(a.seed, a.thorough(), false),
            subjects: vec![
                "sab:adaptive", "sab:sais", "sab:ls", "sab:divsufsort", "sab:dc3", "csa:default", "csa:dict",
                "dict:adaptive", "dict:sais", "dict:ls", "dict:dc3", "dict:divsufsort",
            ],
            per_run: 12,
            big: true,
        });
        batches.push(Batch {
            name: "big".into(),
            map: None,
            texts: big_texts(a.seed, a.thorough()),
            subjects: vec!["sab:adaptive", "sab:sais", "sab:ls", "sab:divsufsort", "sab:dc3"],
            per_run: 4,
            big: true,
        });
    }
    let mut cases_total = 0u64;
    let mut max_len = 0usize;
    let mut texts_total = 0usize;
    for b in &batches {
        if let Some(only) = a.get("only") {
            if !b.name.starts_with(only) {
                continue;
            }
        }
        texts_total += b.texts.len();
        for &subject in &b.subjects {
            if !a.wants(subject) {
                continue;
            }
            let (fam, variant) = subject.split_once(':').unwrap();
            let st = stats.entry(subject.to_string()).or_default();
            // one subject per trace file: a known-finding pass then re-reads only that subject's events
            tr.close();
            let comp = if fam == "csa" {
                match guard(|| SuffixArrayCompressor::new(csa_config(variant))) {
                    Ok(Ok(c)) => Some(c),
                    _ => None,
                }
            } else {
                None
            };
            let mut rng = Rng::new(a.seed).derive(&format!("pats/{}", b.name));
            let mut executed = 0usize;
            for (ci, t) in b.texts.iter().enumerate() {
                if b.big && t.bytes.len() > 20_000 && (variant == "sais" || variant == "dc3") {
                    continue; // quadratic paths: keep the thorough tier within budget
                }
                // budget: the long family texts go to the five builder algorithms (and csa:dict, esa:bwt) in full;
                // entry points that re-route the same constructions / the same matcher get the shorter ones
                let tlen = t.bytes.len();
                let twin_dict = fam == "dict" && !matches!(variant, "adaptive" | "sais");
                if !b.big && ((twin_dict && tlen > 64) || (fam == "dict" && tlen > if a.thorough() { 300 } else { 160 })) {
                    continue;
                }
                if !b.big
                    && tlen > 400
                    && matches!(subject, "sab:sais_noopt" | "sab:sais_par" | "sa:new" | "esa:lcp" | "csa:default" | "csa:realtime" | "csa:large")
                    && !a.thorough()
                {
                    continue;
                }
                if b.big && t.blk == 70_000 && !a.thorough() && !matches!(subject, "sab:ls" | "sab:adaptive" | "sab:divsufsort") {
                    continue; // quick tier: the 70 000-byte blocks go to the comparison sorts and the adaptive switch
                }
                if b.big && t.blk == 70_000 && fam == "dict" && !matches!(variant, "ls" | "adaptive") {
                    continue;
                }
                if b.big && fam == "dict" && t.blk >= 4095 && matches!(t.fam.split(' ').nth(1), Some("a^n") | Some("periodic")) {
                    continue; // the generic occurrence scan is quadratic on a run / period of this size
                }
                if b.big && t.fam.starts_with("big edge") && variant != "adaptive" {
                    continue; // the size thresholds belong to Adaptive only
                }
                if executed % b.per_run == 0 {
                    tr.reset(
                        DOMAIN,
                        subject,
                        json!({"fam":fam,"variant":variant,"algo":algo_label(subject),"batch":b.name,"seed":a.seed,
                               "tier":a.tier,"first_case":ci,"big":b.big}),
                    );
                    st.runs += 1;
                    st.events += 1;
                }
                executed += 1;
                let mut o = Out { tr: &mut tr, st: &mut *st };
                max_len = max_len.max(t.bytes.len());
                if b.big {
                    o.ev(json!({"op":"text_proj","fam":t.fam,"text":digest(&t.bytes)}), 0);
                    let judged = match fam {
                        "csa" => match &comp {
                            Some(c) => case_big_csa(&mut o, c, &t.bytes),
                            None => false,
                        },
                        "dict" => case_big_dict(&mut o, variant, &t.bytes, t.blk),
                        _ => case_big(&mut o, variant, &t.bytes),
                    };
                    if judged {
                        o.st.nontrivial += 1;
                    }
                    o.st.cases += 1;
                    cases_total += 1;
                    continue;
                }
                let pats = match b.map {
                    Some(m) => patterns_small(&t.bytes, m),
                    None => {
                        let cap = if fam == "dict" && t.bytes.len() > 64 && !a.thorough() { 12 } else { 48 };
                        patterns(&t.bytes, if a.thorough() { 4 } else { 3 }, cap, &mut rng)
                    }
                };
                o.ev(json!({"op":"text","fam":t.fam,"text":bytes_json(&t.bytes)}), 0);
                let judged = match fam {
                    "sab" => case_sab(&mut o, variant, &t.bytes, &pats),
                    "sa" => case_sa_new(&mut o, &t.bytes, &pats),
                    "esa" => case_esa(&mut o, variant, &t.bytes, &pats),
                    "csa" => match &comp {
                        Some(c) => case_csa(&mut o, c, &t.bytes, &pats),
                        None => {
                            o.st.refused += 1;
                            o.ev(json!({"op":"sa","ok":false,"sa":[],"err":"compressor not constructed"}), 0);
                            false
                        }
                    },
                    "dict" => case_dict(&mut o, variant, &t.bytes, &pats, &a.out),
                    _ => false,
                };
                o.st.cases += 1;
                cases_total += 1;
                if judged && t.bytes.len() >= 2 {
                    o.st.nontrivial += 1;
                }
            }
        }
    }
    tr.close();
    let subj: serde_json::Map<String, Value> = stats
        .iter()
        .map(|(k, s)| {
            (
                k.clone(),
                json!({"runs": s.runs, "cases": s.cases, "nontrivial": s.nontrivial, "refused": s.refused,
                       "panics": s.panics, "events": s.events, "answers": s.answers, "selected": s.selected}),
            )
        })
        .collect();
    write_summary(
        &a.out,
        &json!({
            "events": tr.total_events, "runs": tr.runs, "files": tr.files.len(), "cases": cases_total,
            "texts": texts_total, "max_len": max_len,
            "answers": stats.values().map(|s| s.answers).sum::<u64>(),
            "nontrivial": stats.values().map(|s| s.nontrivial).sum::<u64>(),
            "subjects": subj,
        }),
    );
}

fn main() {
    let a = Args::parse();
    quiet_panics();
    match a.mode.as_str() {
        "drive" => drive(&a),
        "subjects" => {
            for s in subjects() {
                println!("{s}");
            }
        }
        m => {
            eprintln!("c12: unknown mode {m}");
            std::process::exit(2)
        }
    }
}
