//! C04 — rank/select answers match the bit sequence definition in every implementation.
//!
//! Runs the real zipora rank/select structures on generated bit vectors and logs, per
//! (vector, subject, operation), ONE batch event carrying the answer for EVERY position
//! 0..=len / every k in 0..=len.  TLC judges the events against spec/RankSelect.tla
//! (Trace_RankSelect.tla).  This file contains no rank/select computation of its own: the
//! bit vectors are *inputs* (generated here, logged as 16-bit words in the reset event), the
//! answers are whatever the code under test returned.
//!
//! modes:
//!   drive     all vectors x all subjects (filters: --subject a,b  --len N  --pat P)
//!   subjects  list subject names
use serde_json::{json, Value};
use std::cell::Cell;
use std::collections::{BTreeMap, HashSet};
use zipora::succinct::rank_select::bmi2_acceleration as b2a;
use zipora::succinct::rank_select::bmi2_comprehensive as b2c;
use zipora::succinct::rank_select::multidim_simd::MultiDimRankSelect;
use zipora::succinct::rank_select::{
    bulk_popcount_simd, bulk_rank1_simd, bulk_select1_simd, AdaptiveMultiDimensional, AdaptiveRankSelect, AccessPattern,
    BuilderOptions, RankSelectAllOne, RankSelectAllZero, RankSelectBuilder, RankSelectFewOne, RankSelectFewZero,
    RankSelectInterleaved256, RankSelectMixedIL256, RankSelectOps, RankSelectPerformanceOps, RankSelectSE256,
    RankSelectSE512, RankSelectSE512_32, RankSelectSE512_64, RankSelectSimple, SelectionCriteria,
};
use zipora::succinct::BitVector;
use zv::*;

// ---------------------------------------------------------------- input vectors

/// A generated bit vector: `len` bits packed little-endian into 64-bit words, zero beyond `len`.
#[derive(Clone)]
struct Input {
    len: usize,
    words: Vec<u64>,
    pat: String,
    /// large vector: positions are sampled (block boundaries +-1 and random ones) instead of all
    big: bool,
}

impl Input {
    fn bit(&self, i: usize) -> bool {
        (self.words[i / 64] >> (i % 64)) & 1 == 1
    }
    /// the vector as 16-bit words (bit i of the vector = bit (i mod 16) of w16[i div 16])
    fn w16(&self) -> Value {
        let n16 = (self.len + 15) / 16;
        Value::Array((0..n16).map(|j| json!((self.words[j / 4] >> (16 * (j % 4))) & 0xffff)).collect())
    }
}

const PATTERNS: &[&str] = &[
    "zeros", "ones", "one1", "one0", "alt0", "alt1", "run63", "run64", "run65", "p01", "p50", "p99",
];

fn gen_input(seed: u64, len: usize, pat: &str) -> Input {
    let mut rng = Rng::new(seed).derive(&format!("{pat}/{len}"));
    let special = if len > 0 {
        match rng.below(4) {
            0 => 0,
            1 => len - 1,
            2 => (len - 1) / 64 * 64,
            _ => rng.below(len as u64) as usize,
        }
    } else {
        0
    };
    let mut words = vec![0u64; (len + 63) / 64];
    for i in 0..len {
        let b = match pat {
            "zeros" => false,
            "ones" => true,
            "one1" => i == special,
            "one0" => i != special,
            "alt0" => i % 2 == 1,
            "alt1" => i % 2 == 0,
            "run63" => (i / 63) % 2 == 0,
            "run64" => (i / 64) % 2 == 0,
            "run65" => (i / 65) % 2 == 0,
            "p01" => rng.chance(1, 100),
            "p50" => rng.chance(1, 2),
            "p99" => rng.chance(99, 100),
            _ => false,
        };
        if b {
            words[i / 64] |= 1u64 << (i % 64);
        }
    }
    Input { len, words, pat: pat.to_string(), big: len > 6000 }
}

fn lengths(a: &Args) -> Vec<usize> {
    let mut v: Vec<usize> = vec![];
    if a.thorough() {
        v.extend(0..=1100);
    } else {
        v.extend(0..=130);
    }
    for m in 1..=17 {
        v.extend([64 * m - 1, 64 * m, 64 * m + 1]);
    }
    v.extend(2046..=2050);
    v.extend(4094..=4098);
    if a.thorough() {
        v.extend(65534..=65538);
    }
    v.sort();
    v.dedup();
    v
}

/// how many of the patterns a length gets in the quick tier (all of them in the thorough tier for the
/// block-boundary lengths).  Rotation over consecutive lengths makes every pattern meet every block class.
fn patterns_for(a: &Args, li: usize, len: usize) -> Vec<&'static str> {
    let all = PATTERNS.to_vec();
    let rot = |k: usize| -> Vec<&'static str> { (0..k).map(|j| PATTERNS[(li * k + j + len / 64) % PATTERNS.len()]).collect() };
    let half = |h: usize| -> Vec<&'static str> { PATTERNS.iter().enumerate().filter(|(i, _)| i % 2 == h).map(|(_, p)| *p).collect() };
    if a.get("pat").is_some() || len <= 2 {
        return all;
    }
    let exact = [64usize, 128, 256, 512, 1024].contains(&len);
    let near = [64usize, 128, 256, 512, 1024].iter().any(|&b| len + 1 == b || len == b + 1);
    if a.thorough() {
        if exact || near || [2048usize, 4096, 65536].contains(&len) {
            return all;
        }
        if len > 6000 {
            return if len % 2 == 0 { vec!["p50", "one1"] } else { vec!["run64", "one0"] };
        }
        if len > 1100 {
            return half(len % 2);
        }
        return rot(1);
    }
    if exact {
        return all;
    }
    if near {
        return half(len % 2);
    }
    if len == 2048 || len == 4096 {
        return half((len / 2048) % 2);
    }
    if len > 1100 {
        return rot(1);
    }
    if len % 64 == 0 {
        return rot(2);
    }
    rot(1)
}

fn key_length(len: usize) -> bool {
    len <= 2 || [64usize, 128, 256, 512, 1024, 2048, 4096].iter().any(|&b| len + 1 >= b && len <= b + 1)
}

fn inputs(a: &Args) -> Vec<Input> {
    let only_len = a.get("len").and_then(|s| s.parse::<usize>().ok());
    let only_pat = a.get("pat");
    let mut out = vec![];
    let mut seen: HashSet<(usize, Vec<u64>)> = HashSet::new();
    for (li, &len) in lengths(a).iter().enumerate() {
        if let Some(l) = only_len {
            if l != len {
                continue;
            }
        }
        for p in patterns_for(a, li, len) {
            if let Some(op) = only_pat {
                if op != p {
                    continue;
                }
            }
            let inp = gen_input(a.seed, len, p);
            // identical vectors (short lengths) are generated once
            if only_pat.is_none() && !seen.insert((inp.len, inp.words.clone())) {
                continue;
            }
            out.push(inp);
        }
    }
    out
}

/// construction routes of a BitVector from the input
fn make_bv(inp: &Input, route: &str) -> BitVector {
    match route {
        // built through the raw-word constructor, with garbage above `len` and one extra word
        "raw" => {
            let mut w = inp.words.clone();
            if inp.len % 64 != 0 {
                let last = w.len() - 1;
                w[last] |= !0u64 << (inp.len % 64);
            }
            w.push(0xdead_beef_dead_beef);
            BitVector::from_raw_bits(w, inp.len).expect("from_raw_bits")
        }
        // a longer all-one vector truncated to len, then every bit set explicitly
        "shrunk" => {
            let mut bv = BitVector::with_size(inp.len + 200, true).expect("with_size");
            bv.resize(inp.len, false).expect("resize");
            for i in 0..inp.len {
                bv.set(i, inp.bit(i)).expect("set");
            }
            bv
        }
        _ => {
            let mut bv = BitVector::new();
            for i in 0..inp.len {
                bv.push(inp.bit(i)).expect("push");
            }
            bv
        }
    }
}

fn partner(inp: &Input, seed: u64, len: usize) -> BitVector {
    let mut w = gen_input(seed ^ 0x5151, len, if inp.len % 2 == 0 { "p50" } else { "p99" });
    // the partner always has a one at position 0, so that select1(0) on it is answerable
    if len > 0 {
        w.words[0] |= 1;
    }
    make_bv(&w, "push")
}

// ---------------------------------------------------------------- run recorder

#[derive(Default, Clone)]
struct SubjStat {
    runs: u64,
    events: u64,
    answers: u64,
    panics: u64,
    build_refused: u64,
    select0_not_offered: u64,
    nontrivial_runs: u64,
}

struct Run<'a> {
    tr: &'a mut Tracer,
    inp: &'a Input,
    st: &'a mut SubjStat,
    ints: &'a mut u64,
    at: Cell<usize>,
    answered: bool,
    /// thorough tier: every entry point on every variant
    full: bool,
    /// length used for the query ranges (inp.len, or the BitVector's own len() after a history)
    n: usize,
    /// the BitVector a mutation history produced (route "hist")
    hist: Option<BitVector>,
}

struct Stop;
type R = Result<(), Stop>;

/// outcome of one select call: the position, or the refusal with the implementation's own words
trait IntoSel {
    fn into_sel(self) -> Result<usize, String>;
}
impl IntoSel for Option<usize> {
    fn into_sel(self) -> Result<usize, String> {
        self.ok_or_else(|| "none".to_string())
    }
}
impl IntoSel for zipora::error::Result<usize> {
    fn into_sel(self) -> Result<usize, String> {
        self.map_err(|e| e.to_string())
    }
}

/// a bulk call that answered Ok with a wrong number of results (logged as -2, never a defined answer)
const MALFORMED: usize = usize::MAX - 1;
/// answers are positions / counts <= 65538; anything >= 10^9 (a wrapped subtraction ...) is logged as
/// 10^9 so that the trace stays within TLC's 32-bit integers
fn clip(x: usize) -> i64 {
    if x >= 1_000_000_000 {
        1_000_000_000
    } else {
        x as i64
    }
}
/// answers of rank/select calls (may carry the MALFORMED marker of `one`)
fn clip_m(x: usize) -> i64 {
    if x == MALFORMED {
        -2
    } else {
        clip(x)
    }
}
/// the single result of a bulk call asked one question
fn one(v: Vec<usize>) -> usize {
    if v.len() == 1 {
        v[0]
    } else {
        MALFORMED
    }
}

impl<'a> Run<'a> {
    fn ev(&mut self, e: Value, answers: usize) {
        self.tr.ev(e);
        self.st.events += 1;
        self.st.answers += answers as u64;
        *self.ints += answers as u64 + 8;
        if answers > 0 {
            self.answered = true;
        }
    }
    /// positions p for rank queries: every p in 0..=len, or the sample for large vectors
    fn positions(&self) -> (bool, Vec<usize>) {
        if !self.inp.big {
            return (true, (0..=self.n).collect());
        }
        (false, sample(self.n, self.n, 2000))
    }
    /// k for select queries: every k in 0..=len (k >= count must be refused), or the sample
    fn ks(&self) -> (bool, Vec<usize>) {
        self.positions()
    }
    fn panic(&mut self, api: &str, msg: String) -> Stop {
        let at = self.at.get();
        // coarse class of the message (TLC does not take strings apart)
        let kind = if msg.starts_with("index out of bounds") || msg.contains("out of range for slice") {
            "oob"
        } else if msg.starts_with("assertion") {
            "assert"
        } else if msg.contains("overflow") {
            "overflow"
        } else {
            "other"
        };
        self.ev(json!({"op":"panic","in":api,"at":at,"kind":kind,"msg":msg}), 0);
        self.st.panics += 1;
        Stop
    }
    /// rank-like operation answered position by position
    fn rank(&mut self, which: &str, api: &str, f: impl Fn(usize) -> usize) -> R {
        let (all, pos) = self.positions();
        let at = &self.at;
        let r = guard(|| {
            pos.iter()
                .map(|&p| {
                    at.set(p);
                    f(p)
                })
                .collect::<Vec<usize>>()
        });
        self.rank_done(which, api, all, pos, r)
    }
    /// rank-like operation answered by ONE bulk call: all positions ascending, then the same entry point
    /// with descending / shuffled / duplicated / far-apart / same-block / empty position lists
    fn rank_bulk(&mut self, which: &str, api: &str, f: impl Fn(&[usize]) -> Vec<usize>) -> R {
        let (all, pos) = self.positions();
        self.at.set(usize::MAX >> 40);
        let r = guard(|| f(&pos));
        let base = pos.clone();
        self.rank_done(which, api, all, pos, r)?;
        for (order, list) in order_lists(&base, self.n as u64) {
            let r = guard(|| f(&list));
            self.rank_done(which, &format!("{api}<{order}>"), false, list, r)?;
        }
        Ok(())
    }
    fn rank_done(&mut self, which: &str, api: &str, all: bool, pos: Vec<usize>, r: Result<Vec<usize>, String>) -> R {
        match r {
            Ok(r) => {
                let n = r.len();
                let r: Vec<i64> = r.into_iter().map(clip_m).collect();
                let at = if all { vec![] } else { pos };
                self.ev(json!({"op":"rank","which":which,"api":api,"all":all,"at":at,"r":r}), n);
                Ok(())
            }
            Err(m) => Err(self.panic(api, m)),
        }
    }
    /// select answered k by k; None/Err is logged as -1.  `why` projects what the refusals SAID:
    /// "unimplemented" when every refusal of the batch says the operation is not implemented,
    /// "range" otherwise (the implementation claims k is out of range), "" when nothing was refused.
    fn select<S: IntoSel>(&mut self, which: &str, api: &str, f: impl Fn(usize) -> S) -> R {
        let (all, ks) = self.ks();
        let at = &self.at;
        let r = guard(|| {
            let mut unimpl = 0usize;
            let mut refused = 0usize;
            let v = ks
                .iter()
                .map(|&k| {
                    at.set(k);
                    match f(k).into_sel() {
                        Ok(x) => clip_m(x),
                        Err(m) => {
                            refused += 1;
                            let m = m.to_lowercase();
                            if m.contains("not yet implemented") || m.contains("not implemented") || m.contains("unsupported") {
                                unimpl += 1;
                            }
                            -1
                        }
                    }
                })
                .collect::<Vec<i64>>();
            (v, refused, unimpl)
        });
        match r {
            Ok((r, refused, unimpl)) => {
                let n = r.len();
                let why = if refused == 0 {
                    ""
                } else if unimpl == refused {
                    "unimplemented"
                } else {
                    "range"
                };
                if why == "unimplemented" && refused == n {
                    self.st.select0_not_offered += 1;
                }
                let at = if all { vec![] } else { ks };
                self.ev(json!({"op":"select","which":which,"api":api,"all":all,"at":at,"r":r,"why":why}), n);
                Ok(())
            }
            Err(m) => Err(self.panic(api, m)),
        }
    }
    /// ONE call for all k in `ks`
    fn select_batch(&mut self, which: &str, api: &str, ks: Vec<usize>, f: impl Fn(&[usize]) -> Option<Vec<usize>>) -> R {
        self.at.set(usize::MAX >> 40);
        match guard(|| f(&ks)) {
            Ok(r) => {
                let ok = r.is_some();
                let r: Vec<i64> = r.unwrap_or_default().into_iter().map(clip).collect();
                let n = ks.len();
                self.ev(json!({"op":"select_batch","which":which,"api":api,"at":ks,"ok":ok,"r":r}), n);
                Ok(())
            }
            Err(m) => Err(self.panic(api, m)),
        }
    }
    /// the bulk calls: all k below `count` (the subject's own count_ones) ascending, 0..=count, then the valid k
    /// in descending / shuffled / duplicated / far-apart / empty order, and a list with one invalid k inside
    fn select_bulk_pair(&mut self, api: &str, count: usize, f: impl Fn(&[usize]) -> Option<Vec<usize>>) -> R {
        let ks: Vec<usize> = if self.inp.big { sample(count.saturating_sub(1), self.n, 2000) } else { (0..count).collect() };
        let ks: Vec<usize> = ks.into_iter().filter(|&k| k < count).collect();
        self.select_batch("select1", api, ks.clone(), &f)?;
        let mut ks2 = ks.clone();
        ks2.push(count);
        self.select_batch("select1", api, ks2, &f)?;
        for (order, list) in order_lists(&ks, self.n as u64 + 1) {
            if order == "shuffled" && list.len() >= 2 {
                let mut bad = list.clone();
                bad.insert(list.len() / 2, count);
                self.select_batch("select1", &format!("{api}<shuffled+invalid>"), bad, &f)?;
                let mut bad = list.clone();
                bad.insert(0, count + 7);
                self.select_batch("select1", &format!("{api}<invalid-first>"), bad, &f)?;
            }
            self.select_batch("select1", &format!("{api}<{order}>"), list, &f)?;
        }
        Ok(())
    }
    /// ONE call selecting several ones of ONE word
    fn wselect_batch(&mut self, api: &str, f: impl Fn(u64, &[usize]) -> Option<Vec<usize>>) -> R {
        for w in self.word_sample() {
            let word = self.inp.words[w];
            // how many questions are worth asking: where the entry point itself starts to refuse single questions
            let ones = match guard(|| (0..=64usize).find(|&k| f(word, &[k]).is_none()).unwrap_or(65)) {
                Ok(c) => c,
                Err(m) => return Err(self.panic(api, m)),
            };
            let valid: Vec<usize> = (0..ones).collect();
            let mut lists = order_lists(&valid, w as u64);
            lists.push(("asc", valid.clone()));
            let mut bad = valid.clone();
            bad.insert(valid.len() / 2, 64);
            lists.push(("invalid", bad));
            for (order, list) in lists {
                match guard(|| f(word, &list)) {
                    Ok(r) => {
                        let ok = r.is_some();
                        let r: Vec<i64> = r.unwrap_or_default().into_iter().map(clip_m).collect();
                        let n = list.len();
                        self.ev(json!({"op":"wselect_batch","which":"select1","api":format!("{api}<{order}>"),"w":w,"at":list,"ok":ok,"r":r}), n)
                    }
                    Err(m) => return Err(self.panic(api, m)),
                }
            }
        }
        Ok(())
    }
    fn get(&mut self, api: &str, f: impl Fn(usize) -> Option<bool>) -> R {
        let n = self.n;
        // every i < len; the sample for large vectors
        let (all, idx): (bool, Vec<usize>) =
            if self.inp.big { (false, sample(n - 1, n, 2000)) } else { (true, (0..n).collect()) };
        let at = &self.at;
        let r = guard(|| {
            idx.iter()
                .map(|&i| {
                    at.set(i);
                    match f(i) {
                        Some(true) => 1,
                        Some(false) => 0,
                        None => -1,
                    }
                })
                .collect::<Vec<i64>>()
        });
        match r {
            Ok(r) => {
                let cnt = r.len();
                let at = if all { vec![] } else { idx };
                self.ev(json!({"op":"get","api":api,"all":all,"at":at,"r":r}), cnt);
                Ok(())
            }
            Err(m) => Err(self.panic(api, m)),
        }
    }
    fn counts(&mut self, f: impl Fn() -> (usize, usize, usize)) -> R {
        self.at.set(0);
        match guard(f) {
            Ok((len, ones, zeros)) => {
                self.ev(json!({"op":"counts","len":clip(len),"ones":clip(ones),"zeros":clip(zeros)}), 3);
                Ok(())
            }
            Err(m) => Err(self.panic("counts", m)),
        }
    }
    /// a twin of len / count_ones / count_zeros / is_empty
    fn cnt(&mut self, what: &str, api: &str, f: impl Fn() -> usize) -> R {
        self.at.set(0);
        match guard(f) {
            Ok(x) => {
                self.ev(json!({"op":"cnt","what":what,"api":api,"r":clip(x)}), 1);
                Ok(())
            }
            Err(m) => Err(self.panic(api, m)),
        }
    }
    /// ones inside bit ranges (start, len) of single words
    fn wrange(&mut self, api: &str, f: impl Fn(u64, &[(u32, u32)]) -> Vec<u32>) -> R {
        let mut ranges: Vec<(u32, u32)> = vec![];
        for s in [0u32, 1, 31, 32, 63, 64] {
            for l in [0u32, 1, 32, 33, 64] {
                ranges.push((s, l));
            }
        }
        // the same ranges ascending, descending, shuffled with duplicates, and no range at all
        let mut rng = Rng::new(ranges.len() as u64);
        let mut desc = ranges.clone();
        desc.reverse();
        let mut sh = ranges.clone();
        sh.extend(ranges.iter().step_by(3).copied());
        rng.shuffle(&mut sh);
        let lists = vec![("asc", ranges), ("desc", desc), ("shuffled+dups", sh), ("empty", vec![])];
        for w in self.word_sample() {
            let word = self.inp.words[w];
            for (order, ranges) in &lists {
                match guard(|| f(word, ranges)) {
                    Ok(r) => {
                        let ss: Vec<u32> = ranges.iter().map(|x| x.0).collect();
                        let ls: Vec<u32> = ranges.iter().map(|x| x.1).collect();
                        let n = r.len();
                        self.ev(json!({"op":"wrange","api":format!("{api}<{order}>"),"w":w,"s":ss,"l":ls,"r":r}), n)
                    }
                    Err(m) => return Err(self.panic(api, m)),
                }
            }
        }
        Ok(())
    }
    /// trailing / leading zero counts of single words
    fn wedge(&mut self, api: &str, f: impl Fn(u64) -> (u32, u32)) -> R {
        for w in self.word_sample() {
            let word = self.inp.words[w];
            match guard(|| f(word)) {
                Ok((tz, lz)) => self.ev(json!({"op":"wedge","api":api,"w":w,"tz":tz,"lz":lz}), 2),
                Err(m) => return Err(self.panic(api, m)),
            }
        }
        Ok(())
    }
    fn build_refused(&mut self) -> R {
        self.ev(json!({"op":"build","ok":false}), 0);
        self.st.build_refused += 1;
        Err(Stop)
    }
    /// the words asked at word level: all of a short vector, first / boundary / last ones otherwise
    fn word_sample(&self) -> Vec<usize> {
        let nw = self.inp.words.len();
        if nw <= 5 {
            return (0..nw).collect();
        }
        let mut v = vec![0, 1, nw / 2, nw - 2, nw - 1];
        v.dedup();
        v
    }
    fn wrank(&mut self, api: &str, f: impl Fn(u64, usize) -> usize) -> R {
        for w in self.word_sample() {
            let word = self.inp.words[w];
            let at = &self.at;
            let r = guard(|| {
                (0..=64usize)
                    .map(|p| {
                        at.set(p);
                        f(word, p)
                    })
                    .collect::<Vec<usize>>()
            });
            match r {
                Ok(r) => {
                    let r: Vec<i64> = r.into_iter().map(clip).collect();
                    self.ev(json!({"op":"wrank","api":api,"w":w,"r":r}), 65)
                }
                Err(m) => return Err(self.panic(api, m)),
            }
        }
        Ok(())
    }
    /// f(word, k) with k 0-based (adapters of 1-based APIs pass k+1)
    fn wselect(&mut self, which: &str, api: &str, f: impl Fn(u64, usize) -> Option<usize>) -> R {
        for w in self.word_sample() {
            if which == "select0" && 64 * w + 64 > self.n {
                continue;
            }
            let word = self.inp.words[w];
            let at = &self.at;
            let r = guard(|| {
                (0..=64usize)
                    .map(|k| {
                        at.set(k);
                        f(word, k).map(clip_m).unwrap_or(-1)
                    })
                    .collect::<Vec<i64>>()
            });
            match r {
                Ok(r) => self.ev(json!({"op":"wselect","which":which,"api":api,"w":w,"r":r}), 65),
                Err(m) => return Err(self.panic(api, m)),
            }
        }
        Ok(())
    }
    fn popcounts(&mut self, api: &str, f: impl Fn(&[u64]) -> Vec<usize>) -> R {
        let words = self.inp.words.clone();
        match guard(|| f(&words)) {
            Ok(r) => {
                let n = r.len();
                let r: Vec<i64> = r.into_iter().map(clip).collect();
                self.ev(json!({"op":"popcounts","api":api,"r":r}), n);
                Ok(())
            }
            Err(m) => Err(self.panic(api, m)),
        }
    }
}

/// The orders in which ONE bulk call is asked its questions.  `base` = the ascending list of all
/// admissible arguments (thinned to at most ~256 for long vectors, keeping the ends and block edges).
/// The contract is the single-position answer for each element, in the order asked.
fn order_lists(base: &[usize], salt: u64) -> Vec<(&'static str, Vec<usize>)> {
    let mut rng = Rng::new(salt ^ 0x0bde5);
    let thin: Vec<usize> = if base.len() <= 256 {
        base.to_vec()
    } else {
        let mut v: Vec<usize> = base.iter().copied().filter(|&p| p < 3 || p % 64 < 2 || p % 64 == 63).collect();
        v.extend(base[base.len() - 3..].iter().copied());
        while v.len() > 200 {
            let i = 1 + rng.below(v.len() as u64 - 2) as usize;
            v.remove(i);
        }
        for _ in 0..56 {
            v.push(*rng.pick(base));
        }
        v.sort();
        v.dedup();
        v
    };
    let mut out: Vec<(&'static str, Vec<usize>)> = vec![("empty", vec![])];
    if thin.is_empty() {
        return out;
    }
    let (lo, hi) = (thin[0], thin[thin.len() - 1]);
    let mut desc = thin.clone();
    desc.reverse();
    out.push(("desc", desc));
    let mut sh = thin.clone();
    rng.shuffle(&mut sh);
    out.push(("shuffled", sh.clone()));
    // duplicates: a few elements asked two or three times, not adjacent
    let mut dups: Vec<usize> = sh.iter().take(48).copied().collect();
    let again: Vec<usize> = dups.iter().step_by(2).copied().collect();
    dups.extend(again.iter().copied());
    dups.extend(again.iter().step_by(3).copied());
    rng.shuffle(&mut dups);
    dups.push(hi);
    dups.push(hi);
    dups.insert(0, lo);
    dups.insert(0, lo);
    out.push(("dups", dups));
    // far apart: last, first, last-1, second, ...
    let mut zig = vec![];
    for i in 0..thin.len().min(40) {
        zig.push(thin[thin.len() - 1 - i]);
        zig.push(thin[i]);
    }
    out.push(("zigzag", zig));
    // the same 64-bit block many times, then far away and back
    let mid = thin[thin.len() / 2];
    let mut blk: Vec<usize> = thin.iter().copied().filter(|&p| p / 64 == mid / 64).collect();
    rng.shuffle(&mut blk);
    let mut sb = blk.clone();
    sb.push(hi);
    sb.push(lo);
    sb.extend(blk.iter().rev().copied());
    sb.push(lo);
    sb.push(hi);
    out.push(("sameblock", sb));
    out.push(("ends", vec![hi, lo, hi, lo]));
    out.push(("first", vec![lo]));
    out.push(("last", vec![hi]));
    out
}

/// positions up to `max`: every multiple of 64 +-1, the ends, and `nrand` pseudo-random ones
fn sample(max: usize, len: usize, nrand: usize) -> Vec<usize> {
    let mut v = vec![0, 1, 2, max];
    let mut m = 64;
    while m <= max + 1 {
        v.extend([m - 1, m, m + 1]);
        m += 64;
    }
    v.extend([max.saturating_sub(1), max.saturating_sub(2)]);
    let mut rng = Rng::new(len as u64 ^ 0xabcdef);
    for _ in 0..nrand {
        v.push(rng.below(max as u64 + 1) as usize);
    }
    v.retain(|&p| p <= max);
    v.sort();
    v.dedup();
    v
}

// ---------------------------------------------------------------- bit-vector mutation histories

/// bits as 16-bit words (the format of the reset event)
fn pack16(bits: &[bool]) -> Value {
    let mut w = vec![0u32; (bits.len() + 15) / 16];
    for (i, &b) in bits.iter().enumerate() {
        if b {
            w[i / 16] |= 1 << (i % 16);
        }
    }
    json!(w)
}

fn rand_bits(rng: &mut Rng, n: usize, num: u64, den: u64) -> Vec<bool> {
    (0..n).map(|_| rng.chance(num, den)).collect()
}

const HIST_LENS: &[usize] = &[1, 63, 64, 65, 100, 127, 128, 129, 200, 255, 256, 257, 300, 511, 512, 513];
const HIST_POPS: &[usize] = &[1, 2, 3, 63, 64, 65];

/// (profile, number of variants in the quick tier)
const HIST_PROFILES: &[(&str, usize)] = &[
    ("poptail", 16), ("popgrow", 24), ("shrink", 8), ("clearre", 4), ("raw", 6), ("insert", 4), ("range", 8),
    ("bitwise", 6), ("fast", 6), ("mixed", 16),
];

fn histories(a: &Args) -> Vec<(String, usize)> {
    let mut v = vec![];
    let mult = if a.thorough() { 4 } else { 1 };
    for &(p, k) in HIST_PROFILES {
        for i in 0..k * mult {
            v.push((p.to_string(), i));
        }
    }
    v
}

/// One mutator call on the real BitVector, logged as a `mut` event together with len() and
/// count_ones() observed right after it.  The harness does not know what the vector contains.
struct Hist<'r, 'a> {
    r: &'r mut Run<'a>,
    bv: BitVector,
    /// full probe (counts, get, rank1, rank0 for every position) after every step
    probe: bool,
}

impl<'r, 'a> Hist<'r, 'a> {
    fn len(&self) -> usize {
        self.bv.len()
    }
    fn done(&mut self, api: &str, res: Result<Value, String>) -> R {
        let mut e = match res {
            Ok(e) => e,
            Err(m) => return Err(self.r.panic(api, m)),
        };
        let bv = &self.bv;
        let (len, ones) = match guard(|| (bv.len(), bv.count_ones())) {
            Ok(x) => x,
            Err(m) => return Err(self.r.panic("count_ones", m)),
        };
        let o = e.as_object_mut().unwrap();
        o.insert("op".into(), json!("mut"));
        o.insert("api".into(), json!(api));
        o.insert("len".into(), json!(clip(len)));
        o.insert("ones".into(), json!(clip(ones)));
        self.r.ev(e, 2);
        self.r.n = len;
        if self.probe {
            let bv = &self.bv;
            let r = &mut *self.r;
            r.counts(|| (bv.len(), bv.count_ones(), bv.count_zeros()))?;
            r.get("get", |i| bv.get(i))?;
            r.rank("rank1", "rank1", |p| bv.rank1(p))?;
            r.rank("rank0", "rank0", |p| bv.rank0(p))?;
        }
        Ok(())
    }
    fn new_with(&mut self, api: &str, f: impl FnOnce() -> Result<(BitVector, Value), String>) -> R {
        let res = guard(f);
        let res = match res {
            Ok(Ok((bv, e))) => {
                self.bv = bv;
                Ok(e)
            }
            Ok(Err(m)) | Err(m) => Err(m),
        };
        self.done(api, res)
    }
    fn create(&mut self, api: &str, cap: usize) -> R {
        self.new_with(api, || {
            let bv = if api == "with_capacity" { BitVector::with_capacity(cap).map_err(|e| e.to_string())? } else { BitVector::new() };
            Ok((bv, json!({"m":"new"})))
        })
    }
    fn with_size(&mut self, n: usize, x: bool) -> R {
        self.new_with("with_size", || Ok((BitVector::with_size(n, x).map_err(|e| e.to_string())?, json!({"m":"with_size","n":n,"x":x as u8}))))
    }
    /// from_raw_bits with garbage above n and a surplus word
    fn from_raw(&mut self, bits: &[bool]) -> R {
        let n = bits.len();
        let mut w = vec![0u64; (n + 63) / 64];
        for (i, &b) in bits.iter().enumerate() {
            if b {
                w[i / 64] |= 1u64 << (i % 64);
            }
        }
        if n % 64 != 0 {
            let last = w.len() - 1;
            w[last] |= !0u64 << (n % 64);
        }
        w.push(!0u64);
        let e = json!({"m":"from_raw","n":n,"w16":pack16(bits)});
        self.new_with("from_raw_bits", || Ok((BitVector::from_raw_bits(w, n).map_err(|e| e.to_string())?, e)))
    }
    fn push(&mut self, bits: &[bool]) -> R {
        let bv = &mut self.bv;
        let res = guard(|| {
            for &b in bits {
                bv.push(b).expect("push");
            }
        });
        let e = json!({"m":"push","k":bits.len(),"w16":pack16(bits)});
        self.done("push", res.map(|_| e))
    }
    fn pop(&mut self, k: usize) -> R {
        let bv = &mut self.bv;
        let res = guard(|| {
            (0..k)
                .map(|_| match bv.pop() {
                    Some(true) => 1,
                    Some(false) => 0,
                    None => -1,
                })
                .collect::<Vec<i64>>()
        });
        self.done("pop", res.map(|r| json!({"m":"pop","k":k,"r":r})))
    }
    /// set / set_unchecked (only in range) / get_mut().set
    fn set(&mut self, api: &str, i: usize, x: bool) -> R {
        let bv = &mut self.bv;
        let res = guard(|| match api {
            "set_unchecked" => {
                unsafe { bv.set_unchecked(i, x) };
                true
            }
            "get_mut" => match bv.get_mut(i) {
                Some(mut b) => b.set(x).is_ok(),
                None => false,
            },
            _ => bv.set(i, x).is_ok(),
        });
        self.done(api, res.map(|ok| json!({"m":"set","i":i,"x":x as u8,"ok":ok})))
    }
    fn insert(&mut self, i: usize, x: bool) -> R {
        let bv = &mut self.bv;
        let res = guard(|| bv.insert(i, x).is_ok());
        self.done("insert", res.map(|ok| json!({"m":"insert","i":i,"x":x as u8,"ok":ok})))
    }
    fn ensure(&mut self, api: &str, i: usize) -> R {
        let bv = &mut self.bv;
        let res = guard(|| if api == "fast_ensure_set1" { bv.fast_ensure_set1(i).is_ok() } else { bv.ensure_set1(i).is_ok() });
        self.done(api, res.map(|ok| json!({"m":"ensure_set1","i":i,"ok":ok})))
    }
    fn resize(&mut self, n: usize, x: bool) -> R {
        let bv = &mut self.bv;
        let res = guard(|| bv.resize(n, x).is_ok());
        self.done("resize", res.map(|ok| json!({"m":"resize","n":n,"x":x as u8,"ok":ok})))
    }
    fn clear(&mut self) -> R {
        let bv = &mut self.bv;
        let res = guard(|| bv.clear());
        self.done("clear", res.map(|_| json!({"m":"clear"})))
    }
    fn set_range(&mut self, s: usize, e: usize, x: bool) -> R {
        let bv = &mut self.bv;
        let res = guard(|| bv.set_range_simd(s, e, x).is_ok());
        self.done("set_range_simd", res.map(|ok| json!({"m":"set_range","s":s,"e":e,"x":x as u8,"ok":ok})))
    }
    fn bitwise(&mut self, f: &str, other: &[bool], s: usize, e: usize) -> R {
        let mut o = BitVector::new();
        for &b in other {
            o.push(b).expect("push");
        }
        let op = match f {
            "and" => zipora::succinct::BitwiseOp::And,
            "or" => zipora::succinct::BitwiseOp::Or,
            _ => zipora::succinct::BitwiseOp::Xor,
        };
        let bv = &mut self.bv;
        // the content is read back with get() right after the call (a projection; get itself is judged by the probes)
        let res = guard(|| {
            let ok = bv.bulk_bitwise_op_simd(&o, op, s, e).is_ok();
            let after: Vec<bool> = (0..bv.len()).map(|i| bv.get(i) == Some(true)).collect();
            (ok, after)
        });
        self.done(
            "bulk_bitwise_op_simd",
            res.map(|(ok, after)| {
                json!({"m":"bitwise","f":f,"s":s,"e":e,"olen":other.len(),"ow16":pack16(other),"ok":ok,"after16":pack16(&after)})
            }),
        )
    }
    /// calls that must not change the sequence: reserve, continuing with a clone, == with the clone
    fn noop(&mut self, api: &str, arg: usize) -> R {
        let bv = &mut self.bv;
        let res = guard(|| match api {
            "reserve" => {
                let _ = bv.reserve(arg);
                let _ = bv.capacity();
                None
            }
            _ => Some(bv.clone()),
        });
        let res = match res {
            Ok(Some(c)) => {
                if api == "clone_eq" {
                    // PartialEq against its own clone
                    let same = c == self.bv && self.bv == c;
                    self.done("eq", Ok(json!({"m":"noop"})))?;
                    self.r.ev(json!({"op":"cnt","what":"len","api":"eq(clone)->len","r": if same { clip(self.bv.len()) } else { -2 }}), 1);
                    return Ok(());
                }
                self.bv = c;
                Ok(json!({"m":"noop"}))
            }
            Ok(None) => Ok(json!({"m":"noop"})),
            Err(m) => Err(m),
        };
        self.done(api, res)
    }
}

/// run the history (profile, variant v) on a real BitVector; every call is logged
fn history(r: &mut Run, profile: &str, v: usize, seed: u64, probe: bool) -> Result<BitVector, Stop> {
    let mut rng = Rng::new(seed).derive(&format!("hist/{profile}/{v}"));
    let l = HIST_LENS[v % HIST_LENS.len()];
    let k = HIST_POPS[(v / HIST_LENS.len() + v) % HIST_POPS.len()].min(l);
    let mut h = Hist { r, bv: BitVector::new(), probe };
    match profile {
        // ones near the end are popped and nothing is pushed afterwards
        "poptail" => {
            h.create("new", 0)?;
            let mut bits = rand_bits(&mut rng, l, 1, 3);
            for i in l.saturating_sub(70)..l {
                bits[i] = rng.chance(9, 10);
            }
            h.push(&bits)?;
            h.pop(k)?;
        }
        // ... and then the vector grows again without a push
        "popgrow" => {
            h.create("new", 0)?;
            let mut bits = rand_bits(&mut rng, l, 1, 2);
            for i in l.saturating_sub(70)..l {
                bits[i] = rng.chance(9, 10);
            }
            h.push(&bits)?;
            h.pop(k)?;
            let d = [0usize, 1, 7, 63, 64, 130][v % 6];
            let n = h.len();
            match (v / 6) % 4 {
                0 => h.ensure("ensure_set1", n + d)?,
                1 => h.ensure("fast_ensure_set1", n + d)?,
                2 => h.resize(n + d + 1, false)?,
                _ => h.resize(n + d + 1, true)?,
            }
            h.pop(1)?;
            let n = h.len();
            h.ensure(if v % 2 == 0 { "fast_ensure_set1" } else { "ensure_set1" }, n + 2)?;
        }
        // a longer vector of ones cut down
        "shrink" => {
            h.with_size(l + [1usize, 64, 200, 300][v % 4], true)?;
            h.resize(l, v % 2 == 0)?;
            for j in 0..6 {
                let i = rng.below(l as u64 + 1) as usize;
                h.set(["set", "set_unchecked", "get_mut"][j % 3], if j % 3 == 1 { i.min(l - 1) } else { i }, rng.chance(1, 2))?;
            }
            h.resize(l / 2, false)?;
            h.noop("clone", 0)?;
        }
        "clearre" => {
            h.create("with_capacity", l)?;
            h.push(&vec![true; l])?;
            h.clear()?;
            h.noop("reserve", 100)?;
            let bits = rand_bits(&mut rng, l / 3, 1, 2);
            h.push(&bits)?;
            h.noop("clone_eq", 0)?;
        }
        "raw" => {
            let bits = rand_bits(&mut rng, l, 2, 3);
            h.from_raw(&bits)?;
            h.pop(k)?;
            if v % 2 == 0 {
                let n = h.len();
                h.ensure("ensure_set1", n + 5)?;
            }
        }
        "insert" => {
            h.create("new", 0)?;
            let bits = rand_bits(&mut rng, l, 1, 2);
            h.push(&bits)?;
            h.insert(0, true)?;
            let n = h.len();
            h.insert(n / 2, false)?;
            let n = h.len();
            h.insert(n, true)?;
            let n = h.len();
            h.insert(n + 1, true)?;
            h.insert(64.min(h.len()), true)?;
        }
        "range" => {
            let x = v % 2 == 0;
            h.with_size(l, x)?;
            let n = h.len();
            let cuts = [(1usize, n.saturating_sub(1)), (63, 65), (64, 128), (5, 5), (n, n), (0, n + 1), (n / 3, 2 * n / 3), (0, n)];
            for j in 0..4 {
                let (s, e) = cuts[(v + 3 * j) % cuts.len()];
                h.set_range(s, e, if j % 2 == 0 { !x } else { x })?;
            }
        }
        "bitwise" => {
            h.create("new", 0)?;
            let bits = rand_bits(&mut rng, l, 1, 2);
            h.push(&bits)?;
            let olen = [l, l + 70, l / 2][v % 3];
            let other = rand_bits(&mut rng, olen, 1, 2);
            let f = ["and", "or", "xor"][v % 3];
            h.bitwise(f, &other, 0, l.min(olen))?;
            h.bitwise(["xor", "and", "or"][v % 3], &other, 1.min(l), (l.min(olen)).saturating_sub(1).max(1.min(l)))?;
            h.bitwise(f, &other, 0, l)?;
        }
        // the documented use of fast_ensure_set1: increasing members of an integer set
        "fast" => {
            h.create("with_capacity", [0usize, 64, 200][v % 3])?;
            let mut i = 0usize;
            for _ in 0..12 {
                i += [1usize, 2, 5, 63, 64, 70][rng.below(6) as usize];
                h.ensure("fast_ensure_set1", i)?;
            }
            h.pop(2)?;
            let n = h.len();
            h.ensure("fast_ensure_set1", n + [0usize, 3, 64][v % 3])?;
            h.ensure("ensure_set1", h.len() / 2)?;
            h.pop(1)?;
            let n = h.len();
            h.ensure("ensure_set1", n + 1)?;
        }
        // seeded random histories over all mutators
        _ => {
            h.create("new", 0)?;
            let bits = rand_bits(&mut rng, l, 1, 2);
            h.push(&bits)?;
            for _ in 0..(if probe { 20 } else { 30 }) {
                let n = h.len();
                let at = |rng: &mut Rng| rng.below(n as u64 + 2) as usize;
                match rng.below(16) {
                    0 | 1 => {
                        let cnt = [1usize, 2, 65][rng.below(3) as usize];
                        let b = rand_bits(&mut rng, cnt, 2, 3);
                        h.push(&b)?
                    }
                    2 | 3 | 4 => h.pop([1usize, 1, 2, 64][rng.below(4) as usize])?,
                    5 => h.set("set", at(&mut rng), rng.chance(1, 2))?,
                    6 => {
                        if n > 0 {
                            h.set("set_unchecked", rng.below(n as u64) as usize, rng.chance(1, 2))?
                        }
                    }
                    7 => h.set("get_mut", at(&mut rng), rng.chance(1, 2))?,
                    8 => h.insert(at(&mut rng), rng.chance(1, 2))?,
                    9 => h.ensure("ensure_set1", n + rng.below(70) as usize)?,
                    10 => h.ensure("fast_ensure_set1", n + rng.below(70) as usize)?,
                    11 => h.ensure(if rng.chance(1, 2) { "ensure_set1" } else { "fast_ensure_set1" }, at(&mut rng))?,
                    12 => h.resize((n + 66).saturating_sub(rng.below(130) as usize), rng.chance(1, 2))?,
                    13 => {
                        let (a, b) = (at(&mut rng), at(&mut rng));
                        h.set_range(a.min(b), a.max(b), rng.chance(1, 2))?
                    }
                    14 => {
                        let other = rand_bits(&mut rng, n + 3, 1, 2);
                        let (a, b) = (at(&mut rng), at(&mut rng));
                        h.bitwise(["and", "or", "xor"][rng.below(3) as usize], &other, a.min(b), a.max(b))?
                    }
                    _ => h.noop(["reserve", "clone", "clone_eq"][rng.below(3) as usize], 77)?,
                }
            }
        }
    }
    Ok(h.bv)
}

// ---------------------------------------------------------------- drivers per kind of subject

/// every RankSelectOps method, position by position
fn ops_basic<T: RankSelectOps + ?Sized>(r: &mut Run, s: &T) -> R {
    r.counts(|| (s.len(), s.count_ones(), s.count_zeros()))?;
    r.cnt("empty", "is_empty", || s.is_empty() as usize)?;
    r.get("get", |i| s.get(i))?;
    r.rank("rank1", "rank1", |p| s.rank1(p))?;
    r.rank("rank0", "rank0", |p| s.rank0(p))?;
    r.select("select1", "select1", |k| s.select1(k))?;
    r.select("select0", "select0", |k| s.select0(k))
}

/// the RankSelectPerformanceOps entry points
fn ops_perf<T: RankSelectPerformanceOps>(r: &mut Run, s: &T) -> R {
    r.rank("rank1", "rank1_hardware_accelerated", |p| s.rank1_hardware_accelerated(p))?;
    r.rank("rank1", "rank1_adaptive", |p| s.rank1_adaptive(p))?;
    r.rank_bulk("rank1", "rank1_bulk", |ps| s.rank1_bulk(ps))?;
    r.select("select1", "select1_hardware_accelerated", |k| s.select1_hardware_accelerated(k).ok())?;
    r.select("select1", "select1_adaptive", |k| s.select1_adaptive(k).ok())?;
    let c = s.count_ones();
    r.select_bulk_pair("select1_bulk", c, |ks| s.select1_bulk(ks).ok())
}

fn il_extra(r: &mut Run, s: &RankSelectInterleaved256) -> R {
    r.rank("rank1", "rank1_optimized", |p| s.rank1_optimized(p))?;
    r.rank_bulk("rank1", "rank1_bulk_optimized", |ps| s.rank1_bulk_optimized(ps))?;
    r.select("select1", "select1_optimized", |k| s.select1_optimized(k).ok())?;
    let c = s.count_ones();
    r.select_bulk_pair("select1_bulk_optimized", c, |ks| s.select1_bulk_optimized(ks).ok())
}

fn built<T>(r: &mut Run, x: zipora::error::Result<T>) -> Result<T, Stop> {
    match x {
        Ok(v) => Ok(v),
        Err(_) => {
            let _ = r.build_refused();
            Err(Stop)
        }
    }
}

/// all subjects: "fam:variant" or "fam:variant@route"
fn subjects() -> Vec<String> {
    let mut v: Vec<String> = vec![];
    for s in [
        "bv:push", "bv:raw", "bv:shrunk",
        "il256:default", "il256:nosel", "il256:sel64", "il256:sel1", "il256:from_iter", "il256:from_bytes",
        "il256:from_bit_vector", "il256:opt_default", "il256:opt_nosel", "il256:default@raw", "il256:default@shrunk",
        "se256:sel11", "se256:sel00", "se256:sel10", "se256:sel01", "se256:sel11@raw", "se256:sel11@shrunk",
        "se512:sel11", "se512:sel00", "se512:sel10", "se512:sel01", "se512:sel11@raw", "se512:sel11@shrunk",
        "se512:alias32", "se512:alias64",
        "simple:new", "simple:from_words", "simple:new@raw", "simple:new@shrunk",
        "fewone:from_bitvector", "fewone:new", "fewzero:from_bitvector", "fewzero:new",
        "mixed:dim0_short", "mixed:dim0_long", "mixed:dim1_short", "mixed:dim1_long", "mixed:dim0_same@shrunk",
        "allzero:new", "allone:new",
        "adaptive:default", "adaptive:nosel_space", "adaptive:seq_noadapt", "adaptive_md:dual",
        "multidim:d0of2", "multidim:d1of2", "multidim:d4of5",
        "simd:words", "bmi2a:words", "bmi2c:words",
        // built from a BitVector with a logged MUTATION HISTORY (push/pop/set/insert/ensure_set1/resize/clear/...)
        "bv:steps@hist", "il256:default@hist", "il256:nosel@hist", "se256:sel11@hist", "se256:sel00@hist", "se512:sel11@hist",
        "simple:new@hist", "fewone:from_bitvector@hist", "fewzero:from_bitvector@hist", "mixed:dim0_short@hist",
        "mixed:dim1_long@hist", "adaptive:default@hist", "multidim:d0of2@hist", "multidim:d4of5@hist",
    ] {
        v.push(s.to_string());
    }
    v
}

fn split_name(name: &str) -> (String, String, String) {
    let (fv, route) = match name.split_once('@') {
        Some((a, b)) => (a, b),
        None => (name, "push"),
    };
    let (fam, variant) = fv.split_once(':').unwrap_or((fv, ""));
    (fam.to_string(), variant.to_string(), route.to_string())
}

/// is the subject defined for this input at all (trivial structures exist only for constant vectors)
fn applicable(fam: &str, inp: &Input) -> bool {
    match fam {
        "allzero" => inp.pat == "zeros",
        "allone" => inp.pat == "ones",
        _ => true,
    }
}

fn run_subject(r: &mut Run, fam: &str, variant: &str, route: &str, seed: u64) -> R {
    let inp = r.inp;
    let n = r.n;
    let base: Option<BitVector> = r.hist.clone();
    // the BitVector the subject is built from: generated input through a construction route, or the
    // product of the logged mutation history (a clone keeps the storage blocks exactly as they are)
    let mkbv = |route: &str| -> BitVector {
        match &base {
            Some(b) if route == "hist" => b.clone(),
            _ => make_bv(inp, route),
        }
    };
    match fam {
        "bv" => {
            let bv = mkbv(route);
            r.counts(|| (bv.len(), bv.count_ones(), bv.count_zeros()))?;
            r.get("get", |i| bv.get(i))?;
            r.rank("rank1", "rank1", |p| bv.rank1(p))?;
            r.rank("rank0", "rank0", |p| bv.rank0(p))?;
            r.rank_bulk("rank1", "rank1_bulk_simd", |ps| bv.rank1_bulk_simd(ps))?;
            r.cnt("empty", "is_empty", || bv.is_empty() as usize)?;
            // i < len() holds for every index asked
            let len = bv.len();
            r.get("get_unchecked", |i| if i < len { Some(unsafe { bv.get_unchecked(i) }) } else { None })?;
            let c = bv.clone();
            r.cnt("len", "eq(clone)->len", || if c == bv { bv.len() } else { MALFORMED })
        }
        "il256" => {
            let s = match variant {
                "default" => RankSelectInterleaved256::new(mkbv(route)),
                "nosel" => RankSelectInterleaved256::with_options(mkbv(route), false, 512),
                "sel64" => RankSelectInterleaved256::with_options(mkbv(route), true, 64),
                "sel1" => RankSelectInterleaved256::with_options(mkbv(route), true, 1),
                "from_iter" => <RankSelectInterleaved256 as RankSelectBuilder<_>>::from_iter((0..n).map(|i| inp.bit(i))),
                "from_bytes" => {
                    let bytes: Vec<u8> = (0..(n + 7) / 8).map(|j| (inp.words[j / 8] >> (8 * (j % 8))) as u8).collect();
                    <RankSelectInterleaved256 as RankSelectBuilder<_>>::from_bytes(&bytes, n)
                }
                "from_bit_vector" => <RankSelectInterleaved256 as RankSelectBuilder<_>>::from_bit_vector(mkbv(route)),
                "opt_default" => <RankSelectInterleaved256 as RankSelectBuilder<_>>::with_optimizations(mkbv(route), BuilderOptions::default()),
                _ => {
                    let o = BuilderOptions { optimize_select: false, prefer_space: true, enable_simd: false, ..BuilderOptions::default() };
                    <RankSelectInterleaved256 as RankSelectBuilder<_>>::with_optimizations(mkbv(route), o)
                }
            };
            let s = built(r, s)?;
            ops_basic(r, &s)?;
            if matches!(variant, "default" | "nosel") && route == "push" || (r.full && variant == "sel64") {
                ops_perf(r, &s)?;
                il_extra(r, &s)?;
            }
            Ok(())
        }
        "se256" => {
            let (s0, s1) = (variant.as_bytes()[3] == b'1', variant.as_bytes()[4] == b'1');
            let s = built(r, RankSelectSE256::with_options(mkbv(route), s0, s1))?;
            ops_basic(r, &s)?;
            r.cnt("ones", "max_rank1", || s.max_rank1())?;
            r.cnt("zeros", "max_rank0", || s.max_rank0())
        }
        "se512" => {
            let s = match variant {
                "alias32" => RankSelectSE512_32::new(mkbv(route)),
                "alias64" => RankSelectSE512_64::new(mkbv(route)),
                _ => {
                    let (s0, s1) = (variant.as_bytes()[3] == b'1', variant.as_bytes()[4] == b'1');
                    RankSelectSE512::with_options(mkbv(route), s0, s1)
                }
            };
            let s = built(r, s)?;
            ops_basic(r, &s)?;
            r.cnt("ones", "max_rank1", || s.max_rank1())?;
            r.cnt("zeros", "max_rank0", || s.max_rank0())
        }
        "simple" => {
            let s = match variant {
                "from_words" => RankSelectSimple::from_words(inp.words.clone(), n),
                _ => RankSelectSimple::new(mkbv(route)),
            };
            let s = built(r, s)?;
            ops_basic(r, &s)?;
            r.cnt("ones", "max_rank1", || s.max_rank1())?;
            r.cnt("zeros", "max_rank0", || s.max_rank0())
        }
        "fewone" | "fewzero" => {
            let pivot = fam == "fewone";
            // the sparse constructors take the sorted positions of the pivot bits (input formatting)
            let pos: Vec<u32> =
                if variant == "new" { (0..n).filter(|&i| inp.bit(i) == pivot).map(|i| i as u32).collect() } else { vec![] };
            if pos.len() > 3000 && variant == "new" {
                return Ok(()); // the position list is an input here; keep it small
            }
            if pivot {
                let s = match variant {
                    "new" => RankSelectFewOne::new(pos, n),
                    _ => RankSelectFewOne::from_bitvector(&mkbv(route)),
                };
                let s = built(r, s)?;
                ops_basic(r, &s)?;
                r.cnt("ones", "num_ones", || s.num_ones())?;
                r.cnt("zeros", "num_zeros", || s.num_zeros())
            } else {
                let s = match variant {
                    "new" => RankSelectFewZero::new(pos, n),
                    _ => RankSelectFewZero::from_bitvector(&mkbv(route)),
                };
                let s = built(r, s)?;
                ops_basic(r, &s)?;
                r.cnt("ones", "num_ones", || s.num_ones())?;
                r.cnt("zeros", "num_zeros", || s.num_zeros())
            }
        }
        "mixed" => {
            let plen = if variant.ends_with("short") {
                n / 2
            } else if variant.ends_with("long") {
                n + n / 2 + 77
            } else {
                n
            };
            let w = partner(inp, seed, plen);
            if variant.starts_with("dim0") {
                let s = built(r, RankSelectMixedIL256::new(mkbv(route), w))?;
                ops_basic(r, &s.dim0())?;
                r.cnt("len", "size_dim", || s.size_dim(0))?;
                r.cnt("ones", "max_rank1_dim", || s.max_rank1_dim(0))?;
                if !(r.full && variant == "dim0_long") {
                    return Ok(());
                }
                r.get("get_dim", |i| s.get_dim(0, i))?;
                r.rank("rank1", "rank1_dim", |p| s.rank1_dim(0, p))?;
                r.select("select1", "select1_dim", |k| s.select1_dim(0, k).ok())
            } else {
                let s = built(r, RankSelectMixedIL256::new(w, mkbv(route)))?;
                ops_basic(r, &s.dim1())?;
                r.cnt("len", "size_dim", || s.size_dim(1))?;
                r.cnt("ones", "max_rank1_dim", || s.max_rank1_dim(1))?;
                if !(r.full && variant == "dim1_long") {
                    return Ok(());
                }
                r.get("get_dim", |i| s.get_dim(1, i))?;
                r.rank("rank0", "rank0_dim", |p| s.rank0_dim(1, p))?;
                r.select("select1", "select1_dim", |k| s.select1_dim(1, k).ok())
            }
        }
        "allzero" => {
            let s = RankSelectAllZero::new(n);
            ops_basic(r, &s)?;
            r.cnt("ones", "max_rank1", || s.max_rank1())?;
            r.cnt("zeros", "max_rank0", || s.max_rank0())
        }
        "allone" => {
            let s = RankSelectAllOne::new(n);
            ops_basic(r, &s)?;
            r.cnt("ones", "max_rank1", || s.max_rank1())?;
            r.cnt("zeros", "max_rank0", || s.max_rank0())
        }
        "adaptive" => {
            let s = match variant {
                "default" => AdaptiveRankSelect::new(mkbv(route)),
                "nosel_space" => {
                    let c = SelectionCriteria { enable_select_cache: false, prefer_space: true, ..SelectionCriteria::default() };
                    AdaptiveRankSelect::with_criteria(mkbv(route), c)
                }
                _ => {
                    let c = SelectionCriteria {
                        enable_adaptive_thresholds: false,
                        access_pattern: AccessPattern::Sequential,
                        small_dataset_threshold: 100,
                        ..SelectionCriteria::default()
                    };
                    AdaptiveRankSelect::with_criteria(mkbv(route), c)
                }
            };
            let s = built(r, s)?;
            ops_basic(r, &s)
        }
        "adaptive_md" => {
            let w = partner(inp, seed, n);
            let s = built(r, AdaptiveMultiDimensional::new_dual(mkbv(route), w))?;
            ops_basic(r, &s)
        }
        "multidim" => {
            // only the bulk entry points exist; the other dimensions hold partner vectors
            match variant {
                "d0of2" => {
                    let s: MultiDimRankSelect<2> = built(r, MultiDimRankSelect::new(vec![mkbv(route), partner(inp, seed, n)]))?;
                    r.cnt("len", "total_bits", || s.total_bits())?;
                    r.rank("rank1", "bulk_rank_multidim", |p| s.bulk_rank_multidim(&[p, n - p])[0])?;
                    r.select("select1", "bulk_select_multidim", |k| s.bulk_select_multidim(&[k, 0]).ok().map(|x| x[0]))
                }
                "d1of2" => {
                    let s: MultiDimRankSelect<2> = built(r, MultiDimRankSelect::new(vec![partner(inp, seed, n), mkbv(route)]))?;
                    r.rank("rank1", "bulk_rank_multidim", |p| s.bulk_rank_multidim(&[n - p, p])[1])?;
                    // dimension 0 is asked for its first one; when it has none the whole call is refused
                    r.select("select1", "bulk_select_multidim", |k| s.bulk_select_multidim(&[0, k]).ok().map(|x| x[1]))
                }
                _ => {
                    let mut v: Vec<BitVector> = (0..4).map(|_| mkbv(if route == "hist" { "hist" } else { "push" })).collect();
                    v.push(mkbv(route));
                    let s: MultiDimRankSelect<5> = built(r, MultiDimRankSelect::new(v))?;
                    r.rank("rank1", "bulk_rank_multidim", |p| s.bulk_rank_multidim(&[0, n, p / 2, n - p, p])[4])?;
                    r.select("select1", "bulk_select_multidim", |k| s.bulk_select_multidim(&[k, k, k, k, k]).ok().map(|x| x[4]))
                }
            }
        }
        // free functions over the raw 64-bit words of the vector
        "simd" => {
            let w = &inp.words;
            r.rank_bulk("rank1", "bulk_rank1_simd", |ps| bulk_rank1_simd(w, ps))?;
            r.rank("rank1", "bulk_rank1_simd[1]", |p| one(bulk_rank1_simd(w, &[p])))?;
            r.select("select1", "bulk_select1_simd[1]", |k| bulk_select1_simd(w, &[k]).ok().map(one))?;
            r.popcounts("bulk_popcount_simd", |ws| bulk_popcount_simd(ws))?;
            // the subject has no count of its own: the batch is cut where the single calls started to refuse
            let c = match guard(|| (0..=n).find(|&k| bulk_select1_simd(w, &[k]).is_err()).unwrap_or(n + 1)) {
                Ok(c) => c,
                Err(m) => return Err(r.panic("bulk_select1_simd[1]", m)),
            };
            r.select_bulk_pair("bulk_select1_simd", c, |ks| bulk_select1_simd(w, ks).ok())
        }
        "bmi2a" => {
            let w = &inp.words;
            let acc = b2a::Bmi2Accelerator::new();
            let disp = b2a::Bmi2Dispatcher::new();
            r.rank_bulk("rank1", "Bmi2BlockOps::rank_bulk", |ps| b2a::Bmi2BlockOps::rank_bulk(w, ps))?;
            r.rank_bulk("rank1", "Bmi2Accelerator::rank_bulk", |ps| acc.rank_bulk(w, ps))?;
            r.select("select1", "Bmi2BlockOps::select_bulk[1]", |k| b2a::Bmi2BlockOps::select_bulk(w, &[k]).ok().map(one))?;
            r.select("select1", "Bmi2SelectOps::select1_bulk[1]", |k| {
                b2a::Bmi2SelectOps::select1_bulk(w, &[k as u32]).ok().map(|x| one(x.into_iter().map(|y| y as usize).collect()))
            })?;
            let c = match guard(|| (0..=n).find(|&k| b2a::Bmi2BlockOps::select_bulk(w, &[k]).is_err()).unwrap_or(n + 1)) {
                Ok(c) => c,
                Err(m) => return Err(r.panic("Bmi2BlockOps::select_bulk[1]", m)),
            };
            r.select_bulk_pair("Bmi2BlockOps::select_bulk", c, |ks| b2a::Bmi2BlockOps::select_bulk(w, ks).ok())?;
            r.select_bulk_pair("Bmi2Accelerator::select_bulk", c, |ks| acc.select_bulk(w, ks).ok())?;
            r.select_bulk_pair("Bmi2SelectOps::select1_bulk", c, |ks| {
                let ks32: Vec<u32> = ks.iter().map(|&k| k as u32).collect();
                b2a::Bmi2SelectOps::select1_bulk(w, &ks32).ok().map(|v| v.into_iter().map(|x| x as usize).collect())
            })?;
            r.wselect_batch("Bmi2AdvancedPatterns::pdep_ctz_select_bulk", |x, ks| {
                let ks32: Vec<u32> = ks.iter().map(|&k| k as u32).collect();
                b2a::Bmi2AdvancedPatterns::pdep_ctz_select_bulk(x, &ks32).ok().map(|v| v.into_iter().map(|p| p as usize).collect())
            })?;
            r.popcounts("Bmi2RankOps::popcount_bulk", |ws| b2a::Bmi2RankOps::popcount_bulk(ws).into_iter().map(|x| x as usize).collect())?;
            r.popcounts("Bmi2RankOps::popcount_u64", |ws| ws.iter().map(|&x| b2a::Bmi2RankOps::popcount_u64(x) as usize).collect())?;
            r.popcounts("Bmi2Dispatcher::dispatch_popcount", |ws| ws.iter().map(|&x| disp.dispatch_popcount(x) as usize).collect())?;
            r.wrank("Bmi2RankOps::popcount_trail", |x, p| b2a::Bmi2RankOps::popcount_trail(x, p as u32) as usize)?;
            r.wrank("Bmi2BzhiOps::popcount_bzhi_enhanced", |x, p| b2a::Bmi2BzhiOps::popcount_bzhi_enhanced(x, p as u32) as usize)?;
            r.wrank("Bmi2RangeOps::count_ones_range", |x, p| b2a::Bmi2RangeOps::count_ones_range(x, 0, p as u32) as usize)?;
            r.wrank("Bmi2Accelerator::rank1", |x, p| acc.rank1(x, p as u32) as usize)?;
            r.wrange("Bmi2RangeOps::count_ones_multi_range", |x, rs| b2a::Bmi2RangeOps::count_ones_multi_range(x, rs))?;
            r.wrange("Bmi2RangeOps::count_ones_range", |x, rs| rs.iter().map(|&(s, l)| b2a::Bmi2RangeOps::count_ones_range(x, s, l)).collect())?;
            r.wedge("Bmi2RankOps::trailing_zeros/leading_zeros", |x| (b2a::Bmi2RankOps::trailing_zeros(x), b2a::Bmi2RankOps::leading_zeros(x)))?;
            r.popcounts("Bmi2BlockOps::process_blocks_simd.0", |ws| b2a::Bmi2BlockOps::process_blocks_simd(ws).into_iter().map(|x| x.0 as usize).collect())?;
            r.wedge("Bmi2BlockOps::process_blocks_simd.1", |x| {
                let v = b2a::Bmi2BlockOps::process_blocks_simd(&[x, x, x, x, x]);
                (b2a::Bmi2RankOps::trailing_zeros(x), v[4].1)
            })?;
            r.wselect("select1", "Bmi2SelectOps::select1_u64", |x, k| b2a::Bmi2SelectOps::select1_u64(x, k as u32).map(|p| p as usize))?;
            r.wselect("select1", "Bmi2SelectOps::select1_u64_enhanced", |x, k| {
                b2a::Bmi2SelectOps::select1_u64_enhanced(x, k as u32).map(|p| p as usize)
            })?;
            r.wselect("select0", "Bmi2SelectOps::select0_u64", |x, k| b2a::Bmi2SelectOps::select0_u64(x, k as u32).map(|p| p as usize))?;
            r.wselect("select1", "Bmi2AdvancedPatterns::pdep_ctz_select", |x, k| {
                b2a::Bmi2AdvancedPatterns::pdep_ctz_select(x, k as u32).map(|p| p as usize)
            })?;
            r.wselect("select1", "Bmi2AdvancedPatterns::pdep_ctz_select_bulk[1]", |x, k| {
                b2a::Bmi2AdvancedPatterns::pdep_ctz_select_bulk(x, &[k as u32]).ok().map(|p| one(p.into_iter().map(|y| y as usize).collect()))
            })?;
            r.wselect("select1", "Bmi2Accelerator::select1", |x, k| acc.select1(x, k as u32).map(|p| p as usize))?;
            r.wselect("select1", "Bmi2Accelerator::select1_enhanced", |x, k| acc.select1_enhanced(x, k as u32).map(|p| p as usize))?;
            r.wselect("select1", "Bmi2Dispatcher::dispatch_select", |x, k| disp.dispatch_select(x, k as u32).map(|p| p as usize))
        }
        "bmi2c" => {
            let w = &inp.words;
            r.wrank("Bmi2BitOps::rank1_optimized", |x, p| b2c::Bmi2BitOps::rank1_optimized(x, p))?;
            r.wedge("Bmi2BitOps::trailing_zeros_optimized/leading_zeros_optimized", |x| {
                (b2c::Bmi2BitOps::trailing_zeros_optimized(x), b2c::Bmi2BitOps::leading_zeros_optimized(x))
            })?;
            // these select the rank-th one, rank counted from 1 (documented by the crate's tests)
            r.wselect("select1", "Bmi2BitOps::select1_ultra_fast(1-based)", |x, k| b2c::Bmi2BitOps::select1_ultra_fast(x, k + 1))?;
            r.wselect("select1", "Bmi2BitOps::select1_fallback(1-based)", |x, k| b2c::Bmi2BitOps::select1_fallback(x, k + 1))?;
            r.select("select1", "Bmi2BlockOps::bulk_select1[1](1-based)", |k| b2c::Bmi2BlockOps::bulk_select1(w, &[k + 1]).ok().map(one))?;
            // one call for many ranks (1-based), asked k+1 for the k-th one
            let c = match guard(|| (0..=n).find(|&k| b2c::Bmi2BlockOps::bulk_select1(w, &[k + 1]).is_err()).unwrap_or(n + 1)) {
                Ok(c) => c,
                Err(m) => return Err(r.panic("Bmi2BlockOps::bulk_select1[1](1-based)", m)),
            };
            r.select_bulk_pair("Bmi2BlockOps::bulk_select1(1-based)", c, |ks| {
                let ranks: Vec<usize> = ks.iter().map(|&k| k + 1).collect();
                b2c::Bmi2BlockOps::bulk_select1(w, &ranks).ok()
            })?;
            r.rank_bulk("rank1", "Bmi2BlockOps::bulk_rank1", |ps| b2c::Bmi2BlockOps::bulk_rank1(w, ps))
        }
        _ => Ok(()),
    }
}

// ---------------------------------------------------------------- driver

fn drive(a: &Args) {
    let mut tr = Tracer::new(&a.out, "rs");
    let ins = inputs(a);
    let budget = a.get_u64("file_ints", 1_100_000);
    let mut stats: BTreeMap<String, SubjStat> = BTreeMap::new();
    let mut ints_in_file = 0u64;
    let mut answers = 0u64;
    let mut hist_runs = 0u64;
    // subject-major: a trace file holds few subjects, so one defective subject does not hide the others
    for name in subjects() {
        if !a.wants(&name) {
            continue;
        }
        let (fam, variant, route) = split_name(&name);
        let st = stats.entry(name.clone()).or_default();
        // a new file per subject, unless the current file is still small (JVM start-up costs ~3 CPU seconds)
        if ints_in_file >= 200_000 {
            tr.max_events = 0;
        }
        if route == "hist" {
            // one run per (subject, history): the mutator calls are logged first, then the structure is built
            // from the resulting BitVector and asked everything
            let only_pat = a.get("pat");
            if a.get("len").is_some() && only_pat.map_or(true, |p| !p.starts_with("hist:")) {
                continue;
            }
            for (profile, v) in histories(a) {
                let pat = format!("hist:{profile}:{v}");
                if let Some(p) = only_pat {
                    if p != pat {
                        continue;
                    }
                }
                if ints_in_file >= budget {
                    tr.max_events = 0;
                }
                let before = tr.files.len();
                tr.reset(
                    "rankselect",
                    &name,
                    json!({"fam": fam, "variant": variant, "route": route, "len": 0, "pat": pat, "big": false,
                           "seed": a.seed, "w16": []}),
                );
                if tr.files.len() != before {
                    ints_in_file = 0;
                }
                tr.max_events = usize::MAX;
                st.runs += 1;
                st.events += 1;
                ints_in_file += 16;
                let dummy = Input { len: 0, words: vec![], pat, big: false };
                let mut r = Run {
                    tr: &mut tr, inp: &dummy, st, ints: &mut ints_in_file, at: Cell::new(0), answered: false,
                    full: a.thorough(), n: 0, hist: None,
                };
                if let Ok(bv) = history(&mut r, &profile, v, a.seed, fam == "bv") {
                    r.n = bv.len();
                    r.hist = Some(bv);
                    let _ = run_subject(&mut r, &fam, &variant, &route, a.seed);
                }
                if r.answered {
                    st.nontrivial_runs += 1;
                }
                hist_runs += 1;
            }
            answers += st.answers;
            continue;
        }
        for (vi, inp) in ins.iter().enumerate() {
            if !applicable(&fam, inp) {
                continue;
            }
            // the word-level families and alternative routes are run on every 2nd..3rd vector only (quick tier)
            if a.get("len").is_none() && (!key_length(inp.len) || (inp.len > 1100 && inp.len % 2048 != 0)) {
                let light = route != "push"
                    || matches!(variant.as_str(), "sel00" | "sel10" | "sel01" | "alias32" | "alias64" | "opt_default" | "from_bit_vector" | "nosel_space" | "seq_noadapt")
                    || fam == "adaptive_md";
                if light && vi % (if a.thorough() { 2 } else { 3 }) != 0 {
                    continue;
                }
            }
            if ints_in_file >= budget {
                tr.max_events = 0;
            }
            let before = tr.files.len();
            tr.reset(
                "rankselect",
                &name,
                json!({"fam": fam, "variant": variant, "route": route, "len": inp.len, "pat": inp.pat, "big": inp.big,
                       "seed": a.seed, "w16": inp.w16()}),
            );
            if tr.files.len() != before {
                ints_in_file = 0;
            }
            tr.max_events = usize::MAX;
            st.runs += 1;
            st.events += 1;
            ints_in_file += (inp.len as u64) / 16 + 16;
            let mut r = Run { tr: &mut tr, inp, st, ints: &mut ints_in_file, at: Cell::new(0), answered: false, full: a.thorough(), n: inp.len, hist: None };
            let _ = run_subject(&mut r, &fam, &variant, &route, a.seed);
            if r.answered {
                st.nontrivial_runs += 1;
            }
        }
        answers += st.answers;
    }
    tr.close();
    let subj: serde_json::Map<String, Value> = stats
        .iter()
        .map(|(k, s)| {
            (
                k.clone(),
                json!({"runs": s.runs, "events": s.events, "answers": s.answers, "panics": s.panics,
                       "build_refused": s.build_refused, "select0_not_offered": s.select0_not_offered,
                       "nontrivial_runs": s.nontrivial_runs}),
            )
        })
        .collect();
    let lens: Vec<usize> = {
        let mut l: Vec<usize> = ins.iter().map(|i| i.len).collect();
        l.dedup();
        l
    };
    write_summary(
        &a.out,
        &json!({"mode":"drive","events":tr.total_events,"runs":tr.runs,"answers":answers,"vectors":ins.len(),
                "lengths":lens.len(),"max_len":lens.iter().max(),"history_runs":hist_runs,"histories":histories(a).len(),"files":tr.files.len(),"subjects":subj}),
    );
}

fn main() {
    let a = Args::parse();
    if std::env::var("C04_LOUD").is_err() {
        quiet_panics();
    }
    match a.mode.as_str() {
        "drive" => drive(&a),
        "subjects" => {
            for s in subjects() {
                println!("{s}");
            }
        }
        m => {
            eprintln!("c04: unknown mode {m}");
            std::process::exit(2)
        }
    }
}
